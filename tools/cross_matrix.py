#!/usr/bin/env python3
"""Cross-property precision sweep: evaluate every kept mutation under the properties it was NOT written for (and is not paired with
in selftest.ALSO) and list the alarms.  Each such alarm is either a genuine second break (the pairing is then recorded in
tables/cross_pairings.json with a reason) or a false alarm of the rule that raised it.  Developer tool; writes out/cross-matrix.json."""
import glob, json, os, re, sys
V = os.path.dirname(os.path.dirname(os.path.abspath(__file__)))
sys.path.insert(0, os.path.join(V, "rules"))
import harness, selftest  # noqa: E402
from concurrent.futures import ThreadPoolExecutor  # noqa: E402

ALL = ["C%02d" % i for i in range(1, 21)]


def main():
    base_key = harness.repo_hash(extra=harness._sha(harness.DRIVER))
    try:
        genuine = json.load(open(os.path.join(V, "tables", "cross_pairings.json")))
    except Exception:
        genuine = {}
    ids = [os.path.basename(d) for d in sorted(glob.glob(os.path.join(V, "seeded", "*"))) if os.path.exists(os.path.join(d, "patch.diff"))]

    def one(sid):
        d, err = selftest.facts_for(os.path.join(V, "seeded", sid, "patch.diff"), base_key)
        if err:
            return sid, None
        own = selftest.ALSO.get(sid, [sid.split("-")[0]])
        r = selftest.evaluate([p for p in ALL if p not in own], d)
        cur, got = None, {}
        for l in r["out"].split("\n"):
            m = re.match(r"^\[(C\d\d)\] tier=", l)
            if m:
                cur = m.group(1)
            elif l.startswith("  R") and " @ " in l and cur:
                got.setdefault(cur, [])
                k = l.strip().split(" @ ")[0]
                if k not in got[cur]:
                    got[cur].append(k)
        return sid, got
    out, unexplained = {}, 0
    with ThreadPoolExecutor(10) as ex:
        for sid, v in ex.map(one, ids):
            out[sid] = v
            if not v:
                continue
            ok = genuine.get(sid, {})
            rest = {p: ks[:4] for p, ks in v.items() if p not in ok}
            if rest:
                unexplained += 1
                print("UNEXPLAINED %s %s" % (sid, rest), flush=True)
    json.dump(out, open(os.path.join(V, "out", "cross-matrix.json"), "w"), indent=1)
    print("[cross] %d mutations, %d with alarms from other properties, %d not covered by a recorded pairing"
          % (len(out), sum(1 for v in out.values() if v), unexplained))


if __name__ == "__main__":
    main()
