#!/usr/bin/env python3
"""Confirm sub-agent mutations in a scratch worktree and import them into /verif/seeded/.

usage: verify_seed.py <ID>:<mut dir> [...]      e.g.  verify_seed.py C11-m1:/tmp/wt/C11/_mut/m1
For each: patch applies on /repo HEAD, workspace builds, the 215-test suite passes with the patch,
the demo fails with the patch and passes without it. Scratch worktree and target dir live under /tmp and
are removed at the end (pass --keep to keep them for the next batch).
"""
import json, os, shutil, subprocess, sys, time

WT = os.environ.get("SEED_WT", "/tmp/seedwt")
TGT = WT + "-target"
SEEDED = os.environ.get("SEEDED_DIR", "/verif/seeded")


def sh(cmd, cwd=None, env=None, timeout=3600):
    e = dict(os.environ)
    e.update({"CARGO_NET_OFFLINE": "true", "CARGO_TARGET_DIR": TGT, "WT": WT})
    if env:
        e.update(env)
    r = subprocess.run(cmd, shell=True, cwd=cwd, env=e, stdout=subprocess.PIPE, stderr=subprocess.STDOUT, text=True, timeout=timeout)
    return r.returncode, r.stdout


def reset():
    sh("git checkout -q -- . && git clean -fdq -e _mut", cwd=WT)


def main():
    keep = "--keep" in sys.argv
    items = [a for a in sys.argv[1:] if ":" in a]
    head = subprocess.check_output(["git", "-C", "/repo", "rev-parse", "HEAD"], text=True).strip()
    if not os.path.exists(WT):
        rc, out = sh("git -C /repo worktree add -q --detach %s %s" % (WT, head))
        if rc != 0:
            print(out); sys.exit(2)
    else:
        sh("git checkout -q --detach %s" % head, cwd=WT)
    for it in items:
        sid, src = it.split(":", 1)
        res = {"seed": sid, "repo_head": head, "confirmed_at": time.strftime("%Y-%m-%dT%H:%M:%SZ", time.gmtime())}
        reset()
        shutil.rmtree(os.path.join(WT, "_mut"), ignore_errors=True)
        mname = os.path.basename(src.rstrip("/"))
        shutil.copytree(src, os.path.join(WT, "_mut", mname))
        rel = "_mut/%s" % mname
        # demo scripts written by sub-agents may hard-code their own worktree; point them at the scratch one
        rs = os.path.join(WT, rel, "demo", "run.sh")
        if os.path.exists(rs):
            import re
            txt = open(rs).read()
            txt = re.sub(r"/tmp/wt/[A-Z]\d+", WT, txt)
            txt = txt.replace(WT + "/target", TGT)
            open(rs, "w").write(txt)
        rc, out = sh("git apply --check %s/patch.diff" % rel, cwd=WT)
        res["patch_applies"] = rc == 0
        ok = rc == 0
        if ok:
            sh("git apply %s/patch.diff" % rel, cwd=WT)
            rc, out = sh("cargo nextest run --workspace --no-fail-fast --offline 2>&1 | tail -5", cwd=WT)
            res["suite_with_patch"] = out.strip().split("\n")[-3:]
            res["suite_passes"] = "215 passed" in out and "failed" not in out.split("Summary")[-1]
            res["builds"] = "error: could not compile" not in out
            demo_diff = os.path.join(WT, rel, "demo", "demo.diff")
            if os.path.exists(demo_diff):
                rc, o = sh("git apply %s/demo/demo.diff" % rel, cwd=WT)
                res["demo_applies"] = rc == 0
            rc1, o1 = sh("bash %s/demo/run.sh" % rel, cwd=WT)
            res["demo_fails_with_patch"] = rc1 != 0
            res["demo_with_tail"] = o1.strip().split("\n")[-6:]
            sh("git apply -R %s/patch.diff" % rel, cwd=WT)
            rc2, o2 = sh("bash %s/demo/run.sh" % rel, cwd=WT)
            res["demo_passes_without_patch"] = rc2 == 0
            if rc2 != 0:
                res["demo_without_tail"] = o2.strip().split("\n")[-6:]
        res["confirmed"] = bool(ok and res.get("suite_passes") and res.get("builds") and res.get("demo_fails_with_patch")
                                and res.get("demo_passes_without_patch"))
        print(json.dumps(res, indent=1))
        if res["confirmed"]:
            dst = os.path.join(SEEDED, sid)
            shutil.rmtree(dst, ignore_errors=True)
            shutil.copytree(src, dst)
            meta_p = os.path.join(dst, "meta.json")
            try:
                meta = json.load(open(meta_p))
            except Exception:
                meta = {}
            meta["confirmation"] = res
            meta["what_i_ran"] = ["git apply patch.diff (on /repo HEAD %s, scratch worktree)" % head[:7],
                                  "cargo nextest run --workspace --no-fail-fast --offline  -> 215 passed",
                                  "git apply demo/demo.diff; sh demo/run.sh -> fails with patch, passes after git apply -R patch.diff"]
            json.dump(meta, open(meta_p, "w"), indent=1)
        reset()
    shutil.rmtree(os.path.join(WT, "_mut"), ignore_errors=True)
    if not keep:
        sh("git -C /repo worktree remove --force %s" % WT)
        shutil.rmtree(TGT, ignore_errors=True)


if __name__ == "__main__":
    main()
