#!/bin/bash
# usage: try_benign.sh <dir with b*/patch.diff> — applies each behaviour-preserving patch to /repo, runs every check, undoes it.
# Any VIOLATION / ERROR line printed here is a false alarm of the machinery.
D=$1
cd /verif
trap "git -C /repo checkout -- . 2>/dev/null" EXIT PIPE INT TERM
for p in $D/b*/patch.diff; do
  if git -C /repo apply $p 2>/dev/null; then
    out=$(./check --all 2>&1)
    n=$(echo "$out" | grep -c '^VIOLATION')
    echo "== $p: $n alarm(s)"
    echo "$out" | grep -E "^  R[0-9]+|ERROR|UNDECIDED|anchor" | cut -c1-260
    git -C /repo checkout -- .
  else echo "== $p: does not apply"; fi
done
