#!/bin/bash
# usage: try_mut.sh <ID> [check ids...]  — applies each /tmp/wt/<ID>/_mut/m*/patch.diff to /repo, runs the check(s), undoes it
ID=$1; shift; CHECKS=${@:-$ID}
cd /verif
trap "git -C /repo checkout -- . 2>/dev/null" EXIT PIPE INT TERM
for d in /tmp/wt/$ID/_mut/m*; do
  m=$(basename $d)
  if git -C /repo apply $d/patch.diff 2>/dev/null; then
    for c in $CHECKS; do
      out=$(./check $c 2>&1)
      echo "== $ID $m [$c]: $(echo "$out" | grep -c '^VIOLATION') violation(s)"; echo "$out" | grep -E "^  R[0-9]+|ERROR" | head -4 | cut -c1-180
    done
    git -C /repo checkout -- .
  else echo "== $ID $m: patch does not apply"; fi
done
