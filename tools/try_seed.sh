#!/bin/bash
# usage: try_seed.sh <seed id> [checks...]
S=$1; shift; CHECKS=${@:-${S%%-*}}
cd /verif
trap "git -C /repo checkout -- . 2>/dev/null" EXIT PIPE INT TERM
git -C /repo apply /verif/seeded/$S/patch.diff || exit 1
for c in $CHECKS; do out=$(./check $c 2>&1); echo "== $S [$c]: $(echo "$out" | grep -c '^VIOLATION') violation(s)"; echo "$out" | grep -E "^  R[0-9]+|ERROR|Traceback" | head -5 | cut -c1-220; done
git -C /repo checkout -- .
