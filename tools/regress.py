#!/usr/bin/env python3
"""Regression sweep of the rule set against every kept patch — mutations (must be reported) and benign refactorings (must be silent).

  tools/regress.py [--muts] [--benign] [--only SUBSTR] [--props C03,C04] [-j N] [--show]

For each patch a scratch copy of /repo's current tree is made outside /repo and /verif, the patch applied, facts extracted once
with the driver and kept under .cache/regress/<key> (key = patch content + /repo tree hash + driver hash), and the scratch copy
removed at once.  Later sweeps reuse the facts, so iterating on rules costs seconds, not minutes.  Nothing here writes
evidence or decides a property: it is the developer loop behind DESIGN.md §9/§13.
"""
import glob
import hashlib
import json
import os
import shutil
import subprocess
import sys
import tempfile
from concurrent.futures import ThreadPoolExecutor

sys.path.insert(0, os.path.join(os.path.dirname(os.path.dirname(os.path.abspath(__file__))), "rules"))
import harness  # noqa: E402
import selftest  # noqa: E402

ROOT = os.path.join(harness.CACHE, "regress")
ALL = ["C%02d" % i for i in range(1, 21)]


def patches(want_muts, want_benign, only):
    out = []
    if want_muts:
        for d in sorted(glob.glob(os.path.join(harness.VERIF, "seeded", "*"))):
            sid = os.path.basename(d)
            if os.path.exists(os.path.join(d, "patch.diff")):
                out.append(("mut", sid, os.path.join(d, "patch.diff"), selftest.ALSO.get(sid, [sid.split("-")[0]])))
        for f in sorted(glob.glob(os.path.join(harness.VERIF, "selftest", "*.diff"))):
            sid = os.path.basename(f)[:-5]
            out.append(("mut", "own:" + sid, f, [sid.split("-")[0]]))
    if want_benign:
        for d in sorted(glob.glob(os.path.join(harness.VERIF, "benign", "*"))):
            if os.path.exists(os.path.join(d, "patch.diff")):
                out.append(("benign", os.path.basename(d), os.path.join(d, "patch.diff"), ALL))
    if "--staging" in sys.argv:
        for d in sorted(glob.glob(os.path.join(harness.VERIF, "staging", "*"))):
            sid = os.path.basename(d)
            if os.path.exists(os.path.join(d, "patch.diff")):
                out.append(("mut", sid, os.path.join(d, "patch.diff"), selftest.ALSO.get(sid, [sid.split("-")[0]])))
    if "--holdout" in sys.argv:
        for d in sorted(glob.glob(os.path.join(harness.VERIF, "holdout", "*"))):
            if os.path.exists(os.path.join(d, "patch.diff")):
                out.append(("benign", os.path.basename(d), os.path.join(d, "patch.diff"), ALL))
    if only:
        out = [p for p in out if any(o in p[1] for o in only)]
    return out


def facts_for(item, base_key):
    kind, sid, patch, props = item
    d, err = selftest.facts_for(patch, base_key)
    return sid, d, err


def evaluate(item, d, props_filter):
    kind, sid, patch, props = item
    props = [p for p in props if not props_filter or p in props_filter]
    if not props:
        return sid, kind, None
    return sid, kind, selftest.evaluate(props, d)


def main(argv):
    want_muts = "--muts" in argv or "--benign" not in argv
    want_benign = "--benign" in argv or "--muts" not in argv
    only = []
    props_filter = None
    j = 6
    i = 0
    while i < len(argv):
        if argv[i] == "--only":
            only.append(argv[i + 1]); i += 1
        elif argv[i] == "--props":
            props_filter = argv[i + 1].split(","); i += 1
        elif argv[i] == "-j":
            j = int(argv[i + 1]); i += 1
        i += 1
    os.makedirs(ROOT, exist_ok=True)
    if not os.path.exists(harness.DRIVER):
        harness.build_engines()
    base_key = harness.repo_hash(extra=harness._sha(harness.DRIVER))
    items = patches(want_muts, want_benign, only)
    print("[regress] %d patches; base %s" % (len(items), base_key))
    fdirs = {}
    with ThreadPoolExecutor(max_workers=min(j, 5)) as ex:
        for (sid, d, err), it in zip(ex.map(lambda it: facts_for(it, base_key), items), items):
            if err:
                print("REGRESS-ERROR %s: %s" % (sid, err))
            else:
                fdirs[sid] = d
    if "--where" in argv:
        for sid, d in sorted(fdirs.items()):
            print("%s %s" % (sid, d))
        return 0
    res = {}
    with ThreadPoolExecutor(max_workers=14) as ex:
        for sid, kind, r in ex.map(lambda it: evaluate(it, fdirs[it[1]], props_filter), [it for it in items if it[1] in fdirs]):
            if r is not None:
                res[sid] = (kind, r)
    missed, alarms, errors = [], [], []
    for sid, (kind, r) in sorted(res.items()):
        if r["errors"] or r["rc"] == 2:
            errors.append(sid)
            print("ERR    %-22s %s" % (sid, (r["errors"] or [r["out"][-200:]])[0][:160]))
        elif kind == "mut":
            if r["violations"]:
                if "--show" in argv:
                    print("caught %-22s %s" % (sid, ", ".join(r["violations"][:3])[:150]))
            else:
                missed.append(sid)
                print("MISSED %-22s undecided=%s" % (sid, r["undecided"][:4]))
        else:
            if r["violations"]:
                alarms.append(sid)
                print("ALARM  %-22s %s" % (sid, ", ".join(r["violations"])[:400]))
            elif "--show" in argv:
                print("silent %-22s undecided=%d" % (sid, len(r["undecided"])))
    nm = sum(1 for k, _ in res.values() if k == "mut")
    nb = sum(1 for k, _ in res.values() if k == "benign")
    print("[regress] mutations: %d/%d reported, missed: %s" % (nm - len(missed), nm, missed))
    print("[regress] benign: %d/%d silent, false alarms on: %s" % (nb - len(alarms), nb, alarms))
    if errors:
        print("[regress] errors: %s" % errors)
    os.makedirs(os.path.join(harness.VERIF, "out"), exist_ok=True)
    json.dump({sid: {"kind": k, "violations": r["violations"], "undecided": r["undecided"], "rc": r["rc"]} for sid, (k, r) in res.items()},
              open(os.path.join(harness.VERIF, "out", "regress%s.json" % ("-" + "-".join(props_filter) if props_filter else "")), "w"), indent=1)
    return 0


if __name__ == "__main__":
    sys.exit(main(sys.argv[1:]))
