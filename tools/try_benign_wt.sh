#!/bin/bash
# usage: try_benign_wt.sh <worktree> [out dir]  — for each <worktree>/_benign/b*/patch.diff: apply in the worktree (never /repo), run every
# check against it (VERIF_REPO, no evidence written), undo.  Any VIOLATION line is a false alarm of the machinery.
W=$1; OUT=${2:-/tmp/wt/results}; mkdir -p $OUT
cd /verif
for p in $W/_benign/b*/patch.diff; do
  b=$(basename $(dirname $p))
  git -C $W checkout -q -- . && git -C $W clean -fdq -e _benign -e _props.json -e target -e _mut
  if git -C $W apply $p 2>/dev/null; then
    VERIF_REPO=$W VERIF_SUBRUN=1 ./check --all > $OUT/$(basename $W)-$b.log 2>&1
    n=$(grep -c '^VIOLATION' $OUT/$(basename $W)-$b.log)
    echo "== $(basename $W)/$b: $n alarm(s) $(grep -c UNDECIDED $OUT/$(basename $W)-$b.log) undecided"
    grep -B2 '^VIOLATION' $OUT/$(basename $W)-$b.log | grep -E "^  R[0-9]+|^  C[0-9]|ERROR" | cut -c1-200
  else echo "== $p: does not apply"; fi
  git -C $W checkout -q -- . && git -C $W clean -fdq -e _benign -e _props.json -e target -e _mut
done
