//! Positive controls for the zero-expected rule classes: each pattern below MUST be reported by the corresponding
//! detector on every run (a detector that matches nothing here would pass vacuously on the real code base).
use std::collections::{HashMap, HashSet};

/// hash iteration whose order reaches an ordered sink (C17 R17-a must classify as sensitive)
pub fn hash_order_leaks(m: &HashMap<String, u32>) -> Vec<String> {
    let mut out = Vec::new();
    for (k, _) in m {
        out.push(k.clone());
    }
    out
}

/// hash iteration collected into an ordered container without sorting (sensitive)
pub fn hash_keys_unsorted(s: &HashSet<u32>) -> Vec<u32> {
    s.iter().copied().collect()
}

/// hash iteration into an unordered container (must be classified insensitive: negative control)
pub fn hash_to_set(m: &HashMap<String, u32>) -> HashSet<u32> {
    m.values().copied().collect()
}

/// time dependence (C17 R17-b)
pub fn now_secs() -> u64 {
    std::time::SystemTime::now().duration_since(std::time::UNIX_EPOCH).map(|d| d.as_secs()).unwrap_or(0)
}

/// stdout write (C18 R18-b)
pub fn prints() {
    println!("hello");
}

/// file-system write (C18 R18-c)
pub fn writes() {
    let _ = std::fs::write("/dev/null", "x");
}

/// user-written unsafe block with a raw-parts reconstruction (C19 R19-a)
pub fn rebuild(ptr: *mut u8, len: usize, cap: usize) -> String {
    unsafe { String::from_raw_parts(ptr, len, cap) }
}

/// panic sites (C08 inventory): unwrap, index, explicit panic
pub fn panics(v: &[u32], o: Option<u32>) -> u32 {
    if v.is_empty() {
        panic!("empty");
    }
    v[0] + o.unwrap()
}

/// memoised validation walk whose memo key omits an input of the skipped work (C03 R03-j must report `vars` uncovered)
pub fn memo_walk(seen: &std::cell::RefCell<HashSet<String>>, name: &str, vars: &[u32], out: &mut Vec<u32>) {
    if !seen.borrow_mut().insert(name.to_string()) {
        return;
    }
    out.extend(vars.iter().copied());
}

/// file opened for writing without truncation (C17 R17-d must report it): bytes beyond the new content survive
pub fn opens_without_truncate(p: &std::path::Path) -> std::io::Result<std::fs::File> {
    std::fs::File::options().write(true).create(true).open(p)
}

/// unkeyed memo whose value depends on a parameter (C14/C17 global-state rule must report `seed`)
pub fn memo_once(seed: u32) -> u32 {
    thread_local! {
        static ONCE: std::cell::OnceCell<u32> = const { std::cell::OnceCell::new() };
    }
    ONCE.with(|c| *c.get_or_init(|| seed * 2))
}

/// a slice from the result of one search to the result of another search of the same string (C08 R08-c str-range-ordered must report it)
pub fn range_two_searches(s: &str) -> &str {
    let (Some(a), Some(b)) = (s.find("${"), s.find('}')) else {
        return s;
    };
    &s[a + 2..b]
}

/// the same, with the second search started where the first ended (must hold)
pub fn range_chained_searches(s: &str) -> &str {
    let Some(a) = s.find("${") else { return s };
    let Some(b) = s[a..].find('}') else { return s };
    &s[a + 2..a + b]
}

/// a cut at an offset measured on another string (C08 R08-c str-offset-same-string must report it)
pub fn cut_at_foreign_offset(line: &str) -> &str {
    let folded = line.to_lowercase();
    let n = folded.len() - folded.trim_start().len();
    &line[n..]
}

/// one iterator searched again and again from a closure handed to `Iterator::all` (Rnn-s iter-resume must report `hay`)
pub fn iter_resumed_in_closure(hay: &[u32], needles: &[u32]) -> bool {
    let mut hay = hay.iter();
    needles.iter().all(|n| hay.any(|h| h == n))
}

/// the same inside a `for` loop (must report `it`)
pub fn iter_resumed_in_loop(hay: &[u32], needles: &[u32]) -> usize {
    let mut it = hay.iter();
    let mut found = 0;
    for n in needles {
        if it.any(|h| h == n) {
            found += 1;
        }
    }
    found
}

/// a fresh iterator per repetition (must stay silent)
pub fn iter_fresh_each_time(hay: &[u32], needles: &[u32]) -> bool {
    needles.iter().all(|n| {
        let mut it = hay.iter();
        it.any(|h| h == n)
    }) && needles.iter().all(|n| hay.iter().any(|h| h == n))
}
