use crate::hirdump::Cx;
use crate::json::J;
use rustc_hir::def::DefKind;
use rustc_hir::def_id::LocalDefId;
use rustc_middle::mir::{
    AggregateKind, Body, Operand, Place, ProjectionElem, Rvalue, StatementKind, TerminatorKind,
    UnwindAction,
};
use rustc_middle::ty::{self, TyCtxt};
use rustc_span::Span;

fn span(cx: &Cx<'_>, j: &mut J, sp: Span) {
    let (_, l, c, _, _) = cx.loc(sp);
    j.key("s");
    j.arr_open();
    j.num(l as i128);
    j.num(c as i128);
    j.arr_close();
    if let Some(x) = cx.expn(sp) {
        j.kstr("x", &x);
    }
}

fn place<'tcx>(cx: &Cx<'tcx>, body: &Body<'tcx>, j: &mut J, p: Place<'tcx>) {
    let tcx = cx.tcx;
    j.obj_open();
    j.knum("l", p.local.as_u32() as i128);
    if !p.projection.is_empty() {
        j.key("p");
        j.arr_open();
        for (base, elem) in p.iter_projections() {
            match elem {
                ProjectionElem::Deref => j.str("*"),
                ProjectionElem::Field(idx, _) => {
                    let bt = base.ty(&body.local_decls, tcx);
                    match bt.ty.kind() {
                        ty::Adt(def, _) => {
                            let v = match bt.variant_index {
                                Some(v) => def.variant(v),
                                None => def.non_enum_variant(),
                            };
                            j.obj_open();
                            j.kstr("f", v.fields[idx].name.as_str());
                            j.kstr("adt", &cx.path(def.did()));
                            if def.is_enum() {
                                j.kstr("v", v.name.as_str());
                            }
                            j.obj_close();
                        }
                        _ => {
                            j.obj_open();
                            j.knum("i", idx.as_u32() as i128);
                            j.obj_close();
                        }
                    }
                }
                ProjectionElem::Index(l) => {
                    j.obj_open();
                    j.knum("idx", l.as_u32() as i128);
                    j.obj_close();
                }
                ProjectionElem::ConstantIndex { offset, from_end, .. } => {
                    j.obj_open();
                    j.knum("cidx", offset as i128);
                    j.kbool("from_end", from_end);
                    j.obj_close();
                }
                ProjectionElem::Subslice { .. } => j.str("[..]"),
                ProjectionElem::Downcast(name, _) => {
                    j.obj_open();
                    j.kstr("as", name.map(|n| n.to_string()).unwrap_or_default().as_str());
                    j.obj_close();
                }
                _ => j.str("?"),
            }
        }
        j.arr_close();
    }
    j.obj_close();
}

fn fn_operand<'tcx>(cx: &Cx<'tcx>, owner: LocalDefId, j: &mut J, t: ty::Ty<'tcx>) -> bool {
    let tcx = cx.tcx;
    if let ty::FnDef(did, args) = *t.kind() {
        j.kstr("fn", &cx.path(did));
        if tcx.trait_of_assoc(did).is_some() {
            if let Some(self_ty) = args.types().next() {
                j.kstr("self_ty", &cx.ty(self_ty));
                if let Some(a) = cx.adt_of(self_ty) {
                    j.kstr("self_adt", &a);
                }
            }
            let env = ty::TypingEnv::post_analysis(tcx, owner.to_def_id());
            if let Ok(args) =
                tcx.try_normalize_erasing_regions(env, ty::Unnormalized::new_wip(args))
            {
                if let Ok(Some(inst)) = ty::Instance::try_resolve(tcx, env, did, args) {
                    if inst.def_id() != did {
                        j.kstr("rd", &cx.path(inst.def_id()));
                    }
                }
            }
        }
        true
    } else if let ty::Closure(did, _) = *t.kind() {
        j.kstr("closure", &cx.path(did));
        true
    } else {
        false
    }
}

fn operand<'tcx>(cx: &Cx<'tcx>, owner: LocalDefId, body: &Body<'tcx>, j: &mut J, o: &Operand<'tcx>) {
    match o {
        Operand::Copy(p) => place(cx, body, j, *p),
        Operand::Move(p) => place(cx, body, j, *p),
        Operand::Constant(c) => {
            j.obj_open();
            let t = c.const_.ty();
            if !fn_operand(cx, owner, j, t) {
                let s = rustc_middle::ty::print::with_no_visible_paths!(rustc_middle::ty::print::with_no_trimmed_paths!(format!("{}", c.const_)));
                j.kstr("c", &s);
                j.kstr("ty", &cx.ty(t));
            }
            j.obj_close();
        }
        _ => {
            j.obj_open();
            j.kstr("c", "<runtime-checks>");
            j.obj_close();
        }
    }
}

fn rvalue<'tcx>(cx: &Cx<'tcx>, owner: LocalDefId, body: &Body<'tcx>, j: &mut J, rv: &Rvalue<'tcx>) {
    let tcx = cx.tcx;
    j.obj_open();
    match rv {
        Rvalue::Use(o, ..) => {
            j.kstr("k", "use");
            j.key("o");
            operand(cx, owner, body, j, o);
        }
        Rvalue::CopyForDeref(p) => {
            j.kstr("k", "use");
            j.key("o");
            place(cx, body, j, *p);
        }
        Rvalue::Ref(_, bk, p) => {
            j.kstr("k", "ref");
            j.kbool("mut", matches!(bk, rustc_middle::mir::BorrowKind::Mut { .. }));
            j.key("o");
            place(cx, body, j, *p);
        }
        Rvalue::RawPtr(_, p) => {
            j.kstr("k", "rawptr");
            j.key("o");
            place(cx, body, j, *p);
        }
        Rvalue::Cast(ck, o, t) => {
            j.kstr("k", "cast");
            j.kstr("ck", &format!("{:?}", ck));
            j.kstr("ty", &cx.ty(*t));
            j.key("o");
            operand(cx, owner, body, j, o);
        }
        Rvalue::BinaryOp(op, ab) => {
            j.kstr("k", "bin");
            j.kstr("op", &format!("{:?}", op));
            j.key("a");
            operand(cx, owner, body, j, &ab.0);
            j.key("b");
            operand(cx, owner, body, j, &ab.1);
        }
        Rvalue::UnaryOp(op, o) => {
            j.kstr("k", "un");
            j.kstr("op", &format!("{:?}", op));
            j.key("o");
            operand(cx, owner, body, j, o);
        }
        Rvalue::Discriminant(p) => {
            j.kstr("k", "discr");
            j.key("o");
            place(cx, body, j, *p);
            let pt = p.ty(&body.local_decls, tcx).ty;
            if let Some(a) = cx.adt_of(pt) {
                j.kstr("adt", &a);
            }
        }
        Rvalue::Aggregate(kind, ops) => {
            j.kstr("k", "agg");
            match &**kind {
                AggregateKind::Adt(did, vidx, _, _, _) => {
                    let def = tcx.adt_def(*did);
                    let v = def.variant(*vidx);
                    j.kstr("ak", "adt");
                    j.kstr("adt", &cx.path(*did));
                    j.kstr("variant", v.name.as_str());
                    j.key("fields");
                    j.arr_open();
                    for f in v.fields.iter() {
                        j.str(f.name.as_str());
                    }
                    j.arr_close();
                }
                AggregateKind::Tuple => j.kstr("ak", "tuple"),
                AggregateKind::Array(_) => j.kstr("ak", "array"),
                AggregateKind::Closure(did, _) => {
                    j.kstr("ak", "closure");
                    j.kstr("closure", &cx.path(*did));
                }
                _ => j.kstr("ak", "other"),
            }
            j.key("ops");
            j.arr_open();
            for o in ops.iter() {
                operand(cx, owner, body, j, o);
            }
            j.arr_close();
        }
        Rvalue::Repeat(o, _) => {
            j.kstr("k", "repeat");
            j.key("o");
            operand(cx, owner, body, j, o);
        }
        Rvalue::ThreadLocalRef(did) => {
            j.kstr("k", "tls");
            j.kstr("def", &cx.path(*did));
        }
        _ => {
            j.kstr("k", "other");
        }
    }
    j.obj_close();
}

pub fn dump_mir<'tcx>(cx: &Cx<'tcx>, j: &mut J, owner: LocalDefId) {
    let tcx: TyCtxt<'tcx> = cx.tcx;
    let dk = tcx.def_kind(owner);
    if !matches!(dk, DefKind::Fn | DefKind::AssocFn | DefKind::Closure) {
        return;
    }
    if !tcx.is_mir_available(owner.to_def_id()) {
        return;
    }
    let body: &Body<'tcx> = tcx.optimized_mir(owner.to_def_id());
    j.obj_open();
    j.kstr("path", &cx.path(owner.to_def_id()));
    j.kstr("kind", &format!("{:?}", dk));
    if matches!(dk, DefKind::Closure) {
        j.kstr("parent", &cx.path(tcx.typeck_root_def_id(owner.to_def_id())));
    }
    j.knum("argc", body.arg_count as i128);
    j.key("locals");
    j.arr_open();
    for d in body.local_decls.iter() {
        j.obj_open();
        j.kstr("ty", &cx.ty(d.ty));
        if let Some(a) = cx.adt_of(d.ty) {
            j.kstr("adt", &a);
        }
        j.obj_close();
    }
    j.arr_close();
    j.key("names");
    j.arr_open();
    for v in &body.var_debug_info {
        if let rustc_middle::mir::VarDebugInfoContents::Place(p) = v.value {
            j.obj_open();
            j.kstr("n", v.name.as_str());
            j.key("p");
            place(cx, body, j, p);
            j.obj_close();
        }
    }
    j.arr_close();
    j.key("bbs");
    j.arr_open();
    for (_bb, data) in body.basic_blocks.iter_enumerated() {
        j.obj_open();
        if data.is_cleanup {
            j.kbool("cleanup", true);
        }
        j.key("st");
        j.arr_open();
        for st in &data.statements {
            match &st.kind {
                StatementKind::Assign(b) => {
                    j.obj_open();
                    span(cx, j, st.source_info.span);
                    j.key("lhs");
                    place(cx, body, j, b.0);
                    j.key("rv");
                    rvalue(cx, owner, body, j, &b.1);
                    j.obj_close();
                }
                StatementKind::SetDiscriminant { place: p, variant_index } => {
                    j.obj_open();
                    span(cx, j, st.source_info.span);
                    j.key("lhs");
                    place(cx, body, j, **p);
                    j.knum("setdiscr", variant_index.as_u32() as i128);
                    j.obj_close();
                }
                _ => {}
            }
        }
        j.arr_close();
        j.key("t");
        j.obj_open();
        let term = data.terminator();
        span(cx, j, term.source_info.span);
        let unwind = |j: &mut J, u: &UnwindAction| {
            if let UnwindAction::Cleanup(bb) = u {
                j.knum("unwind", bb.as_u32() as i128);
            }
        };
        match &term.kind {
            TerminatorKind::Goto { target } => {
                j.kstr("k", "goto");
                j.knum("target", target.as_u32() as i128);
            }
            TerminatorKind::SwitchInt { discr, targets } => {
                j.kstr("k", "switch");
                j.key("discr");
                operand(cx, owner, body, j, discr);
                j.key("targets");
                j.arr_open();
                for (v, bb) in targets.iter() {
                    j.arr_open();
                    j.num(v as i128);
                    j.num(bb.as_u32() as i128);
                    j.arr_close();
                }
                j.arr_close();
                j.knum("otherwise", targets.otherwise().as_u32() as i128);
            }
            TerminatorKind::Return => j.kstr("k", "return"),
            TerminatorKind::Unreachable => j.kstr("k", "unreachable"),
            TerminatorKind::UnwindResume => j.kstr("k", "resume"),
            TerminatorKind::UnwindTerminate(_) => j.kstr("k", "terminate"),
            TerminatorKind::Drop { place: p, target, unwind: u, .. } => {
                j.kstr("k", "drop");
                j.key("place");
                place(cx, body, j, *p);
                j.knum("target", target.as_u32() as i128);
                unwind(j, u);
            }
            TerminatorKind::Call { func, args, destination, target, unwind: u, fn_span, .. } => {
                j.kstr("k", "call");
                j.key("func");
                operand(cx, owner, body, j, func);
                j.key("args");
                j.arr_open();
                for a in args.iter() {
                    operand(cx, owner, body, j, &a.node);
                }
                j.arr_close();
                j.key("dest");
                place(cx, body, j, *destination);
                if let Some(t) = target {
                    j.knum("target", t.as_u32() as i128);
                }
                unwind(j, u);
                let (_, l, c, _, _) = cx.loc(*fn_span);
                j.key("fs");
                j.arr_open();
                j.num(l as i128);
                j.num(c as i128);
                j.arr_close();
            }
            TerminatorKind::TailCall { func, args, .. } => {
                j.kstr("k", "tailcall");
                j.key("func");
                operand(cx, owner, body, j, func);
                j.key("args");
                j.arr_open();
                for a in args.iter() {
                    operand(cx, owner, body, j, &a.node);
                }
                j.arr_close();
            }
            TerminatorKind::Assert { cond, expected, msg, target, unwind: u } => {
                j.kstr("k", "assert");
                j.key("cond");
                operand(cx, owner, body, j, cond);
                j.kbool("expected", *expected);
                let m = format!("{:?}", msg);
                let short = m.split(|c| c == '(' || c == '{' || c == ' ').next().unwrap_or("").to_string();
                j.kstr("msg", &short);
                j.knum("target", target.as_u32() as i128);
                unwind(j, u);
            }
            TerminatorKind::FalseEdge { real_target, .. } => {
                j.kstr("k", "goto");
                j.knum("target", real_target.as_u32() as i128);
            }
            TerminatorKind::FalseUnwind { real_target, .. } => {
                j.kstr("k", "goto");
                j.knum("target", real_target.as_u32() as i128);
            }
            _ => j.kstr("k", "other"),
        }
        j.obj_close();
        j.obj_close();
    }
    j.arr_close();
    j.obj_close();
}
