// factdrv: a rustc_private driver that dumps the type-checked program (typed HIR
// trees + MIR control-flow graphs + ADT definitions) of each workspace crate as
// JSON, one file per compilation unit. It decides nothing itself; the rules in
// /verif/rules read these facts.
//
// Used as RUSTC_WORKSPACE_WRAPPER: argv[1] is the real rustc path and is dropped.
#![feature(rustc_private)]
#![allow(clippy::all)]

extern crate rustc_abi;
extern crate rustc_ast;
extern crate rustc_data_structures;
extern crate rustc_driver;
extern crate rustc_hir;
extern crate rustc_interface;
extern crate rustc_middle;
extern crate rustc_session;
extern crate rustc_span;

mod hirdump;
mod json;
mod mirdump;

use rustc_driver::Compilation;
use rustc_interface::interface::Compiler;
use rustc_middle::ty::TyCtxt;

struct Cb;

impl rustc_driver::Callbacks for Cb {
    fn after_analysis<'tcx>(&mut self, _c: &Compiler, tcx: TyCtxt<'tcx>) -> Compilation {
        if let Ok(dir) = std::env::var("FACTDRV_OUT") {
            let out = hirdump::dump_crate(tcx);
            let name = tcx.crate_name(rustc_span::def_id::LOCAL_CRATE).to_string();
            let id = tcx.stable_crate_id(rustc_span::def_id::LOCAL_CRATE).as_u64();
            let path = format!("{}/{}-{:016x}.json", dir, name, id);
            // one write per process
            std::fs::write(&path, out).expect("factdrv: cannot write fact file");
        }
        Compilation::Continue
    }
}

fn main() {
    let mut args: Vec<String> = std::env::args().collect();
    if args.len() > 1 && (args[1].ends_with("rustc") || args[1].contains("/rustc")) {
        args.remove(1);
    }
    rustc_driver::run_compiler(&args, &mut Cb);
}
