use crate::json::J;
use rustc_hir as hir;
use rustc_hir::def::{CtorOf, DefKind, Res};
use rustc_hir::def_id::{DefId, LocalDefId};
use rustc_middle::ty::print::{with_crate_prefix, with_no_trimmed_paths, with_no_visible_paths};
use rustc_middle::ty::{self, Ty, TyCtxt, TypeckResults};
use rustc_span::{ExpnKind, Span};

pub fn fix_crate(s: String, krate: &str) -> String {
    // `with_crate_prefix` prints local paths as `crate::a::b`; substitute the crate name.
    if !s.contains("crate::") {
        return s;
    }
    let mut out = String::with_capacity(s.len() + 16);
    let b = s.as_bytes();
    let mut i = 0;
    while i < b.len() {
        if s[i..].starts_with("crate::")
            && (i == 0 || !(b[i - 1].is_ascii_alphanumeric() || b[i - 1] == b'_'))
        {
            out.push_str(krate);
            out.push_str("::");
            i += 7;
        } else {
            let ch = s[i..].chars().next().unwrap();
            out.push(ch);
            i += ch.len_utf8();
        }
    }
    out
}

pub struct Cx<'tcx> {
    pub tcx: TyCtxt<'tcx>,
    pub krate: String,
}

impl<'tcx> Cx<'tcx> {
    fn raw_path(&self, did: DefId) -> String {
        let s = with_no_visible_paths!(with_crate_prefix!(with_no_trimmed_paths!(self.tcx.def_path_str(did))));
        let s = fix_crate(s, &self.krate);
        if s.contains("::_::") || s.ends_with("::_") {
            // items inside anonymous consts (`const _: () = { .. }`, e.g. serde derives) collide when printed; keep
            // the disambiguators of the def path
            let dp = self.tcx.def_path(did);
            let mut out = self.tcx.crate_name(did.krate).to_string();
            for d in dp.data.iter() {
                out.push_str("::");
                out.push_str(d.as_sym(true).as_str());
            }
            return out;
        }
        s
    }
    /// Canonical, crate-independent path of a definition. Associated items of impls are
    /// printed as `<Self as Trait>::name` / `AdtPath::name`; items nested in bodies (closures,
    /// inner fns) as `<path of the enclosing fn>::<name>`.
    pub fn path(&self, did: DefId) -> String {
        let tcx = self.tcx;
        let dk = tcx.def_kind(did);
        if dk.is_assoc() {
            if let Some(impl_did) = tcx.impl_of_assoc(did) {
                let self_ty = tcx.type_of(impl_did).instantiate_identity().skip_norm_wip();
                let name = tcx.item_name(did);
                if let Some(tr) = tcx.impl_opt_trait_ref(impl_did) {
                    let tr = tr.instantiate_identity().skip_norm_wip();
                    let mut st = self.ty(self_ty);
                    if st.contains("::_::") {
                        if let ty::Adt(def, _) = self_ty.kind() {
                            st = self.raw_path(def.did());
                        }
                    }
                    return format!("<{} as {}>::{}", st, self.raw_path(tr.def_id), name);
                }
                return match self_ty.kind() {
                    ty::Adt(def, _) => format!("{}::{}", self.raw_path(def.did()), name),
                    _ => format!("<{}>::{}", self.ty(self_ty), name),
                };
            }
            return self.raw_path(did);
        }
        if let Some(parent) = tcx.opt_parent(did) {
            let pk = tcx.def_kind(parent);
            if matches!(pk, DefKind::Fn | DefKind::AssocFn | DefKind::Closure) {
                let key = tcx.def_key(did);
                return format!("{}::{}", self.path(parent), key.disambiguated_data.as_sym(true));
            }
            if let DefKind::Ctor(..) = dk {
                return self.path(parent);
            }
            if matches!(dk, DefKind::Variant) {
                return format!("{}::{}", self.path(parent), tcx.item_name(did));
            }
        }
        self.raw_path(did)
    }
    pub fn ty(&self, t: Ty<'tcx>) -> String {
        let s = with_no_visible_paths!(with_crate_prefix!(with_no_trimmed_paths!(t.to_string())));
        fix_crate(s, &self.krate)
    }
    pub fn adt_of(&self, t: Ty<'tcx>) -> Option<String> {
        let mut t = t;
        loop {
            match t.kind() {
                ty::Ref(_, inner, _) => t = *inner,
                ty::RawPtr(inner, _) => t = *inner,
                _ => break,
            }
        }
        match t.kind() {
            ty::Adt(def, _) => Some(self.path(def.did())),
            _ => None,
        }
    }
    /// (file, line, col) of the root call-site of a span (so macro-expanded nodes point at
    /// the macro invocation in user code).
    pub fn loc(&self, sp: Span) -> (String, usize, usize, usize, usize) {
        let sp = sp.source_callsite();
        let sm = self.tcx.sess.source_map();
        let lo = sm.lookup_char_pos(sp.lo());
        let hi = sm.lookup_char_pos(sp.hi());
        let file = match &lo.file.name {
            rustc_span::FileName::Real(r) => match r.local_path() {
                Some(p) => p.to_string_lossy().to_string(),
                None => format!("{:?}", lo.file.name),
            },
            other => format!("{:?}", other),
        };
        (file, lo.line, lo.col.0 + 1, hi.line, hi.col.0 + 1)
    }
    pub fn expn(&self, sp: Span) -> Option<String> {
        if !sp.from_expansion() {
            return None;
        }
        let mut names: Vec<String> = Vec::new();
        let mut cur = sp;
        let mut guard = 0;
        while cur.from_expansion() && guard < 16 {
            let d = cur.ctxt().outer_expn_data();
            match d.kind {
                ExpnKind::Macro(_, name) => names.push(name.to_string()),
                ExpnKind::Desugaring(k) => names.push(format!("desugar:{:?}", k)),
                ExpnKind::AstPass(k) => names.push(format!("astpass:{:?}", k)),
                ExpnKind::Root => {}
            }
            cur = d.call_site;
            guard += 1;
        }
        Some(names.join("<"))
    }
}

pub fn dump_crate<'tcx>(tcx: TyCtxt<'tcx>) -> String {
    let krate = tcx.crate_name(rustc_span::def_id::LOCAL_CRATE).to_string();
    let cx = Cx { tcx, krate: krate.clone() };
    let mut j = J::new();
    j.obj_open();
    j.kstr("crate", &krate);
    let crate_types: Vec<String> =
        tcx.crate_types().iter().map(|t| format!("{:?}", t)).collect();
    j.kstr("crate_types", &crate_types.join(","));

    // ---- ADTs
    j.key("adts");
    j.arr_open();
    j.newline();
    for id in tcx.hir_crate_items(()).definitions() {
        let dk = tcx.def_kind(id);
        if !matches!(dk, DefKind::Struct | DefKind::Enum | DefKind::Union) {
            continue;
        }
        let adt = tcx.adt_def(id.to_def_id());
        j.obj_open();
        j.kstr("path", &cx.path(id.to_def_id()));
        j.kstr("kind", &format!("{:?}", dk));
        let (f, l, _, _, _) = cx.loc(tcx.def_span(id));
        j.kstr("file", &f);
        j.knum("line", l as i128);
        j.key("variants");
        j.arr_open();
        for v in adt.variants() {
            j.obj_open();
            j.kstr("name", v.name.as_str());
            j.kstr("path", &cx.path(v.def_id));
            j.kstr("ctor_kind", &format!("{:?}", v.ctor_kind()));
            j.key("fields");
            j.arr_open();
            for fd in v.fields.iter() {
                j.obj_open();
                j.kstr("name", fd.name.as_str());
                let fty = tcx.type_of(fd.did).instantiate_identity().skip_norm_wip();
                j.kstr("ty", &cx.ty(fty));
                j.kbool("pub", fd.vis.is_public());
                j.obj_close();
            }
            j.arr_close();
            j.obj_close();
        }
        j.arr_close();
        j.obj_close();
        j.newline();
    }
    j.arr_close();

    // ---- bodies
    j.key("fns");
    j.arr_open();
    j.newline();
    for owner in tcx.hir_body_owners() {
        let dk = tcx.def_kind(owner);
        match dk {
            DefKind::Fn | DefKind::AssocFn | DefKind::Const { .. } | DefKind::Static { .. }
            | DefKind::AssocConst { .. } => {}
            _ => continue, // closures are inlined in their parents; anon consts skipped
        }
        dump_owner(&cx, &mut j, owner, dk);
        j.newline();
    }
    j.arr_close();

    // ---- MIR
    j.key("mir");
    j.arr_open();
    j.newline();
    for owner in tcx.hir_body_owners() {
        let dk = tcx.def_kind(owner);
        if !matches!(dk, DefKind::Fn | DefKind::AssocFn | DefKind::Closure) {
            continue;
        }
        crate::mirdump::dump_mir(&cx, &mut j, owner);
        j.newline();
    }
    j.arr_close();

    j.obj_close();
    j.s
}

fn dump_owner<'tcx>(cx: &Cx<'tcx>, j: &mut J, owner: LocalDefId, dk: DefKind) {
    let tcx = cx.tcx;
    let Some(body) = tcx.hir_maybe_body_owned_by(owner) else { return };
    let typeck = tcx.typeck(owner);
    let did = owner.to_def_id();
    j.obj_open();
    j.kstr("path", &cx.path(did));
    j.kstr("name", tcx.item_name(did).as_str());
    j.kstr("kind", &format!("{:?}", dk));
    let (f, l, _, l2, _) = cx.loc(tcx.def_span(owner));
    j.kstr("file", &f);
    j.knum("line", l as i128);
    j.knum("line_end", l2 as i128);
    let full = cx.loc(tcx.hir_span_with_body(tcx.local_def_id_to_hir_id(owner)));
    j.knum("body_end", full.3 as i128);
    j.kbool("derived", tcx.is_automatically_derived(did));
    j.kbool("from_expansion", tcx.def_span(owner).from_expansion());
    j.kbool("pub", tcx.visibility(did).is_public());
    // impl info
    if let Some(impl_did) = tcx.impl_of_assoc(did) {
        j.kbool("impl_derived", tcx.is_automatically_derived(impl_did));
        let self_ty = tcx.type_of(impl_did).instantiate_identity().skip_norm_wip();
        j.kstr("self_ty", &cx.ty(self_ty));
        if let Some(a) = cx.adt_of(self_ty) {
            j.kstr("self_adt", &a);
        }
        if let Some(tr) = tcx.impl_opt_trait_ref(impl_did) {
            let tr = tr.instantiate_identity().skip_norm_wip();
            j.kstr("impl_trait", &cx.path(tr.def_id));
            j.kstr("impl_trait_ref", &fix_crate(
                with_no_visible_paths!(with_crate_prefix!(with_no_trimmed_paths!(tr.to_string()))),
                &cx.krate,
            ));
        }
    } else if let Some(tr) = tcx.trait_of_assoc(did) {
        j.kstr("trait_default_of", &cx.path(tr));
    }
    if matches!(dk, DefKind::Fn | DefKind::AssocFn) {
        let sig = tcx.fn_sig(did).instantiate_identity().skip_norm_wip().skip_binder();
        j.key("sig_inputs");
        j.arr_open();
        for t in sig.inputs() {
            j.str(&cx.ty(*t));
        }
        j.arr_close();
        j.kstr("sig_output", &cx.ty(sig.output()));
        j.kstr("abi", &format!("{:?}", sig.abi()));
        let attrs = tcx.codegen_fn_attrs(did);
        j.kbool("no_mangle", attrs.flags.contains(rustc_middle::middle::codegen_fn_attrs::CodegenFnAttrFlags::NO_MANGLE));
        let hsig = tcx.hir_fn_sig_by_hir_id(tcx.local_def_id_to_hir_id(owner));
        if let Some(hs) = hsig {
            j.kbool("unsafe_fn", hs.header.is_unsafe());
        }
    }
    let w = W { cx, typeck, owner };
    j.key("params");
    j.arr_open();
    for p in body.params {
        w.pat(j, p.pat);
    }
    j.arr_close();
    j.key("body");
    w.expr(j, body.value);
    j.obj_close();
}

struct W<'a, 'tcx> {
    cx: &'a Cx<'tcx>,
    typeck: &'tcx TypeckResults<'tcx>,
    owner: LocalDefId,
}

impl<'a, 'tcx> W<'a, 'tcx> {
    fn head(&self, j: &mut J, kind: &str, sp: Span) {
        j.obj_open();
        j.kstr("k", kind);
        let (_, l, c, l2, c2) = self.cx.loc(sp);
        j.key("s");
        j.arr_open();
        j.num(l as i128);
        j.num(c as i128);
        j.num(l2 as i128);
        j.num(c2 as i128);
        j.arr_close();
        if let Some(x) = self.cx.expn(sp) {
            j.kstr("x", &x);
        }
    }

    fn res(&self, j: &mut J, res: Res) {
        match res {
            Res::Local(id) => {
                j.knum("local", id.local_id.as_u32() as i128 + ((id.owner.def_id.local_def_index.as_u32() as i128) << 32));
                j.kstr("name", self.cx.tcx.hir_name(id).as_str());
            }
            Res::Def(dk, did) => {
                j.kstr("dk", &format!("{:?}", dk));
                j.kstr("def", &self.cx.path(did));
                if let DefKind::Ctor(of, _) = dk {
                    // parent of a ctor is the variant (or struct)
                    let parent = self.cx.tcx.parent(did);
                    j.kstr("ctor_of", &self.cx.path(parent));
                    if let CtorOf::Variant = of {
                        j.kstr("adt", &self.cx.path(self.cx.tcx.parent(parent)));
                    } else {
                        j.kstr("adt", &self.cx.path(parent));
                    }
                }
                if let DefKind::Variant = dk {
                    j.kstr("adt", &self.cx.path(self.cx.tcx.parent(did)));
                }
            }
            Res::SelfCtor(did) => {
                j.kstr("dk", "SelfCtor");
                j.kstr("def", &self.cx.path(did));
            }
            Res::SelfTyAlias { alias_to, .. } => {
                j.kstr("dk", "SelfTyAlias");
                j.kstr("def", &self.cx.path(alias_to));
            }
            other => {
                j.kstr("dk", &format!("{:?}", other));
            }
        }
    }

    fn try_resolve(&self, j: &mut J, did: DefId, hir_id: hir::HirId) {
        let tcx = self.cx.tcx;
        if !matches!(tcx.def_kind(did), DefKind::Fn | DefKind::AssocFn) {
            return;
        }
        // only trait items need resolution
        if tcx.trait_of_assoc(did).is_none() {
            return;
        }
        let Some(args) = self.typeck.node_args_opt(hir_id) else { return };
        // receiver (Self) type as seen by the type checker
        if let Some(self_ty) = args.types().next() {
            j.kstr("self_ty", &self.cx.ty(self_ty));
            if let Some(a) = self.cx.adt_of(self_ty) {
                j.kstr("self_adt", &a);
            }
        }
        let env = ty::TypingEnv::post_analysis(tcx, self.owner.to_def_id());
        let Ok(args) = tcx.try_normalize_erasing_regions(env, ty::Unnormalized::new_wip(args)) else { return };
        if let Ok(Some(inst)) = ty::Instance::try_resolve(tcx, env, did, args) {
            let rd = inst.def_id();
            if rd != did {
                j.kstr("rd", &self.cx.path(rd));
            }
        }
    }

    fn qpath_res(&self, j: &mut J, qp: &hir::QPath<'_>, id: hir::HirId) {
        let res = self.typeck.qpath_res(qp, id);
        self.res(j, res);
        if let Res::Def(_, did) = res {
            self.try_resolve(j, did, id);
        }
    }

    fn block(&self, j: &mut J, b: &'tcx hir::Block<'tcx>) {
        self.head(j, "Block", b.span);
        if !matches!(b.rules, hir::BlockCheckMode::DefaultBlock) {
            j.kbool("unsafe", true);
        }
        j.key("stmts");
        j.arr_open();
        for st in b.stmts {
            match st.kind {
                hir::StmtKind::Let(l) => {
                    self.head(j, "Let", l.span);
                    j.kstr("src", &format!("{:?}", l.source));
                    j.key("pat");
                    self.pat(j, l.pat);
                    if let Some(init) = l.init {
                        j.key("init");
                        self.expr(j, init);
                    }
                    if let Some(els) = l.els {
                        j.key("els");
                        self.block(j, els);
                    }
                    j.obj_close();
                }
                hir::StmtKind::Item(_) => {}
                hir::StmtKind::Expr(e) | hir::StmtKind::Semi(e) => {
                    self.head(j, "Stmt", st.span);
                    j.kbool("semi", matches!(st.kind, hir::StmtKind::Semi(_)));
                    j.key("e");
                    self.expr(j, e);
                    j.obj_close();
                }
            }
        }
        j.arr_close();
        if let Some(e) = b.expr {
            j.key("tail");
            self.expr(j, e);
        }
        j.obj_close();
    }

    fn lit(&self, j: &mut J, lit: &hir::Lit) {
        use rustc_ast::LitKind;
        match &lit.node {
            LitKind::Str(s, _) => {
                j.kstr("lk", "str");
                j.kstr("v", s.as_str());
            }
            LitKind::Char(c) => {
                j.kstr("lk", "char");
                j.kstr("v", &c.to_string());
            }
            LitKind::Byte(b) => {
                j.kstr("lk", "byte");
                j.knum("v", *b as i128);
            }
            LitKind::Int(n, _) => {
                j.kstr("lk", "int");
                j.kstr("v", &n.get().to_string());
            }
            LitKind::Bool(b) => {
                j.kstr("lk", "bool");
                j.kbool("v", *b);
            }
            LitKind::Float(s, _) => {
                j.kstr("lk", "float");
                j.kstr("v", s.as_str());
            }
            LitKind::ByteStr(bytes, _) => {
                j.kstr("lk", "bytes");
                j.key("v");
                j.arr_open();
                for b in bytes.as_byte_str().iter() {
                    j.num(*b as i128);
                }
                j.arr_close();
            }
            other => {
                j.kstr("lk", "other");
                j.kstr("v", &format!("{:?}", other));
            }
        }
    }

    pub fn expr(&self, j: &mut J, e: &'tcx hir::Expr<'tcx>) {
        use hir::ExprKind as K;
        let kind = match e.kind {
            K::ConstBlock(..) => "ConstBlock",
            K::Array(..) => "Array",
            K::Call(..) => "Call",
            K::MethodCall(..) => "MethodCall",
            K::Use(..) => "Use",
            K::Tup(..) => "Tup",
            K::Binary(..) => "Binary",
            K::Unary(..) => "Unary",
            K::Lit(..) => "Lit",
            K::Cast(..) => "Cast",
            K::Type(..) => "Type",
            K::DropTemps(..) => "DropTemps",
            K::Let(..) => "LetExpr",
            K::If(..) => "If",
            K::Loop(..) => "Loop",
            K::Match(..) => "Match",
            K::Closure(..) => "Closure",
            K::Block(..) => "BlockExpr",
            K::Assign(..) => "Assign",
            K::AssignOp(..) => "AssignOp",
            K::Field(..) => "Field",
            K::Index(..) => "Index",
            K::Path(..) => "Path",
            K::AddrOf(..) => "AddrOf",
            K::Break(..) => "Break",
            K::Continue(..) => "Continue",
            K::Ret(..) => "Ret",
            K::Become(..) => "Become",
            K::InlineAsm(..) => "InlineAsm",
            K::OffsetOf(..) => "OffsetOf",
            K::Struct(..) => "Struct",
            K::Repeat(..) => "Repeat",
            K::Yield(..) => "Yield",
            K::UnsafeBinderCast(..) => "UnsafeBinderCast",
            K::Err(..) => "Err",
        };
        self.head(j, kind, e.span);
        let t = self.typeck.expr_ty(e);
        j.kstr("t", &self.cx.ty(t));
        let adjs = self.typeck.expr_adjustments(e);
        if !adjs.is_empty() {
            let ta = self.typeck.expr_ty_adjusted(e);
            j.kstr("ta", &self.cx.ty(ta));
            // overloaded deref adjustments are hidden calls
            let n_overloaded = adjs
                .iter()
                .filter(|a| matches!(a.kind, ty::adjustment::Adjust::Deref(ty::adjustment::DerefAdjustKind::Overloaded(_))))
                .count();
            if n_overloaded > 0 {
                j.knum("oderef", n_overloaded as i128);
            }
        }
        match e.kind {
            K::ConstBlock(_) => {}
            K::Array(es) | K::Tup(es) => {
                j.key("es");
                j.arr_open();
                for x in es {
                    self.expr(j, x);
                }
                j.arr_close();
            }
            K::Call(f, args) => {
                // resolved callee if the callee is a path
                if let K::Path(ref qp) = f.kind {
                    let res = self.typeck.qpath_res(qp, f.hir_id);
                    if let Res::Def(dk, did) = res {
                        j.kstr("callee", &self.cx.path(did));
                        j.kstr("callee_dk", &format!("{:?}", dk));
                    }
                }
                j.key("f");
                self.expr(j, f);
                j.key("args");
                j.arr_open();
                for a in args {
                    self.expr(j, a);
                }
                j.arr_close();
            }
            K::MethodCall(seg, recv, args, _) => {
                j.kstr("method", seg.ident.as_str());
                if let Some(did) = self.typeck.type_dependent_def_id(e.hir_id) {
                    j.kstr("callee", &self.cx.path(did));
                    self.try_resolve(j, did, e.hir_id);
                }
                let rt = self.typeck.expr_ty_adjusted(recv);
                j.kstr("recv_ty", &self.cx.ty(rt));
                if let Some(a) = self.cx.adt_of(rt) {
                    j.kstr("recv_adt", &a);
                }
                j.key("recv");
                self.expr(j, recv);
                j.key("args");
                j.arr_open();
                for a in args {
                    self.expr(j, a);
                }
                j.arr_close();
            }
            K::Use(x, _) | K::DropTemps(x) | K::Become(x) | K::Yield(x, _) => {
                j.key("e");
                self.expr(j, x);
            }
            K::Binary(op, a, b) => {
                j.kstr("op", op.node.as_str());
                if let Some(did) = self.typeck.type_dependent_def_id(e.hir_id) {
                    j.kstr("callee", &self.cx.path(did));
                }
                j.key("l");
                self.expr(j, a);
                j.key("r");
                self.expr(j, b);
            }
            K::Unary(op, a) => {
                j.kstr("op", &format!("{:?}", op));
                if let Some(did) = self.typeck.type_dependent_def_id(e.hir_id) {
                    j.kstr("callee", &self.cx.path(did));
                }
                j.key("e");
                self.expr(j, a);
            }
            K::Lit(l) => self.lit(j, &l),
            K::Cast(x, _) | K::Type(x, _) => {
                j.key("e");
                self.expr(j, x);
            }
            K::Let(l) => {
                j.key("pat");
                self.pat(j, l.pat);
                j.key("init");
                self.expr(j, l.init);
            }
            K::If(c, t, el) => {
                j.key("cond");
                self.expr(j, c);
                j.key("then");
                self.expr(j, t);
                if let Some(el) = el {
                    j.key("else");
                    self.expr(j, el);
                }
            }
            K::Loop(b, label, src, _) => {
                j.kstr("src", &format!("{:?}", src));
                if let Some(l) = label {
                    j.kstr("label", l.ident.as_str());
                }
                j.key("body");
                self.block(j, b);
            }
            K::Match(scrut, arms, src) => {
                j.kstr("src", &format!("{:?}", src));
                j.key("scrut");
                self.expr(j, scrut);
                j.key("arms");
                j.arr_open();
                for a in arms {
                    self.head(j, "Arm", a.span);
                    j.key("pat");
                    self.pat(j, a.pat);
                    if let Some(g) = a.guard {
                        j.key("guard");
                        self.expr(j, g);
                    }
                    j.key("body");
                    self.expr(j, a.body);
                    j.obj_close();
                }
                j.arr_close();
            }
            K::Closure(c) => {
                j.kstr("def", &self.cx.path(c.def_id.to_def_id()));
                j.kstr("ckind", &format!("{:?}", c.kind));
                let body = self.cx.tcx.hir_body(c.body);
                j.key("params");
                j.arr_open();
                for p in body.params {
                    self.pat(j, p.pat);
                }
                j.arr_close();
                j.key("body");
                self.expr(j, body.value);
            }
            K::Block(b, label) => {
                if let Some(l) = label {
                    j.kstr("label", l.ident.as_str());
                }
                j.key("b");
                self.block(j, b);
            }
            K::Assign(l, r, _) => {
                j.key("l");
                self.expr(j, l);
                j.key("r");
                self.expr(j, r);
            }
            K::AssignOp(op, l, r) => {
                j.kstr("op", op.node.as_str());
                if let Some(did) = self.typeck.type_dependent_def_id(e.hir_id) {
                    j.kstr("callee", &self.cx.path(did));
                }
                j.key("l");
                self.expr(j, l);
                j.key("r");
                self.expr(j, r);
            }
            K::Field(base, ident) => {
                j.kstr("field", ident.as_str());
                let bt = self.typeck.expr_ty_adjusted(base);
                j.kstr("base_ty", &self.cx.ty(bt));
                if let Some(a) = self.cx.adt_of(bt) {
                    j.kstr("adt", &a);
                }
                j.key("e");
                self.expr(j, base);
            }
            K::Index(a, b, _) => {
                if let Some(did) = self.typeck.type_dependent_def_id(e.hir_id) {
                    j.kstr("callee", &self.cx.path(did));
                    self.try_resolve(j, did, e.hir_id);
                }
                let bt = self.typeck.expr_ty_adjusted(a);
                j.kstr("base_ty", &self.cx.ty(bt));
                j.key("e");
                self.expr(j, a);
                j.key("idx");
                self.expr(j, b);
            }
            K::Path(ref qp) => {
                self.qpath_res(j, qp, e.hir_id);
            }
            K::AddrOf(_, m, x) => {
                j.kbool("mut", m.is_mut());
                j.key("e");
                self.expr(j, x);
            }
            K::Break(dest, x) => {
                if let Some(l) = dest.label {
                    j.kstr("label", l.ident.as_str());
                }
                if let Some(x) = x {
                    j.key("e");
                    self.expr(j, x);
                }
            }
            K::Continue(dest) => {
                if let Some(l) = dest.label {
                    j.kstr("label", l.ident.as_str());
                }
            }
            K::Ret(x) => {
                if let Some(x) = x {
                    j.key("e");
                    self.expr(j, x);
                }
            }
            K::InlineAsm(_) | K::OffsetOf(..) | K::Err(_) => {}
            K::Struct(qp, fields, tail) => {
                let res = self.typeck.qpath_res(qp, e.hir_id);
                match res {
                    Res::Def(DefKind::Variant, did) => {
                        j.kstr("variant", &self.cx.path(did));
                        j.kstr("adt", &self.cx.path(self.cx.tcx.parent(did)));
                    }
                    _ => {
                        if let Some(a) = self.cx.adt_of(t) {
                            j.kstr("adt", &a);
                        }
                    }
                }
                j.key("fields");
                j.arr_open();
                for f in fields {
                    j.obj_open();
                    j.kstr("name", f.ident.as_str());
                    j.kbool("shorthand", f.is_shorthand);
                    j.key("e");
                    self.expr(j, f.expr);
                    j.obj_close();
                }
                j.arr_close();
                match tail {
                    hir::StructTailExpr::None => {}
                    hir::StructTailExpr::Base(b) => {
                        j.key("base");
                        self.expr(j, b);
                    }
                    _ => {
                        j.kbool("default_tail", true);
                    }
                }
            }
            K::Repeat(x, _) => {
                j.key("e");
                self.expr(j, x);
            }
            K::UnsafeBinderCast(_, x, _) => {
                j.key("e");
                self.expr(j, x);
            }
        }
        j.obj_close();
    }

    fn pat_expr(&self, j: &mut J, pe: &'tcx hir::PatExpr<'tcx>) {
        match &pe.kind {
            hir::PatExprKind::Lit { lit, negated } => {
                j.kbool("neg", *negated);
                self.lit(j, lit);
            }
            hir::PatExprKind::Path(qp) => {
                let res = self.typeck.qpath_res(qp, pe.hir_id);
                self.res(j, res);
            }
        }
    }

    pub fn pat(&self, j: &mut J, p: &'tcx hir::Pat<'tcx>) {
        use hir::PatKind as P;
        let kind = match p.kind {
            P::Missing => "Missing",
            P::Wild => "Wild",
            P::Binding(..) => "Binding",
            P::Struct(..) => "Struct",
            P::TupleStruct(..) => "TupleStruct",
            P::Or(..) => "Or",
            P::Never => "Never",
            P::Tuple(..) => "Tuple",
            P::Box(..) => "Box",
            P::Deref(..) => "Deref",
            P::Ref(..) => "Ref",
            P::Expr(..) => "PatExpr",
            P::Guard(..) => "Guard",
            P::Range(..) => "Range",
            P::Slice(..) => "Slice",
            P::Err(..) => "Err",
        };
        self.head(j, kind, p.span);
        let t = self.typeck.pat_ty(p);
        j.kstr("t", &self.cx.ty(t));
        match p.kind {
            P::Missing | P::Wild | P::Never | P::Err(_) => {}
            P::Binding(mode, id, ident, sub) => {
                j.knum("local", id.local_id.as_u32() as i128 + ((id.owner.def_id.local_def_index.as_u32() as i128) << 32));
                j.kstr("name", ident.as_str());
                j.kstr("mode", &format!("{:?}", mode));
                if let Some(s) = sub {
                    j.key("sub");
                    self.pat(j, s);
                }
            }
            P::Struct(ref qp, fields, rest) => {
                let res = self.typeck.qpath_res(qp, p.hir_id);
                self.res(j, res);
                if let Some(a) = self.cx.adt_of(t) {
                    j.kstr("pat_adt", &a);
                }
                j.kbool("rest", rest.is_some());
                j.key("fields");
                j.arr_open();
                for f in fields {
                    j.obj_open();
                    j.kstr("name", f.ident.as_str());
                    j.key("p");
                    self.pat(j, f.pat);
                    j.obj_close();
                }
                j.arr_close();
            }
            P::TupleStruct(ref qp, pats, ddpos) => {
                let res = self.typeck.qpath_res(qp, p.hir_id);
                self.res(j, res);
                if let Some(a) = self.cx.adt_of(t) {
                    j.kstr("pat_adt", &a);
                }
                if let Some(n) = ddpos.as_opt_usize() {
                    j.knum("ddpos", n as i128);
                }
                j.key("ps");
                j.arr_open();
                for x in pats {
                    self.pat(j, x);
                }
                j.arr_close();
            }
            P::Or(pats) => {
                j.key("ps");
                j.arr_open();
                for x in pats {
                    self.pat(j, x);
                }
                j.arr_close();
            }
            P::Tuple(pats, ddpos) => {
                if let Some(n) = ddpos.as_opt_usize() {
                    j.knum("ddpos", n as i128);
                }
                j.key("ps");
                j.arr_open();
                for x in pats {
                    self.pat(j, x);
                }
                j.arr_close();
            }
            P::Box(x) | P::Deref(x) | P::Ref(x, _, _) => {
                j.key("p");
                self.pat(j, x);
            }
            P::Expr(pe) => {
                self.pat_expr(j, pe);
                if let Some(a) = self.cx.adt_of(t) {
                    j.kstr("pat_adt", &a);
                }
            }
            P::Guard(x, g) => {
                j.key("p");
                self.pat(j, x);
                j.key("guard");
                self.expr(j, g);
            }
            P::Range(lo, hi, end) => {
                j.kstr("end", &format!("{:?}", end));
                if let Some(lo) = lo {
                    j.key("lo");
                    j.obj_open();
                    self.pat_expr(j, lo);
                    j.obj_close();
                }
                if let Some(hi) = hi {
                    j.key("hi");
                    j.obj_open();
                    self.pat_expr(j, hi);
                    j.obj_close();
                }
            }
            P::Slice(a, mid, b) => {
                j.key("ps");
                j.arr_open();
                for x in a {
                    self.pat(j, x);
                }
                j.arr_close();
                if let Some(m) = mid {
                    j.key("mid");
                    self.pat(j, m);
                }
                j.key("post");
                j.arr_open();
                for x in b {
                    self.pat(j, x);
                }
                j.arr_close();
            }
        }
        j.obj_close();
    }
}
