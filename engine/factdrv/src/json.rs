// Minimal JSON string builder (no external crates are available to a rustc_private driver
// without fighting the sysroot).
pub struct J {
    pub s: String,
    need_comma: Vec<bool>,
}

impl J {
    pub fn new() -> J {
        J { s: String::with_capacity(1 << 20), need_comma: vec![false] }
    }
    fn comma(&mut self) {
        if let Some(last) = self.need_comma.last_mut() {
            if *last {
                self.s.push(',');
            }
            *last = true;
        }
    }
    pub fn obj_open(&mut self) {
        self.comma();
        self.s.push('{');
        self.need_comma.push(false);
    }
    pub fn obj_close(&mut self) {
        self.s.push('}');
        self.need_comma.pop();
    }
    pub fn arr_open(&mut self) {
        self.comma();
        self.s.push('[');
        self.need_comma.push(false);
    }
    pub fn arr_close(&mut self) {
        self.s.push(']');
        self.need_comma.pop();
    }
    /// key inside an object; the next value call must not emit a comma
    pub fn key(&mut self, k: &str) {
        self.comma();
        self.s.push('"');
        self.s.push_str(k);
        self.s.push_str("\":");
        if let Some(last) = self.need_comma.last_mut() {
            *last = false;
        }
    }
    pub fn str(&mut self, v: &str) {
        self.comma();
        esc(&mut self.s, v);
    }
    pub fn num(&mut self, v: i128) {
        self.comma();
        self.s.push_str(&v.to_string());
    }
    pub fn boolean(&mut self, v: bool) {
        self.comma();
        self.s.push_str(if v { "true" } else { "false" });
    }
    pub fn null(&mut self) {
        self.comma();
        self.s.push_str("null");
    }
    pub fn kstr(&mut self, k: &str, v: &str) {
        self.key(k);
        self.str(v);
    }
    pub fn knum(&mut self, k: &str, v: i128) {
        self.key(k);
        self.num(v);
    }
    pub fn kbool(&mut self, k: &str, v: bool) {
        self.key(k);
        self.boolean(v);
    }
    pub fn newline(&mut self) {
        self.s.push('\n');
    }
}

pub fn esc(out: &mut String, v: &str) {
    out.push('"');
    for c in v.chars() {
        match c {
            '"' => out.push_str("\\\""),
            '\\' => out.push_str("\\\\"),
            '\n' => out.push_str("\\n"),
            '\r' => out.push_str("\\r"),
            '\t' => out.push_str("\\t"),
            c if (c as u32) < 0x20 => out.push_str(&format!("\\u{:04x}", c as u32)),
            c => out.push(c),
        }
    }
    out.push('"');
}
