"""C15 — Introspection-JSON and SDL descriptions of a schema give the same results (route symmetry only)."""
import harness
from facts import (norm, call_name, short, subnodes, lit_value, matches_on, arm_variants, field_reads, peel_ty, str_lits_in)
from prov import Prov, has_field, has_call
from templates import variant_table, enclosing_contexts, field_coverage, reads_in, LOSSY_OR_REORDERING

CLI = "nitrogql_cli::"
IN = "nitrogql_introspection::introspection::"
SEM = "nitrogql_semantics::"
TSD = "graphql_type_system::definitions::"
TS = "nitrogql_ast::type_system::"

KINDS = {"SCALAR": "Scalar", "OBJECT": "Object", "INTERFACE": "Interface", "UNION": "Union", "ENUM": "Enum", "INPUT_OBJECT": "InputObject"}
OPS = {"Query": "query_type", "Mutation": "mutation_type", "Subscription": "subscription_type"}


def r15a(P, R):
    """every match over LoadedSchema treats both routes alike, the introspection arm differing only by the conversion"""
    n = 0
    for f in P.fns.values():
        if not f.path.startswith(CLI) or "::tests" in f.path or f.derived:
            continue
        for m in matches_on(f, "LoadedSchema"):
            tab = variant_table(m)
            if set(tab) - {"_"} != {"GraphQL", "Introspection"}:
                R.violated("R15-a", "route:%s:%d" % (short(f.path), m["s"][0]), "%s matches LoadedSchema with arms %s" % (f.path, sorted(tab)), loc=f.loc())
                continue
            n += 1

            def callees(arm):
                out = set()
                for x in subnodes(arm["body"]):
                    c = call_name(x) if x.get("k") in ("Call", "MethodCall") else None
                    if c and (c.startswith(("nitrogql_printer::", "<nitrogql_", "nitrogql_checker::", "nitrogql_cli::builtins")) or "transform_document_for_runtime_server" in c):
                        out.add(short(c))
                return out
            g, i = callees(tab["GraphQL"]), callees(tab["Introspection"])
            conv_i = any((call_name(x) or "").endswith(("type_system_to_ast::type_system_to_ast", "ast_to_type_system::ast_to_type_system"))
                         for x in subnodes(tab["Introspection"]["body"]) if x.get("k") == "Call")
            key = "route:%s#%d" % (short(f.path), n)
            if f.name in ("run_generate",):
                R.check("R15-a", key, g == i and conv_i, "both routes reach %s; introspection converts first" % sorted(g),
                        "%s: the SDL arm reaches %s, the introspection arm %s (conversion present: %s): the two schema routes are processed differently"
                        % (f.path, sorted(g), sorted(i), conv_i), loc=f.loc())
            else:
                R.holds("R15-a", key, "routes: SDL %s / introspection %s" % (sorted(g), sorted(i)), loc=f.loc())
    R.floor("R15-a", "matches over LoadedSchema", n, 6)
    mi = P.fn(CLI + "schema_loader::LoadedSchema::map_into")
    for m in matches_on(mi, "LoadedSchema"):
        tab = variant_table(m)
        pv = Prov(mi)
        ok = ("param", "graphql") in pv.atoms(tab["GraphQL"]["body"]) and ("param", "introspection") in pv.atoms(tab["Introspection"]["body"]) \
            and ("param", "introspection") not in pv.atoms(tab["GraphQL"]["body"])
        R.check("R15-a", "map_into", ok, "map_into applies the matching function per route", "LoadedSchema::map_into applies the wrong function to a route", loc=mi.loc())
    # the checker/operation printer receive a Schema on both routes: SDL via ast_to_type_system
    for fn_ in (CLI + "check::check_impl", CLI + "generate::run_generate"):
        f = P.fn(fn_)
        ok = any((call_name(c) or "").endswith("ast_to_type_system::ast_to_type_system") for c in f.walk() if c.get("k") == "Call") and \
            any(c.get("k") == "MethodCall" and (call_name(c) or "").endswith("LoadedSchema::map_into") for c in f.walk())
        R.check("R15-a", "schema-for-operations:" + f.name, ok, "operations are checked/printed against ast_to_type_system(SDL) or the introspected Schema",
                "%s does not build the operation-side Schema through map_into(ast_to_type_system, borrowed)" % f.path, loc=f.loc())
    # route selection by extension
    k = P.fn(CLI + "schema_loader::schema_kind_by_path")
    lits = set(str_lits_in(k.body)) | {x.get("v") for x in k.walk() if x.get("k") == "PatExpr" and x.get("lk") == "str"}
    R.check("R15-a", "route-by-extension", {"graphql", "json"} <= lits, "`.graphql` -> SDL, `.json` -> introspection", "extension table is %s" % sorted(lits), loc=k.loc())


def r15b(P, R):
    at0 = P.fn(IN + "as_type")
    # the converter may delegate to helpers of its own module: analyse the function (reachable from as_type, in this module) that
    # actually tests the kind literals
    cands = [P.fns[p] for p in P.reachable([at0]) if p.startswith(IN) and not P.fns[p].derived]
    cands = [f for f in cands if "NON_NULL" in {x.get("v") for x in f.walk() if x.get("lk") == "str" and x.get("k") in ("Lit", "PatExpr")}]
    at = cands[0] if cands else at0
    rec_set = {f.path for f in cands} | {at0.path}
    lits = set(x.get("v") for x in at.walk() if x.get("lk") == "str" and x.get("k") in ("Lit", "PatExpr"))
    R.check("R15-b", "kinds:as_type", set(KINDS) | {"LIST", "NON_NULL"} <= lits, "all __TypeKind values handled",
            "as_type does not handle __TypeKind %s" % sorted((set(KINDS) | {"LIST", "NON_NULL"}) - lits), loc=at.loc())
    pv = Prov(at)
    for wrapper, ctor in (("LIST", "Type::List"), ("NON_NULL", "Type::NonNull")):
        ifs = [i for i in at.walk() if i.get("k") == "If" and i["cond"].get("k") == "Binary" and lit_value(i["cond"]["r"]) == wrapper]
        ok = False
        for i in ifs:
            made = [norm(x.get("def", "")) for x in subnodes(i["then"]) if x.get("k") == "Path" and x.get("dk", "").startswith("Ctor")]
            rec = any(call_name(x) in rec_set for x in subnodes(i["then"]) if x.get("k") == "Call")
            of = has_field(pv.atoms(i["then"]), IN + "IntrospectionType", "of_type")
            if any(m.endswith(ctor) for m in made) and rec and of:
                ok = True
        R.check("R15-b", "wrapper:" + wrapper, ok, "%s unwraps ofType into %s" % (wrapper, ctor), "as_type does not map %s to %s over ofType" % (wrapper, ctor), loc=at.loc())
    # type references nest arbitrarily deep (`[[[Float!]!]!]!`): no failure of the reference converter may depend on a counter
    for f in [P.fns[p] for p in sorted(rec_set)]:
        fpv = Prov(f)
        counters = {fpv.params.get(p.get("local")) for p, t in zip(f.params, f.sig_inputs) if p.get("k") == "Binding" and t in ("usize", "u8", "u16", "u32", "u64", "isize", "i32", "i64")}
        bad = []
        for i in f.walk():
            if i.get("k") == "If" and any(x.get("k") == "Ret" or (call_name(x) or "").endswith("Result::Err") for x in subnodes(i["then"])):
                if any(a[0] == "param" and a[1] in counters for a in fpv.atoms(i["cond"])):
                    bad.append(i["s"][0])
        R.check("R15-b", "no-depth-limit:" + f.name, not bad, "no failure depends on a nesting counter",
                "%s fails when a counter parameter (%s) crosses a bound (line %s): a type reference nested deeper than that is rejected on the "
                "JSON route (or its field's arguments are silently dropped) while the SDL route accepts it" % (f.path, sorted(counters), bad), loc=f.loc())
    ad = P.fn(IN + "as_type_definition")
    for kind, variant in sorted(KINDS.items()):
        ifs = [i for i in ad.walk() if i.get("k") == "If" and i["cond"].get("k") == "Binary" and lit_value(i["cond"]["r"]) == kind]
        ok = False
        for i in ifs:
            made = [norm(x.get("def", "")).split("::")[-1] for x in subnodes(i["then"]) if x.get("k") == "Path" and x.get("dk", "").startswith("Ctor") and "TypeDefinition::" in norm(x.get("def", ""))]
            if made == [variant]:
                ok = True
        R.check("R15-b", "definition-kind:" + kind, ok, "%s -> TypeDefinition::%s" % (kind, variant), "as_type_definition does not build TypeDefinition::%s for kind %s" % (variant, kind), loc=ad.loc())


def r15c(P, R):
    # introspection structs: every field is read by the converter
    scope = sorted(p for p in P.fns if p.startswith("nitrogql_introspection::") and not P.fns[p].derived)
    adts = [a for a in P.adts if a.startswith(IN + "Introspection") or a == IN + "NameObj"]
    n = 0
    reads = reads_in(P, scope)
    for ap in sorted(adts):
        adt = P.adt(ap)
        for fld in adt.fields():
            n += 1
            ok = (adt.path, fld) in reads
            R.check("R15-c", "json-field:%s.%s" % (ap.split("::")[-1], fld), ok, "read by the JSON->Schema converter",
                    "introspection field `%s.%s` is deserialised but never read: that part of the schema is lost on the JSON route" % (ap.split("::")[-1], fld))
    R.floor("R15-c", "introspection struct fields", n, 35)
    # Schema -> AST (printing) reads every component of the type-system structs, except the listed ones
    t2a = sorted(p for p in P.reachable([P.fn(SEM + "type_system_to_ast::type_system_to_ast")]) if p.startswith(SEM + "type_system_to_ast"))
    exempt = {
        ("Field", "deprecation"): "JSDoc only; printers read it from the Schema, not from the converted AST",
        ("InputValue", "deprecation"): "JSDoc only",
        ("EnumMember", "deprecation"): "JSDoc only",
    }
    reads = reads_in(P, t2a)
    m = 0
    for name in ("ScalarDefinition", "ObjectDefinition", "InterfaceDefinition", "UnionDefinition", "EnumDefinition", "EnumMember", "InputObjectDefinition", "Field", "InputValue"):
        adt = P.adt(TSD + name)
        for fld in adt.fields():
            if (name, fld) in exempt:
                continue
            m += 1
            R.check("R15-c", "schema-field:%s.%s" % (name, fld), (adt.path, fld) in reads, "carried into the AST used for printing",
                    "type_system_to_ast never reads `%s.%s`: declarations generated from an introspection schema miss it" % (name, fld))
    R.floor("R15-c", "type-system struct fields", m, 25)
    # AST -> Schema (checking) reads every content field of the type-system AST
    a2t = sorted(p for p in P.reachable([P.fn(SEM + "ast_to_type_system::ast_to_type_system")]) if not P.fns[p].derived)
    ex2 = {
        (TS + "SchemaDefinition", "directives"): "directive applications are validated on the AST (check_type_system_document), the Schema does not carry them",
        (TS + "ScalarTypeDefinition", "directives"): "same", (TS + "ObjectTypeDefinition", "directives"): "same",
        (TS + "InterfaceTypeDefinition", "directives"): "same", (TS + "UnionTypeDefinition", "directives"): "same",
        (TS + "EnumTypeDefinition", "directives"): "same", (TS + "InputObjectTypeDefinition", "directives"): "same",
    }
    k = field_coverage(P, R, "R15-c", a2t, [TS + t for t in ("SchemaDefinition", "ScalarTypeDefinition", "ObjectTypeDefinition", "FieldDefinition",
                                                               "InterfaceTypeDefinition", "UnionTypeDefinition", "DirectiveDefinition", "ArgumentsDefinition",
                                                               "InputValueDefinition", "EnumTypeDefinition", "EnumValueDefinition", "InputObjectTypeDefinition")],
                       ex2, "ast_to_type_system (SDL -> Schema)")
    R.floor("R15-c", "AST fields read by ast_to_type_system", k, 30)
    # kind-for-kind conversion in both directions
    for fn_, enum in ((SEM + "type_system_to_ast::convert_type_definition", "TypeDefinition"), (SEM + "ast_to_type_system::convert_type_definition", "TypeDefinition")):
        f = P.fn(fn_)
        for mm in f.walk():
            if mm.get("k") == "Match" and mm.get("src") == "Normal" and peel_ty(mm["scrut"].get("t", "")).split("<")[0].endswith("TypeDefinition"):
                tab = variant_table(mm)
                for v, arm in tab.items():
                    made = [norm(x.get("def", "")).split("::")[-1] for x in subnodes(arm["body"]) if x.get("k") == "Path" and x.get("dk", "").startswith("Ctor")
                            and "TypeDefinition::" in norm(x.get("def", ""))]
                    R.check("R15-c", "kind-preserved:%s:%s" % (short(f.path), v), made[:1] == [v], "%s stays %s" % (v, v),
                            "%s converts a %s definition into %s" % (f.path, v, made[:1]), loc=f.loc())
    # lossless element conversion
    for p in t2a + [q for q in a2t if q.startswith(SEM + "ast_to_type_system")]:
        f = P.fns[p]
        lossy = [c["method"] for c in f.walk() if c.get("k") == "MethodCall" and c["method"] in LOSSY_OR_REORDERING]
        if lossy:
            R.violated("R15-c", "lossy:" + short(f.path), "%s applies %s while converting: members are dropped on one route" % (f.path, lossy), loc=f.loc())
    R.holds("R15-c", "lossy:none", "converters apply no filtering/reordering adaptor")


def r15d(P, R):
    """root operation types are carried under their own operation on every route"""
    f = P.fn(SEM + "type_system_to_ast::type_system_to_ast")
    pv = Prov(f)
    pushes = [c for c in f.walk() if c.get("k") == "MethodCall" and c["method"] == "push" and c["args"] and c["args"][0].get("k") == "Tup"]
    R.floor("R15-d", "root type entries (Schema -> AST)", len(pushes), 3)
    seen = set()
    for c in pushes:
        tup = c["args"][0]
        op = [norm(x.get("def", "")).split("::")[-1] for x in subnodes(tup["es"][0]) if x.get("k") == "Path" and "OperationType::" in norm(x.get("def", ""))]
        flds = {x[2] for x in pv.atoms(tup["es"][1]) if x[0] == "field" and x[1].endswith("root_types::RootTypes")}
        if op:
            seen.add(op[0])
            R.check("R15-d", "root:to_ast:" + op[0], flds == {OPS[op[0]]}, "%s <- root_types.%s" % (op[0], OPS[op[0]]),
                    "type_system_to_ast records root_types.%s as the %s root type" % (sorted(flds), op[0]), loc=f.loc())
    R.check("R15-d", "root:to_ast:all", seen == set(OPS), "query, mutation and subscription roots are all carried", "root types carried: %s" % sorted(seen), loc=f.loc())
    g = P.fn(SEM + "ast_to_type_system::convert_schema_definition")
    for m in matches_on(g, "OperationType"):
        tab = variant_table(m)
        for op, fld in OPS.items():
            arm = tab.get(op)
            calls = [x["method"] for x in subnodes(arm["body"]) if x.get("k") == "MethodCall"] if arm else []
            R.check("R15-d", "root:from_ast:" + op, "set_" + fld in calls, "%s -> set_%s" % (op, fld), "%s root is stored through %s" % (op, calls), loc=g.loc())
    # roots accumulate: SchemaBuilder::set_root_types is get-or-create, or else it is called once per schema definition (not per root)
    sb = P.fn("graphql_type_system::builder::SchemaBuilder::set_root_types")
    writes = []
    for i, (x, _) in enumerate(sb.nodes()):
        w = None
        if x.get("k") == "Assign" and x["l"].get("k") == "Field" and x["l"]["field"] == "root_types":
            w = "assignment"
        elif x.get("k") == "MethodCall" and x["method"] in ("insert", "replace", "take") and any(y.get("k") == "Field" and y.get("field") == "root_types" for y in subnodes(x["recv"])):
            w = x["method"]
        if w:
            guarded = False
            for c in enclosing_contexts(sb, i):
                if c[0] == "arm" and c[1] is not None and "None" in arm_variants({"arms": [c[2]]})[0]:
                    guarded = True
                if c[0] in ("if-then", "if-else") and any(y.get("k") == "MethodCall" and y["method"] in ("is_none", "is_some") for y in subnodes(c[1]["cond"])):
                    guarded = True
            writes.append((w, guarded))
    replacing = [w for w, gd in writes if not gd]
    callers = []
    for f in P.fns.values():
        if f.derived or "::tests" in f.path:
            continue
        for i, (x, _) in enumerate(f.nodes()):
            if x.get("k") == "MethodCall" and (call_name(x) or "") == sb.path:
                callers.append((f, any(c[0] in ("loop", "closure") for c in enclosing_contexts(f, i))))
    R.floor("R15-d", "set_root_types call sites", len(callers), 2)
    in_loop = [short(f.path) for f, l in callers if l]
    R.check("R15-d", "roots-accumulate", not (replacing and in_loop), "root types set one by one end up in the same RootTypes node",
            "set_root_types replaces the RootTypes node on every call (%s) and %s calls it once per root inside a loop: of `schema { query: Q "
            "mutation: M }` only the last root survives on the SDL route" % (replacing, in_loop), loc=sb.loc())
    h = P.fn(IN + "introspection")
    pvh = Prov(h)
    for op, fld in OPS.items():
        calls = [c for c in h.walk() if c.get("k") == "MethodCall" and c["method"] == "set_" + fld]
        ok = len(calls) == 1 and has_field(pvh.atoms(calls[0]["args"][0]), IN + "IntrospectionSchema", fld)
        R.check("R15-d", "root:from_json:" + op, ok, "%s <- __schema.%s" % (fld, fld), "the JSON route sets %s from another key" % fld, loc=h.loc())


def r15e(P, R):
    """Option<bool> flags of the introspection result are consumed by their value, not by their presence"""
    flags = []
    for ap, adt in P.adts.items():
        if ap.startswith(IN) and adt.kind == "Struct":
            for fld, ty in adt.field_types().items():
                if ty == "core::option::Option<bool>":
                    flags.append((ap, fld))
    R.floor("R15-e", "Option<bool> flags", len(flags), 4)
    n = 0
    for f in P.fns.values():
        if not f.path.startswith("nitrogql_introspection::") or f.derived:
            continue
        acc = f.nodes()
        for i, (x, _) in enumerate(acc):
            if x.get("k") == "Field" and (norm(x.get("adt")), x["field"]) in flags:
                n += 1
                pi = acc[i][1]
                p = acc[pi][0] if pi >= 0 else {}
                verdict, why = None, ""
                if p.get("k") == "MethodCall" and p.get("recv") is x:
                    m = p["method"]
                    if m in ("unwrap_or", "unwrap_or_default", "unwrap_or_else"):
                        verdict, why = True, "value used through `%s`" % m
                    elif m in ("and_then", "filter", "is_some_and", "map_or", "map_or_else"):
                        uses_param = False
                        for c in p["args"]:
                            if c.get("k") == "Closure" and c["params"]:
                                pid = [b.get("local") for b in subnodes(c["params"][0]) if b.get("k") == "Binding"]
                                uses_param = any(y.get("k") == "Path" and y.get("local") in pid for y in subnodes(c["body"]))
                        verdict, why = uses_param, ("closure uses the boolean" if uses_param else "closure of `%s` ignores the boolean" % m)
                    elif m in ("map", "is_some", "is_none", "ok_or", "ok_or_else", "as_ref", "iter"):
                        uses_param = False
                        for c in p["args"]:
                            if c.get("k") == "Closure" and c["params"]:
                                pid = [b.get("local") for b in subnodes(c["params"][0]) if b.get("k") == "Binding"]
                                uses_param = any(y.get("k") == "Path" and y.get("local") in pid for y in subnodes(c["body"]))
                        verdict, why = uses_param, ("value used" if uses_param else "`.%s(..)` only tests presence" % m)
                elif p.get("k") in ("Binary",):
                    verdict, why = True, "compared"
                key = "flag:%s.%s@%s" % (norm(x["adt"]).split("::")[-1], x["field"], short(f.path))
                if verdict is None:
                    R.undecided("R15-e", key, "unrecognised use of the flag", loc=f.loc())
                else:
                    R.check("R15-e", key, verdict, why,
                            "%s turns the optional boolean `%s` into a fact by its mere presence (%s): `\"%s\": false` in the introspection JSON is "
                            "treated as true, so the JSON route disagrees with the SDL route" % (f.path, x["field"], why, x["field"]), loc=f.loc())
    R.floor("R15-e", "flag uses", n, 4)


RULES = [("R15-a", r15a), ("R15-b", r15b), ("R15-c", r15c), ("R15-d", r15d), ("R15-e", r15e)]
EXPLANATION = (
    "Route symmetry, the decidable part of C15: (R15-a) every match over LoadedSchema in generate reaches the same printers on both "
    "routes, the introspection arm differing only by type_system_to_ast, operations always get a Schema (ast_to_type_system for SDL); "
    "(R15-b) the __TypeKind tables of the JSON reader (six named kinds, LIST/NON_NULL over ofType, kind -> TypeDefinition variant); "
    "(R15-c) converter coverage by non-interference — every deserialised introspection field is read, type_system_to_ast reads every "
    "component of the Schema structs except deprecation (JSDoc only), ast_to_type_system reads every content field of the AST except "
    "directive applications, kinds are preserved and no converter filters members; (R15-d) query/mutation/subscription roots are "
    "carried under their own operation on all three conversions; (R15-e) optional boolean flags (isDeprecated, isRepeatable) are "
    "consumed by value. Not decided: equality of verdicts and emitted types across the two routes.")
ASSUMPTIONS = ["serde deserialisation of the introspection JSON (third-party)", "GraphQL introspection schema (__Type, __TypeKind) as of the October 2021 spec"]


def main(tier):
    return harness.run_property("C15", RULES, "other", EXPLANATION, ASSUMPTIONS, tier)
