"""C15 — Introspection-JSON and SDL descriptions of a schema give the same results (route symmetry only)."""
import harness
from facts import (norm, call_name, short, subnodes, lit_value, matches_on, arm_variants, field_reads, peel_ty, str_lits_in, pat_lits,
                   AnchorMissing)
from prov import Prov, has_field, has_call, canon_params
from templates import variant_table, enclosing_contexts, field_coverage, reads_in, inlined, LOSSY_OR_REORDERING

CLI = "nitrogql_cli::"
IN = "nitrogql_introspection::introspection::"
INC = "nitrogql_introspection::"
SEM = "nitrogql_semantics::"
TSD = "graphql_type_system::definitions::"
TS = "nitrogql_ast::type_system::"

KINDS = {"SCALAR": "Scalar", "OBJECT": "Object", "INTERFACE": "Interface", "UNION": "Union", "ENUM": "Enum", "INPUT_OBJECT": "InputObject"}
OPS = {"Query": "query_type", "Mutation": "mutation_type", "Subscription": "subscription_type"}


def anchor(P, name, role):
    """the function an anchor names; when it was renamed / turned into a method, the unique non-test function that plays the
    same role (signature types), else AnchorMissing (-> the rule is UNDECIDED)"""
    f = P.fn(name, required=False)
    if f is not None:
        return f
    cands = [g for g in P.fns.values() if not g.derived and "::tests" not in g.path and g.kind in ("Fn", "AssocFn") and role(g)]
    if len(cands) == 1:
        return cands[0]
    raise AnchorMissing("function `%s` not found, and %d functions play its role" % (name, len(cands)))


def _is_call_to(x, suffixes):
    return x.get("k") in ("Call", "MethodCall") and (call_name(x) or "").endswith(suffixes)


def r15a(P, R):
    """every match over LoadedSchema treats both routes alike, the introspection arm differing only by the conversion"""
    n = 0
    dispatchers = []
    for f0 in sorted(P.fns.values(), key=lambda g: g.path):
        if not f0.path.startswith(CLI) or "::tests" in f0.path or f0.derived:
            continue
        if not matches_on(f0, "LoadedSchema"):
            continue
        f = inlined(P, f0)
        k = 0
        for m in matches_on(f0, "LoadedSchema"):
            k += 1
            key = "route:%s#%d" % (short(f0.path), k)
            # the same match in the copy with helper bodies attached
            m = next((x for x in matches_on(f, "LoadedSchema") if x["s"] == m["s"]), m)
            tab = variant_table(m)
            if not {"GraphQL", "Introspection"} <= set(tab):
                R.undecided("R15-a", key, "%s inspects LoadedSchema with arms %s only; the treatment of the other route is not decided" % (f0.path, sorted(tab)), loc=f0.loc())
                continue
            n += 1

            def callees(arm):
                out = set()
                for x in subnodes(arm["body"]):
                    c = call_name(x) if x.get("k") in ("Call", "MethodCall") else None
                    if c and (c.startswith(("nitrogql_printer::", "<nitrogql_", "nitrogql_checker::", "nitrogql_cli::builtins")) or "transform_document_for_runtime_server" in c):
                        out.add(short(c))
                return out
            g, i = callees(tab["GraphQL"]), callees(tab["Introspection"])
            conv_i = any(_is_call_to(x, ("type_system_to_ast::type_system_to_ast", "ast_to_type_system::ast_to_type_system"))
                         for x in subnodes(tab["Introspection"]["body"]))
            prints = any(c.startswith(("nitrogql_printer::", "<nitrogql_printer::")) or "Printer::" in c for c in
                         (call_name(x) or "" for a in (tab["GraphQL"], tab["Introspection"]) for x in subnodes(a["body"]) if x.get("k") in ("Call", "MethodCall")))
            if prints:
                # a match that selects what is printed: both routes must reach the same printers
                if g == i and conv_i:
                    R.holds("R15-a", key, "both routes reach %s; introspection converts first" % sorted(g), loc=f0.loc())
                elif g != i:
                    R.violated("R15-a", key, "%s: the SDL arm reaches %s, the introspection arm %s (conversion present: %s): the two schema routes "
                               "are processed differently" % (f0.path, sorted(g), sorted(i), conv_i), loc=f0.loc())
                else:
                    R.undecided("R15-a", key, "%s: both arms reach %s but no Schema<->AST conversion is visible in the introspection arm" % (f0.path, sorted(g)), loc=f0.loc())
            else:
                R.holds("R15-a", key, "routes: SDL %s / introspection %s" % (sorted(g), sorted(i)), loc=f0.loc())
            # a dispatcher: a method of LoadedSchema that applies one function parameter per route
            if (f0.self_adt or "").endswith("LoadedSchema") or "LoadedSchema" in (f0.self_ty or ""):
                pv = Prov(f0)

                def applied(arm):
                    """parameters the arm *calls* (`graphql(gql)`, `f.call(..)`): the function parameters of a dispatcher.  A method
                    that merely uses a data parameter in both arms (merging a list of loaded schemas) is not one."""
                    out = set()
                    for y in subnodes(arm["body"]):
                        if y.get("k") == "Call" and y.get("f", {}).get("k") == "Path" and "local" in y["f"]:
                            out |= {a[1] for a in pv.atoms(y["f"]) if a[0] == "param"}
                    return out - {"self"}
                ga, ia = applied(tab["GraphQL"]), applied(tab["Introspection"])
                if ga or ia:
                    dispatchers.append(f0)
                    if ga and ia and not (ga & ia):
                        R.holds("R15-a", "dispatch:" + short(f0.path), "applies `%s` to the SDL route and `%s` to the introspection route" % (sorted(ga), sorted(ia)), loc=f0.loc())
                    elif ga and ga == ia and len(ga) == 1:
                        R.violated("R15-a", "dispatch:" + short(f0.path), "%s applies the same parameter %s to both routes: the other function is never used" % (f0.path, sorted(ga)), loc=f0.loc())
                    else:
                        R.undecided("R15-a", "dispatch:" + short(f0.path), "%s: SDL arm uses %s, introspection arm uses %s" % (f0.path, sorted(ga), sorted(ia)), loc=f0.loc())
    R.floor("R15-a", "matches over LoadedSchema", n, 4)
    R.floor("R15-a", "per-route dispatcher of LoadedSchema", len(dispatchers), 1)
    # the checker/operation printer receive a Schema on both routes: SDL via ast_to_type_system
    a2t = P.fn(SEM + "ast_to_type_system::ast_to_type_system")
    for fn_ in (CLI + "check::check_impl", CLI + "generate::run_generate"):
        f0 = P.fn(fn_)
        f = inlined(P, f0)
        conv = [c for c in f.walk() if c.get("k") == "Call" and call_name(c) == a2t.path] + \
               [c for c in f.walk() if c.get("k") == "Path" and norm(c.get("def", "")) == a2t.path and c.get("dk") in ("Fn", "AssocFn")]
        disp = [c for c in f.walk() if c.get("k") in ("MethodCall", "Call") and call_name(c) in {d.path for d in dispatchers}]
        own = [m for m in matches_on(f, "LoadedSchema") if "GraphQL" in variant_table(m)
               and any(call_name(x) == a2t.path for x in subnodes(variant_table(m)["GraphQL"]["body"]) if x.get("k") == "Call")]
        key = "schema-for-operations:" + f0.name
        if conv and (disp or own):
            R.holds("R15-a", key, "operations are checked/printed against ast_to_type_system(SDL) or the introspected Schema", loc=f0.loc())
        elif a2t.path not in P.reachable([f0]):
            R.violated("R15-a", key, "%s never reaches ast_to_type_system: on the SDL route no Schema is built for the operation side" % f0.path, loc=f0.loc())
        else:
            R.undecided("R15-a", key, "%s reaches ast_to_type_system but not through a per-route dispatch this rule recognises" % f0.path, loc=f0.loc())
    # route selection by extension
    k = anchor(P, CLI + "schema_loader::schema_kind_by_path",
               lambda g: g.path.startswith(CLI) and (g.sig_output or "").endswith("SchemaFileKind") and any("Path" in t for t in g.sig_inputs))
    lits = set(str_lits_in(k.body)) | {x.get("v") for x in k.walk() if x.get("k") == "PatExpr" and x.get("lk") == "str"}
    # the table itself: extension literal -> SchemaFileKind variant; an extension that is not listed takes the catch-all's variant
    table, default = {}, None
    for m in k.walk():
        if m.get("k") == "Match" and m.get("src") == "Normal":
            for arm in m["arms"]:
                made = {norm(x.get("def", "")).split("::")[-1] for x in subnodes(arm["body"]) if x.get("k") == "Path" and "SchemaFileKind::" in norm(x.get("def", "") or "")}
                if len(made) != 1 or "guard" in arm:
                    continue
                def plits(p_):
                    return {x.get("v") for x in subnodes(p_) if x.get("k") == "PatExpr" and x.get("lk") == "str"}
                ls = plits(arm["pat"])
                for v in ls:
                    table.setdefault(v, next(iter(made)))
                pats = [arm["pat"]] if arm["pat"].get("k") != "Or" else arm["pat"]["ps"]
                if any(not plits(p_) and "None" not in str(p_.get("def") or "") for p_ in pats):
                    default = default or next(iter(made))
    json_to = table.get("json")
    gql_to = table.get("graphql", default)
    # ... and what it is indexed by: the extension is what follows the LAST dot of the file name (`Path::extension`, `rsplit*`,
    # `ends_with`).  Cutting at the FIRST dot (`split_once`, `split`, `splitn`, `find`) makes `graphql.schema.json` an unknown extension.
    pvk = Prov(k)
    keyed = set()
    for m in k.walk():
        if m.get("k") == "Match" and m.get("src") == "Normal" and any(plits_(arm["pat"]) for arm in m["arms"]):
            keyed |= {x[1].split("::")[-1] for x in pvk.atoms(m["scrut"]) if x[0] == "call"}
    first_dot = sorted(keyed & {"split_once", "split", "splitn", "find", "split_terminator", "split_inclusive"})
    last_dot = keyed & {"extension", "rsplit_once", "rsplit", "rsplitn", "rfind", "ends_with"}
    if table and first_dot and not last_dot:
        R.violated("R15-a", "route-by-extension", "the extension table is indexed by what follows the FIRST dot of the file name (%s), not by the extension: a schema file "
                   "named like `graphql.schema.json` or `api.v2.json` is not recognised as introspection JSON and is parsed as SDL" % ", ".join(first_dot), loc=k.loc())
    elif json_to and "Introspection" in json_to and gql_to == "GraphQL":
        R.holds("R15-a", "route-by-extension", "`.json` -> introspection, `.graphql` -> SDL%s" % ("" if "graphql" in table else " (by the default arm)"), loc=k.loc())
    elif table and (json_to is None or "Introspection" not in json_to or (gql_to is not None and gql_to != "GraphQL")):
        R.violated("R15-a", "route-by-extension", "the extension table sends `.json` to %s and `.graphql` to %s: a schema given as introspection JSON / SDL is read by "
                   "the wrong front end" % (json_to or default or "nothing", gql_to or "nothing"), loc=k.loc())
    else:
        R.undecided("R15-a", "route-by-extension", "the route selection by extension is not a table this rule reads (literals %s)" % sorted(lits), loc=k.loc())


def _kind_expr(pv, e):
    return e is not None and has_field(pv.atoms(e), "IntrospectionType", "kind")


def cond_kinds(pv, cond):
    """the set of __TypeKind literals a condition accepts (`kind == "K"`, `"K" == kind`, `kind.eq("K")`, `matches!(kind, "A" | "B")`,
    `if let "K" = kind`, `a || b`); None when the condition is not such a test"""
    e = cond
    while e.get("k") in ("DropTemps", "Use", "Paren") and "e" in e:
        e = e["e"]
    k = e.get("k")
    if k == "Binary" and e.get("op") == "==":
        for a, b in ((e["l"], e["r"]), (e["r"], e["l"])):
            v = lit_value(b)
            if isinstance(v, str) and _kind_expr(pv, a):
                return {v}
        return None
    if k == "Binary" and e.get("op") == "||":
        l, r = cond_kinds(pv, e["l"]), cond_kinds(pv, e["r"])
        return (l | r) if l is not None and r is not None else None
    if k == "MethodCall" and e.get("method") == "eq" and len(e["args"]) == 1:
        for a, b in ((e["recv"], e["args"][0]), (e["args"][0], e["recv"])):
            v = lit_value(b)
            if isinstance(v, str) and _kind_expr(pv, a):
                return {v}
        return None
    if k == "Match" and _kind_expr(pv, e["scrut"]):  # matches!(..)
        out = set()
        for arm in e["arms"]:
            if lit_value(arm["body"]) is True and "guard" not in arm:
                out |= {v for v in pat_lits(arm["pat"]) if isinstance(v, str)}
            elif lit_value(arm["body"]) is not False:
                return None
        return out or None
    if k == "LetExpr" and _kind_expr(pv, e.get("init")):
        vs = {v for v in pat_lits(e["pat"]) if isinstance(v, str)}
        return vs or None
    return None


def kind_guard(f, pv, idx):
    """the __TypeKind literals under which nodes()[idx] of `f` may execute: the innermost enclosing positive test of the kind
    (then-branch of a kind comparison, arm of a `match` over the kind with literal patterns).  Else-branches and catch-all arms
    are skipped (the enclosing positive test, if any, still bounds the set).  -> (set, region node) | (None, None)"""
    for ctx in enclosing_contexts(f, idx):
        if ctx[0] == "if-then":
            ks = cond_kinds(pv, ctx[1]["cond"])
            if ks is not None:
                return ks, ctx[1]["then"]
        elif ctx[0] == "arm" and ctx[1] is not None and ctx[1].get("src") == "Normal" and "guard" not in ctx[2]:
            if _kind_expr(pv, ctx[1]["scrut"]):
                ks = {v for v in pat_lits(ctx[2]["pat"]) if isinstance(v, str)}
                if ks:
                    return ks, ctx[2]["body"]
            # the kind was parsed into an enum of the crate first: the arm's variants stand for the literals they are made from
            vs = _crate_variants(ctx[2]["pat"])
            if vs and all(v in _TAGS for v in vs):
                return set().union(*(_TAGS[v] for v in vs)), ctx[2]["body"]
    return None, None


_TAGS = {}


def _crate_variants(pat):
    return {norm(x.get("ctor_of") or x.get("def")) for x in subnodes(pat) if x.get("k") in ("Struct", "TupleStruct", "PatExpr", "Path")
            and (x.get("ctor_of") or x.get("def")) and norm(x.get("ctor_of") or x.get("def")).startswith(INC)}


def tag_tables(P):
    """{variant path of an enum of the introspection crate: the __TypeKind literals it stands for}, read from the `match`es that
    turn a kind string into an enum value (`"LIST" => TypeKind::List`) and one tag enum into another (`TypeKind::List => Wrapper::List`)"""
    tags = {}
    fns = [f for f in P.fns.values() if f.path.startswith(INC) and not f.derived and "::tests" not in f.path]
    for _ in range(3):
        for f in fns:
            for m in f.walk():
                if m.get("k") != "Match" or m.get("src") != "Normal":
                    continue
                for arm in m["arms"]:
                    if "guard" in arm:
                        continue
                    keys = {v for v in pat_lits(arm["pat"]) if isinstance(v, str)}
                    if not keys:
                        vs = _crate_variants(arm["pat"])
                        if vs and all(v in tags for v in vs):
                            keys = set().union(*(tags[v] for v in vs))
                    if not keys:
                        continue
                    e = arm["body"]
                    while e.get("k") in ("BlockExpr", "DropTemps", "Use") or (e.get("k") == "Call" and (call_name(e) or "").endswith(("Option::Some", "Result::Ok")) and e["args"]):
                        if e.get("k") == "BlockExpr":
                            if e["b"]["stmts"] or "tail" not in e["b"]:
                                break
                            e = e["b"]["tail"]
                        elif e.get("k") == "Call":
                            e = e["args"][0]
                        else:
                            e = e["e"]
                    if e.get("k") == "Path" and e.get("def") and norm(e["def"]).startswith(INC) and "Ctor" in (e.get("dk") or ""):
                        tags.setdefault(norm(e["def"]), set()).update(keys)
    return tags


def ctor_sites(f, suffix):
    """[(node index, variant name)] of constructions of enum variants `..::<suffix>::<Variant>` in f"""
    out = []
    for i, (x, _) in enumerate(f.nodes()):
        d = None
        if x.get("k") == "Path" and x.get("dk", "").startswith("Ctor"):
            d = norm(x.get("def", ""))
        elif x.get("k") == "Struct" and "rest" not in x and x.get("variant"):
            d = norm(x["variant"])
        if d and ("::" + suffix + "::") in ("::" + d):
            out.append((i, d.split("::")[-1]))
    return out


def plits_(p_):
    return {x.get("v") for x in subnodes(p_) if x.get("k") == "PatExpr" and x.get("lk") == "str"}


def r15b(P, R):
    def takes_type(g):
        return g.path.startswith(INC) and any(t.endswith("IntrospectionType") for t in g.sig_inputs)
    at0 = anchor(P, IN + "as_type", lambda g: takes_type(g) and "graphql_type_system::type::Type<" in (g.sig_output or ""))
    # the converter may delegate to helpers of its own module: analyse the function (reachable from as_type, in this module) that
    # actually tests the kind literals
    cands = [P.fns[p] for p in sorted(P.reachable([at0])) if p.startswith(INC) and not P.fns[p].derived]
    cands = [f for f in cands if "NON_NULL" in {x.get("v") for x in f.walk() if x.get("lk") == "str" and x.get("k") in ("Lit", "PatExpr")}]
    lit_fn = cands[0] if cands else at0
    # ... and the one that builds the wrappers (the same function unless the kind is first parsed into an enum of the crate)
    builders = [f for f in [at0] + [P.fns[p] for p in sorted(P.reachable([at0])) if p.startswith(INC) and not P.fns[p].derived and p != at0.path]
                if any(v == "List" for _, v in ctor_sites(f, "Type"))]
    at = lit_fn if (lit_fn in builders or not builders) else builders[0]
    rec_set = {f.path for f in cands} | {at0.path, at.path}
    lits = set(x.get("v") for x in lit_fn.walk() if x.get("lk") == "str" and x.get("k") in ("Lit", "PatExpr"))
    R.check("R15-b", "kinds:as_type", set(KINDS) | {"LIST", "NON_NULL"} <= lits, "all __TypeKind values handled",
            "as_type does not handle __TypeKind %s" % sorted((set(KINDS) | {"LIST", "NON_NULL"}) - lits), loc=lit_fn.loc())
    global _TAGS
    _TAGS = tag_tables(P)
    iterative = any(x.get("k") == "Loop" for x in at.walk()) and any(x.get("k") == "Field" and x.get("field") == "of_type" for x in at.walk())
    ati = inlined(P, at, pred=lambda g: g.path not in rec_set)
    pv = Prov(ati)
    sites = ctor_sites(ati, "Type")
    for wrapper, variant in (("LIST", "List"), ("NON_NULL", "NonNull")):
        key = "wrapper:" + wrapper
        mine = [i for i, v in sites if v == variant]
        if not mine:
            built = any(v == variant for g in P.fns.values() if g.path.startswith(INC) and not g.derived and "::tests" not in g.path for _, v in ctor_sites(g, "Type"))
            if built:
                R.undecided("R15-b", key, "Type::%s is not built in %s itself" % (variant, at.path), loc=at.loc())
            else:
                R.violated("R15-b", key, "no function of the introspection crate builds Type::%s: a %s type reference cannot be represented on the JSON route" % (variant, wrapper), loc=at.loc())
            continue
        verdicts = []
        for i in mine:
            ks, region = kind_guard(ati, pv, i)
            if ks is None:
                verdicts.append(("undecided", "Type::%s is built under a condition this rule does not read as a test of `kind`" % variant))
            elif wrapper not in ks:
                verdicts.append(("violated", "Type::%s is built for kind %s, not for %s" % (variant, sorted(ks), wrapper)))
            elif ks != {wrapper}:
                verdicts.append(("undecided", "Type::%s is built under kinds %s" % (variant, sorted(ks))))
            elif iterative:
                verdicts.append(("holds", ""))   # the ofType chain is peeled by a loop of this function (see level-marker for its flags)
            elif not has_field(pv.atoms(region), "IntrospectionType", "of_type"):
                if any(x.get("k") == "Field" and x.get("field") == "of_type" for g in rec_set for x in P.fns[g].walk()):
                    verdicts.append(("undecided", "the %s branch builds Type::%s; ofType is read elsewhere in the converter" % (wrapper, variant)))
                else:
                    verdicts.append(("violated", "the %s branch builds Type::%s without reading ofType" % (wrapper, variant)))
            elif not any(call_name(x) in rec_set for x in subnodes(region) if x.get("k") in ("Call", "MethodCall")):
                verdicts.append(("undecided", "the %s branch does not convert ofType by recursion" % wrapper))
            else:
                verdicts.append(("holds", ""))
        bad = [m for v, m in verdicts if v == "violated"]
        und = [m for v, m in verdicts if v == "undecided"]
        if bad:
            R.violated("R15-b", key, "as_type does not map %s to Type::%s over ofType: %s" % (wrapper, variant, "; ".join(bad)), loc=at.loc())
        elif und:
            R.undecided("R15-b", key, "; ".join(und), loc=at.loc())
        else:
            R.holds("R15-b", key, "%s unwraps ofType into Type::%s" % (wrapper, variant), loc=at.loc())
    # type references nest arbitrarily deep (`[[[Float!]!]!]!`): no failure of the reference converter may depend on a counter
    for f in [P.fns[p] for p in sorted(rec_set)]:
        fpv = Prov(f)
        counters = {fpv.params.get(p.get("local")) for p, t in zip(f.params, f.sig_inputs) if p.get("k") == "Binding" and t in ("usize", "u8", "u16", "u32", "u64", "isize", "i32", "i64")}
        bad = []
        for i in f.walk():
            if i.get("k") == "If" and any(x.get("k") == "Ret" or (call_name(x) or "").endswith("Result::Err") for x in subnodes(i["then"])):
                if any(a[0] == "param" and a[1] in counters for a in fpv.atoms(i["cond"])):
                    bad.append(i["s"][0])
        R.check("R15-b", "no-depth-limit:" + f.name, not bad, "no failure depends on a nesting counter",
                "%s fails when a counter parameter (%s) crosses a bound (line %s): a type reference nested deeper than that is rejected on the "
                "JSON route (or its field's arguments are silently dropped) while the SDL route accepts it" % (f.path, sorted(counters), bad), loc=f.loc())
    # the wrappers met along the ofType chain are a sequence, one entry per level: a list that the chain loop fills must reach the
    # reconstruction entry for entry (reversal and consumption are fine; de-duplication, sorting, truncation, filtering are not)
    seq_lossy = {"dedup", "dedup_by", "dedup_by_key", "sort", "sort_by", "sort_by_key", "sort_unstable", "sort_unstable_by", "sort_unstable_by_key", "retain", "retain_mut",
                 "truncate", "remove", "swap_remove", "drain", "clear", "split_off", "unique", "unique_by", "filter", "filter_map", "skip", "take", "step_by",
                 "skip_while", "take_while", "map_while"}
    for f in [P.fns[p] for p in sorted(rec_set)]:
        filled = {}
        for loop in [x for x in f.walk() if x.get("k") == "Loop"]:
            for y in subnodes(loop):
                if y.get("k") == "MethodCall" and y["method"] in ("push", "push_back", "push_front", "insert") and y["recv"].get("k") == "Path" and "local" in y["recv"]:
                    filled[y["recv"]["local"]] = y["recv"].get("name")
        for lid, nm in sorted(filled.items()):
            bad = []
            for y in f.walk():
                if y.get("k") == "MethodCall" and y["method"] in seq_lossy:
                    base = y["recv"]
                    while base.get("k") == "MethodCall" or (base.get("k") in ("AddrOf", "Unary") and "e" in base):
                        base = base["recv"] if base.get("k") == "MethodCall" else base["e"]
                    if base.get("k") == "Path" and base.get("local") == lid:
                        bad.append(y["method"])
            key = "level-sequence:%s:%s" % (f.name, nm)
            R.check("R15-b", key, not bad, "the per-level list `%s` reaches the reconstruction entry for entry" % nm,
                    "%s records one entry per level of the ofType chain in `%s` and then applies %s to it: levels are lost or reordered (e.g. `[[T]]` is read "
                    "as `[T]`), so the JSON route sees another type than the SDL route" % (f.path, nm, bad), loc=f.loc())
    # a wrapper marker describes ONE level of the ofType chain.  When the chain is walked by a loop, a boolean that is set on one
    # iteration and recorded per iteration (pushed / stored for the level at hand) must be cleared inside the loop; a marker that can
    # only ever go one way leaks from an outer wrapper (`[T]!`) to every level below it (`[T!]!`).
    for f in [P.fns[p] for p in sorted(rec_set)]:
        flags = {x["pat"]["local"]: x["pat"].get("name") for x in f.walk() if x.get("k") == "Let" and x["pat"].get("k") == "Binding" and x["pat"].get("t") == "bool"}
        for loop in [x for x in f.walk() if x.get("k") == "Loop"]:
            inner = subnodes(loop)
            declared_inside = {y["pat"]["local"] for y in inner if y.get("k") == "Let" and y["pat"].get("k") == "Binding" and "local" in y["pat"]}
            for lid, nm in sorted(flags.items()):
                if lid in declared_inside:
                    continue
                assigned = {lit_value(y["r"]) for y in inner if y.get("k") == "Assign" and y["l"].get("k") == "Path" and y["l"].get("local") == lid}
                taken = any(y.get("k") == "Call" and (call_name(y) or "").endswith(("mem::take", "mem::replace", "mem::swap"))
                            and any(z.get("k") == "Path" and z.get("local") == lid for z in subnodes(y)) for y in inner)
                recorded = [y for y in inner if (y.get("k") == "MethodCall" and y["method"] in ("push", "push_back", "insert", "push_front")
                                                 and any(z.get("k") == "Path" and z.get("local") == lid for a_ in y["args"] for z in subnodes(a_)))
                            or (y.get("k") in ("Tup", "Struct") and "rest" not in y and any(z.get("k") == "Path" and z.get("local") == lid for z in subnodes(y)))]
                if not recorded or not assigned - {None}:
                    continue
                key = "level-marker:%s:%s" % (f.name, nm)
                if taken or len(assigned - {None}) >= 2:
                    R.holds("R15-b", key, "the per-level marker `%s` is cleared when it is consumed" % nm, loc=f.loc())
                elif None in assigned:
                    R.undecided("R15-b", key, "the marker `%s` is recorded per level and assigned a computed value in the loop" % nm, loc=f.loc())
                else:
                    R.violated("R15-b", key, "%s walks the ofType chain in a loop, sets `%s` to %s for a wrapper and records it for each level, but never clears it "
                               "inside the loop: the marker of an outer wrapper leaks to every level below it (`[T]!` is read as `[T!]!`), so the JSON route "
                               "has stricter types than the SDL route" % (f.path, nm, sorted(assigned)), loc=f.loc())
    ad0 = anchor(P, IN + "as_type_definition", lambda g: takes_type(g) and "TypeDefinition<" in (g.sig_output or ""))
    ad = inlined(P, ad0, pred=lambda g: g.path not in rec_set)
    pvd = Prov(ad)
    guards = []   # (variant, kinds | None)
    for i, v in ctor_sites(ad, "TypeDefinition"):
        guards.append((v, kind_guard(ad, pvd, i)[0]))
    elsewhere = {v for g in P.fns.values() if g.path.startswith("nitrogql_introspection::") and not g.derived and "::tests" not in g.path
                 for _, v in ctor_sites(g, "TypeDefinition")}
    for kind, variant in sorted(KINDS.items()):
        key = "definition-kind:" + kind
        mine = [ks for v, ks in guards if v == variant]
        others = sorted(v for v, ks in guards if v != variant and ks == {kind})
        if others:
            R.violated("R15-b", key, "as_type_definition builds TypeDefinition::%s for kind %s (expected TypeDefinition::%s)" % ("/".join(others), kind, variant), loc=ad0.loc())
        elif any(ks == {kind} for ks in mine):
            R.holds("R15-b", key, "%s -> TypeDefinition::%s" % (kind, variant), loc=ad0.loc())
        elif not mine and variant not in elsewhere:
            R.violated("R15-b", key, "no function of the introspection crate builds TypeDefinition::%s: kind %s is lost on the JSON route" % (variant, kind), loc=ad0.loc())
        elif mine and all(ks is not None and kind not in ks for ks in mine):
            R.violated("R15-b", key, "as_type_definition does not build TypeDefinition::%s for kind %s: it is built only for kind literal(s) %s"
                       % (variant, kind, sorted(set().union(*mine))), loc=ad0.loc())
        else:
            R.undecided("R15-b", key, "TypeDefinition::%s is built under a condition this rule does not read as a test of `kind` == %s" % (variant, kind), loc=ad0.loc())


def _drops_only_absent(call):
    """`filter_map(|x| <optional part of x>.as_ref().map(..))`: the closure tests nothing, it only passes an Option on — exactly the
    elements whose optional part is absent are left out (the iterator spelling of `if let Some(..) = .. { push }`)"""
    if call.get("method") != "filter_map" or not call["args"] or call["args"][0].get("k") != "Closure":
        return False
    e = call["args"][0]["body"]
    while e.get("k") in ("BlockExpr", "DropTemps", "Use"):
        if e.get("k") == "BlockExpr":
            if e["b"]["stmts"] or "tail" not in e["b"]:
                return False
            e = e["b"]["tail"]
        else:
            e = e["e"]
    seen_map = False
    while e.get("k") == "MethodCall" and e["method"] in ("map", "as_ref", "as_deref", "cloned", "copied", "as_mut"):
        if e["method"] == "map":
            # the mapping closure converts, it must not decide: no Option-producing step inside
            if any(y.get("k") == "MethodCall" and y.get("method") in ("then", "then_some", "filter", "and_then", "ok") for a_ in e["args"] for y in subnodes(a_)):
                return False
            seen_map = True
        e = e["recv"]
    while e.get("k") in ("AddrOf", "Unary") and "e" in e:
        e = e["e"]
    return seen_map and e.get("k") in ("Path", "Field")


def r15c(P, R):
    # introspection structs: every field is read by the converter
    scope = sorted(p for p in P.fns if p.startswith("nitrogql_introspection::") and not P.fns[p].derived)
    adts = [a for a in P.adts if a.startswith(INC) and (a.split("::")[-1].startswith("Introspection") or a.split("::")[-1] == "NameObj")]
    n = 0
    reads = reads_in(P, scope)
    for ap in sorted(adts):
        adt = P.adt(ap)
        for fld in adt.fields():
            n += 1
            ok = (adt.path, fld) in reads
            R.check("R15-c", "json-field:%s.%s" % (ap.split("::")[-1], fld), ok, "read by the JSON->Schema converter",
                    "introspection field `%s.%s` is deserialised but never read: that part of the schema is lost on the JSON route" % (ap.split("::")[-1], fld))
    R.floor("R15-c", "introspection struct fields", n, 35)
    # the serde model of the JSON owns (or may own) its strings: serde_json can hand out a *borrowed* `&str` only for a JSON string
    # without any escape sequence, so a plain `&str` field makes every document that needs `\"`, `\n` or `\uXXXX` in that place
    # undeserialisable — the JSON route then rejects a schema the SDL route accepts.  `Cow<str>` / `String` are fine.
    for ap in sorted(adts):
        adt = P.adt(ap)
        if adt.kind != "Struct":
            continue
        for fld, ty in sorted(adt.field_types().items()):
            t = (ty or "").replace("&mut ", "&").replace("& ", "&")
            if "&str" in t or "&[u8]" in t:
                R.violated("R15-c", "json-model-owned:%s.%s" % (ap.split("::")[-1], fld), "`%s.%s` of the introspection JSON model is a borrowed `%s`: serde_json cannot "
                           "borrow a string that contains an escape sequence, so an introspection result with e.g. a quoted or multi-line text there fails to load "
                           "while the same schema as SDL is accepted" % (ap.split("::")[-1], fld, ty), loc="%s:%d" % (adt.file, adt.line))
    if not any(r["key"].startswith("R15-c:json-model-owned:") and r["status"] == "VIOLATED" for r in R.results):
        R.holds("R15-c", "json-model-owned:all", "string fields of the introspection JSON model are Cow/String (escaped JSON strings deserialise)")
    # Schema -> AST (printing) reads every component of the type-system structs, except the listed ones
    t2a = sorted(p for p in P.reachable([P.fn(SEM + "type_system_to_ast::type_system_to_ast")]) if p.startswith(SEM) and not P.fns[p].derived)
    exempt = {
        ("Field", "deprecation"): "JSDoc only; printers read it from the Schema, not from the converted AST",
        ("InputValue", "deprecation"): "JSDoc only",
        ("EnumMember", "deprecation"): "JSDoc only",
    }
    reads = reads_in(P, t2a)
    m = 0
    for name in ("ScalarDefinition", "ObjectDefinition", "InterfaceDefinition", "UnionDefinition", "EnumDefinition", "EnumMember", "InputObjectDefinition", "Field", "InputValue"):
        adt = P.adt(TSD + name)
        for fld in adt.fields():
            if (name, fld) in exempt:
                continue
            m += 1
            R.check("R15-c", "schema-field:%s.%s" % (name, fld), (adt.path, fld) in reads, "carried into the AST used for printing",
                    "type_system_to_ast never reads `%s.%s`: declarations generated from an introspection schema miss it" % (name, fld))
    R.floor("R15-c", "type-system struct fields", m, 25)
    # AST -> Schema (checking) reads every content field of the type-system AST
    a2t = sorted(p for p in P.reachable([P.fn(SEM + "ast_to_type_system::ast_to_type_system")]) if not P.fns[p].derived)
    ex2 = {
        (TS + "SchemaDefinition", "directives"): "directive applications are validated on the AST (check_type_system_document), the Schema does not carry them",
        (TS + "ScalarTypeDefinition", "directives"): "same", (TS + "ObjectTypeDefinition", "directives"): "same",
        (TS + "InterfaceTypeDefinition", "directives"): "same", (TS + "UnionTypeDefinition", "directives"): "same",
        (TS + "EnumTypeDefinition", "directives"): "same", (TS + "InputObjectTypeDefinition", "directives"): "same",
    }
    k = field_coverage(P, R, "R15-c", a2t, [TS + t for t in ("SchemaDefinition", "ScalarTypeDefinition", "ObjectTypeDefinition", "FieldDefinition",
                                                               "InterfaceTypeDefinition", "UnionTypeDefinition", "DirectiveDefinition", "ArgumentsDefinition",
                                                               "InputValueDefinition", "EnumTypeDefinition", "EnumValueDefinition", "InputObjectTypeDefinition")],
                       ex2, "ast_to_type_system (SDL -> Schema)")
    R.floor("R15-c", "AST fields read by ast_to_type_system", k, 30)
    # kind-for-kind conversion in both directions
    for fn_, enum in ((SEM + "type_system_to_ast::convert_type_definition", "TypeDefinition"), (SEM + "ast_to_type_system::convert_type_definition", "TypeDefinition")):
        f0 = P.fn(fn_)
        f = inlined(P, f0)
        for mm in f.walk():
            if mm.get("k") == "Match" and mm.get("src") == "Normal" and peel_ty(mm["scrut"].get("t", "")).split("<")[0].endswith("TypeDefinition"):
                tab = variant_table(mm)
                for v, arm in sorted(tab.items()):
                    made = {norm(x.get("def", "")).split("::")[-1] for x in subnodes(arm["body"]) if x.get("k") == "Path" and x.get("dk", "").startswith("Ctor")
                            and "TypeDefinition::" in norm(x.get("def", ""))}
                    key = "kind-preserved:%s:%s" % (short(f0.path), v)
                    if made == {v}:
                        R.holds("R15-c", key, "%s stays %s" % (v, v), loc=f0.loc())
                    elif made and v not in made and v != "_":
                        R.violated("R15-c", key, "%s converts a %s definition into %s" % (f0.path, v, sorted(made)), loc=f0.loc())
                    else:
                        R.undecided("R15-c", key, "the %s arm of %s builds %s; kind preservation not decided" % (v, f0.path, sorted(made) or "no TypeDefinition"), loc=f0.loc())
    # lossless element conversion: no adaptor that drops by position, stops early, reorders or de-duplicates.  `filter`/`filter_map`
    # are the iterator spelling of `if .. { push }` (which the converters use for optional parts): their predicate is not decided.
    conditional = {"filter", "filter_map"}
    for p in t2a + [q for q in a2t if q.startswith(SEM + "ast_to_type_system")]:
        f = P.fns[p]
        calls = [c for c in f.walk() if c.get("k") == "MethodCall" and c["method"] in LOSSY_OR_REORDERING
                 and not peel_ty(c.get("recv_ty", "")).startswith(("std::collections::hash::", "hashbrown::", "alloc::collections::btree::", "indexmap::"))]
        lossy = [c["method"] for c in calls if c["method"] not in conditional]
        cond = [c["method"] for c in calls if c["method"] in conditional and not _drops_only_absent(c)]
        if lossy:
            R.violated("R15-c", "lossy:" + short(f.path), "%s applies %s while converting: members are dropped on one route" % (f.path, lossy), loc=f.loc())
        elif cond:
            R.undecided("R15-c", "lossy:" + short(f.path), "%s selects members with %s while converting; whether a member of the schema can be dropped is not decided" % (f.path, cond), loc=f.loc())
    R.holds("R15-c", "lossy:none", "converters apply no filtering/reordering adaptor")
    # positional pairing: `a.zip(b)` pairs the i-th with the i-th; once an adaptor that can drop elements (flatten over Options,
    # filter, ..) sits on one side, the i-th survivor is paired with the i-th entry of the other table
    dropping = {"flatten", "filter", "filter_map", "flat_map", "skip_while", "take_while", "skip", "take", "step_by", "dedup", "map_while"}
    conv = [P.fns[p] for p in t2a + [q for q in a2t if q.startswith(SEM + "ast_to_type_system")]] + \
           [f for f in P.fns.values() if f.path.startswith(INC) and not f.derived and "::tests" not in f.path and not f.from_expansion]
    for f in conv:
        for z in f.walk():
            if z.get("k") == "MethodCall" and z["method"] in ("zip", "zip_eq") and z["args"]:
                sides = {"receiver": z["recv"], "argument": z["args"][0]}
                bad = {w: sorted({y["method"] for y in subnodes(e) if y.get("k") == "MethodCall" and y["method"] in dropping}) for w, e in sides.items()}
                bad = {w: v for w, v in bad.items() if v}
                if bad and bad.get("receiver") != bad.get("argument"):
                    R.violated("R15-c", "zip-after-drop:" + short(f.path), "%s pairs two sequences by position (`zip`) after %s: when an element is absent the later ones "
                               "shift and are paired with the wrong entry (e.g. the subscription root recorded as the mutation root)"
                               % (f.path, "; ".join("%s on the %s" % (v, w) for w, v in sorted(bad.items()))), loc=f.loc())
    # lists that a schema may simply not have (an object or interface without `implements`, a type whose fields the server did not
    # send) are optional in the JSON as they are in SDL: their absence (`null`, missing key) reads as the empty list, never as an error
    may_be_absent = {"interfaces", "fields"}
    for f in [g for g in conv if g.path.startswith(INC)]:
        pvf = None
        for z in f.walk():
            opt, fails = None, False
            if z.get("k") == "Let" and "els" in z and z.get("init") is not None:
                opt, fails = z["init"], any((call_name(y) or "").endswith("Result::Err") for y in subnodes(z["els"]) if y.get("k") == "Call")
            elif z.get("k") == "MethodCall" and z["method"] in ("ok_or", "ok_or_else", "expect", "unwrap"):
                opt, fails = z["recv"], True
            elif z.get("k") == "If" and z["cond"].get("k") == "LetExpr" and z.get("else") is not None:
                opt, fails = z["cond"].get("init"), any((call_name(y) or "").endswith("Result::Err") for y in subnodes(z["else"]) if y.get("k") == "Call")
            if opt is None or not fails:
                continue
            pvf = pvf or Prov(f)
            req = sorted({x[2] for x in pvf.atoms(opt) if x[0] == "field" and x[1].endswith("::IntrospectionType") and x[2] in may_be_absent})
            # only the Option itself, not something computed from the list's elements
            direct = [y for y in subnodes(opt) if y.get("k") == "Field" and y.get("field") in req and not any(
                w.get("k") == "MethodCall" and w["method"] in ("iter", "flatten", "map", "into_iter") for w in subnodes(opt))]
            for fld in sorted({y["field"] for y in direct}):
                k_ = "absent-list:%s:%s" % (short(f.path), fld)
                if any(r["key"] == "R15-c:" + k_ for r in R.results):
                    continue
                R.violated("R15-c", k_, "%s fails when `%s` of a __Type is null or missing: that list is optional (older servers send no `interfaces` for an "
                           "interface type; SDL lets a type have none), so a schema the SDL route accepts is rejected on the JSON route" % (f.path, fld), loc=f.loc())
    # a list of the introspection result is filtered by `kind` only in agreement with what the specification puts in that list
    spec_kinds = {"interfaces": {"INTERFACE"}, "possible_types": {"OBJECT"}}
    for f in [g for g in conv if g.path.startswith(INC)]:
        pvf = None
        for z in f.walk():
            if not (z.get("k") == "MethodCall" and z["method"] in ("filter", "skip_while", "take_while", "retain") and z["args"] and z["args"][0].get("k") == "Closure"):
                continue
            pvf = pvf or Prov(f)
            kept = None
            for y in subnodes(z["args"][0]["body"]):
                ks = cond_kinds(pvf, y) if y.get("k") in ("Binary", "MethodCall", "Match") else None
                if ks:
                    kept = (kept or set()) | ks
            if not kept:
                continue
            a = pvf.atoms(z["recv"])
            fields = {x[2] for x in a if x[0] == "field" and x[1].endswith("::IntrospectionType")}
            params = {x[1] for x in a if x[0] == "param"}
            if params:   # the list is a parameter of a shared helper: what the callers pass
                names = [pp.get("name") if pp.get("k") == "Binding" else None for pp in f.params]
                for cp in P.callers_of(f.path):
                    g = P.fns[cp]
                    if "::tests" in cp:
                        continue
                    gpv = Prov(g)
                    for c in g.walk():
                        if c.get("k") in ("Call", "MethodCall") and call_name(c) == f.path:
                            args = ([c["recv"]] if c.get("k") == "MethodCall" else []) + c["args"]
                            for nm_, a_ in zip(canon_params(f), args):
                                if nm_ in params:
                                    fields |= {x[2] for x in gpv.atoms(a_) if x[0] == "field" and x[1].endswith("::IntrospectionType")}
            for fld in sorted(fields & set(spec_kinds)):
                key = "kind-filter:%s:%s" % (short(f.path), fld)
                if spec_kinds[fld] <= kept:
                    R.holds("R15-c", key, "`%s` is filtered to kinds %s, which the specification puts there" % (fld, sorted(kept)), loc=f.loc())
                else:
                    R.violated("R15-c", key, "%s keeps only the elements of kind %s of a list that also receives `%s`, whose elements are of kind %s: every one "
                               "of them is dropped (e.g. a union ends up without members) on the JSON route" % (f.path, sorted(kept), fld, sorted(spec_kinds[fld])), loc=f.loc())
    # every element is converted: a loop of a converter may skip an element (`continue`/`break` under a condition, a `filter`
    # predicate) only by the one test the specification licenses — the reserved name prefix `__` of the introspection system.
    # Any other content-based skip drops user definitions on one route.
    for p in t2a + [q for q in a2t if q.startswith(SEM + "ast_to_type_system")]:
        f = P.fns[p]
        pv = None
        acc = f.nodes()
        for i, (x, _) in enumerate(acc):
            cond = None
            if x.get("k") == "If" and any(y.get("k") in ("Continue", "Break") and "desugar" not in (y.get("x") or "")
                                          for b in (x.get("then"), x.get("else")) if b is not None for y in subnodes(b)) \
                    and any(c[0] == "loop" for c in enclosing_contexts(f, i)):
                cond = x["cond"]
            elif x.get("k") == "MethodCall" and x["method"] in ("filter", "skip_while", "take_while") and x["args"] and x["args"][0].get("k") == "Closure":
                cond = x["args"][0]["body"]
            if cond is None:
                continue
            pv = pv or Prov(f)
            a = pv.deep_atoms(cond)
            lits = {v for v in (y[1] for y in a if y[0] == "lit") if isinstance(v, str)}
            # names listed as patterns in the helpers the condition calls (`matches!(name, "Int" | "Float" ..)`)
            for y in a:
                if y[0] == "call" and y[1] in P.fns and y[1].startswith(SEM):
                    lits |= {z.get("v") for z in P.fns[y[1]].walk() if z.get("k") == "PatExpr" and z.get("lk") == "str"}
            lits |= {z.get("v") for z in subnodes(cond) if z.get("k") == "PatExpr" and z.get("lk") == "str"}
            prefix_test = any(y[0] == "call" and y[1].split("::")[-1] in ("starts_with", "strip_prefix") for y in a)
            key = "skip:%s" % short(f.path)
            flags = [nm for pp, t, nm in zip(f.params, f.sig_inputs, canon_params(f)) if t == "bool" and ("param", nm) in pv.atoms(cond)]
            if flags and lits - {"__"}:
                # the skip is an option of the converter: judged where it is switched on.  Leaving out definitions on the JSON route is
                # sound only where the SDL route loses the same ones (the result goes through remove_builtins)
                pos = [nm for nm in canon_params(f)].index(flags[0])
                todo, seen_w, sites = [f.path], set(), []
                while todo:
                    tgt = todo.pop()
                    if tgt in seen_w:
                        continue
                    seen_w.add(tgt)
                    for cp in P.callers_of(tgt):
                        g = P.fns[cp]
                        if "::tests" in cp or g.derived:
                            continue
                        for c in g.walk():
                            if c.get("k") == "Call" and call_name(c) == tgt and pos < len(c["args"]):
                                sites.append((g, c, lit_value(c["args"][pos])))
                on = [(g, c) for g, c, v in sites if v is True]
                unknown = [(g, c) for g, c, v in sites if v not in (True, False)]
                bad = []
                for g, c in on:
                    gpv = Prov(g)
                    rb = [y for y in g.walk() if y.get("k") == "Call" and (call_name(y) or "").endswith("remove_builtins")]
                    if not any(("call", call_name(c)) in gpv.atoms(y) and _flows(gpv, c, y) for y in rb):
                        bad.append("%s (line %s)" % (short(g.path), c["s"][0] if isinstance(c.get("s"), list) else "?"))
                if bad:
                    R.violated("R15-c", key, "%s can leave out the definitions named %s, and %s switches that on for a result that does not go through remove_builtins: "
                               "on the JSON route those definitions (e.g. the built-in scalars) are missing from what is printed, while the SDL route has them"
                               % (f.path, sorted(lits - {"__"}), ", ".join(bad)), loc=f.loc())
                elif unknown:
                    R.undecided("R15-c", key, "%s leaves out definitions under a flag that some caller passes as a computed value" % f.path, loc=f.loc())
                else:
                    R.holds("R15-c", key, "the optional omission of %s is switched on only where the result also goes through remove_builtins" % sorted(lits - {"__"}), loc=f.loc())
            elif prefix_test and lits == {"__"}:
                R.holds("R15-c", key, "skips only names with the reserved prefix `__`", loc=f.loc())
            elif prefix_test and lits:
                R.violated("R15-c", key, "%s skips the elements whose name starts with %s while converting: only the prefix `__` is reserved for the "
                           "introspection system, so user definitions (e.g. `_Service`, `_Entity`) are dropped on this route" % (f.path, sorted(lits)), loc=f.loc())
            else:
                R.undecided("R15-c", key, "%s skips elements under a condition this rule does not read (literals %s)" % (f.path, sorted(lits)), loc=f.loc())


def _flows(pv, call, sink):
    """does the value of `call` reach an argument of `sink` (same function): the sink's arguments derive from a local bound to it"""
    for a_ in sink.get("args", []):
        if call is a_ or any(y is call for y in subnodes(a_)):
            return True
        for y in subnodes(a_):
            if y.get("k") == "Path" and "local" in y:
                for src, _ in pv.src.get(y["local"], []):
                    if isinstance(src, dict) and (src is call or any(z is call for z in subnodes(src))):
                        return True
    return False


def shadowed_fns(P, crate):
    """functions of `crate` that the fact loader dropped because another function has the same normalised path (two impls of one
    generic trait for one type, e.g. `Extend<(Str, TypeDefinition)>` and `Extend<(Str, DirectiveDefinition)>` for SchemaBuilder)"""
    import glob
    import json
    import os
    from facts import Fn
    out = []
    try:
        d, _ = harness.ensure_facts()
        for fp in sorted(glob.glob(os.path.join(d, "*.json"))):
            j = json.load(open(fp))
            if j.get("crate") != crate:
                continue
            seen = set()
            for raw in j["fns"]:
                g = Fn(raw, crate)
                if g.path in seen and not g.derived:
                    out.append(g)
                seen.add(g.path)
    except (OSError, ValueError, KeyError, SystemExit):
        pass
    return out


MEMBERSHIP = {"contains_key", "contains", "get", "get_mut", "entry", "get_key_value", "get_index_of", "get_full"}


def r15f(P, R):
    """the schema builder registers a definition of one namespace by looking at that namespace: the vacancy test that guards an
    insert into map M of the builder (an enclosing `if`, or an early `continue`/`return` before it) must consult M.  A test of a
    sibling map drops a directive named like a type (or a type named like a directive) — and the two routes register types and
    directives in different orders, so they disagree on which one survives."""
    fns = [f for f in P.fns.values() if f.path.startswith(("graphql_type_system::builder", "<graphql_type_system::builder")) and not f.derived and "::tests" not in f.path]
    fns += [f for f in shadowed_fns(P, "graphql_type_system") if "builder" in f.path]
    n = 0
    seen_keys = {}
    for f in sorted(fns, key=lambda g: (g.path, g.line)):
        acc = f.nodes()
        for i, (x, _) in enumerate(acc):
            if not (x.get("k") == "MethodCall" and x["method"] in ("insert", "or_insert", "or_insert_with") and x["args"]):
                continue
            recv = x["recv"]
            target = None
            for y in subnodes(recv):
                if y.get("k") == "Field" and y.get("adt") and any(w in norm(y.get("t") or x.get("recv_ty") or "") for w in ("HashMap", "IndexMap", "BTreeMap")):
                    target = (norm(y["adt"]), y["field"])
                    break
            if target is None or not any(w in norm(x.get("recv_ty") or "") for w in ("HashMap", "IndexMap", "BTreeMap", "Entry")):
                continue
            key_locals = {y.get("local") for y in subnodes(x["args"][0]) if y.get("k") == "Path" and "local" in y}
            if x["method"] != "insert":   # entry(key).or_insert(..): the key is the entry's
                key_locals = {y.get("local") for y in subnodes(recv) if y.get("k") == "Path" and "local" in y and y.get("name") != "self"}
            # guards: conditions of enclosing ifs, and of earlier ifs of the same function that leave (continue/return/break)
            conds = [c[1]["cond"] for c in enclosing_contexts(f, i) if c[0] in ("if-then", "if-else")]
            for j in range(i):
                y = acc[j][0]
                if y.get("k") == "If" and not any(z is x for z in subnodes(y)) and any(z.get("k") in ("Continue", "Ret", "Break") for z in subnodes(y["then"])):
                    conds.append(y["cond"])
            tested = set()
            for cnd in conds:
                for y in subnodes(cnd):
                    if y.get("k") == "MethodCall" and y["method"] in MEMBERSHIP and y["args"] and \
                            key_locals & {z.get("local") for a_ in y["args"] for z in subnodes(a_) if z.get("k") == "Path" and "local" in z}:
                        for z in subnodes(y["recv"]):
                            if z.get("k") == "Field" and z.get("adt") and norm(z["adt"]) == target[0]:
                                tested.add(z["field"])
            if not tested:
                continue
            n += 1
            key = "insert-guard:%s.%s" % (target[0].split("::")[-1], target[1])
            seen_keys[key] = seen_keys.get(key, 0) + 1
            if seen_keys[key] > 1:
                key += "#%d" % seen_keys[key]
            if target[1] in tested:
                R.holds("R15-f", key, "the insert into %s is guarded by a look-up in %s" % (target[1], target[1]), loc=f.loc())
            else:
                R.violated("R15-f", key, "%s (line %s) inserts into %s.%s, but the vacancy test that guards the insert looks the key up in %s: a definition is dropped "
                           "when its name is taken in the *other* namespace (e.g. a directive named like a type) - and the SDL and JSON routes register types and "
                           "directives in different orders" % (f.path, x["s"][0] if isinstance(x.get("s"), list) else "?", target[0].split("::")[-1], target[1], "/".join(sorted(tested))), loc=f.loc())
    if not n:
        R.holds("R15-f", "insert-guard:none", "no insert of the schema builder is guarded by a look-up in another map")


def r15d(P, R):
    """root operation types are carried under their own operation on every route"""
    f0 = P.fn(SEM + "type_system_to_ast::type_system_to_ast")

    def op_of(e):
        ops = [norm(x.get("def", "")).split("::")[-1] for x in subnodes(e) if x.get("k") == "Path" and "OperationType::" in norm(x.get("def", ""))]
        return ops[0] if len(ops) == 1 and ops[0] in OPS else None
    # (operation, root type) entries, whether pushed one by one or listed in an array/iterator chain; looked for in the function
    # itself first (exact provenance), then with helper bodies attached (call sites of one helper share its parameters there)
    for f in (f0, inlined(P, f0)):
        entries = [t for t in f.walk() if t.get("k") == "Tup" and len(t["es"]) == 2 and op_of(t["es"][0])]
        if entries:
            break
    pv = Prov(f)
    R.floor("R15-d", "root type entries (Schema -> AST)", len(entries), 3)
    seen = set()
    for tup in entries:
        op = op_of(tup["es"][0])
        flds = {x[2] for x in pv.atoms(tup["es"][1]) if x[0] == "field" and x[1].endswith("root_types::RootTypes")}
        seen.add(op)
        key = "root:to_ast:" + op
        if flds == {OPS[op]}:
            R.holds("R15-d", key, "%s <- root_types.%s" % (op, OPS[op]), loc=f0.loc())
        elif flds and OPS[op] not in flds:
            R.violated("R15-d", key, "type_system_to_ast records root_types.%s as the %s root type" % (sorted(flds), op), loc=f0.loc())
        else:
            R.undecided("R15-d", key, "the %s entry is computed from root_types.%s" % (op, sorted(flds) or "?"), loc=f0.loc())
    if entries:
        mentioned = {norm(x.get("def", "")).split("::")[-1] for x in f.walk() if x.get("k") in ("Path", "PatExpr", "TupleStruct") and "OperationType::" in norm(x.get("def", "") or "")}
        missing = set(OPS) - seen
        if not missing:
            R.holds("R15-d", "root:to_ast:all", "query, mutation and subscription roots are all carried", loc=f0.loc())
        elif missing - mentioned:
            R.violated("R15-d", "root:to_ast:all", "root types carried: %s; OperationType::%s is mentioned nowhere in type_system_to_ast, so that root is lost "
                       "when printing an introspection schema" % (sorted(seen), "/".join(sorted(missing - mentioned))), loc=f0.loc())
        else:
            R.undecided("R15-d", "root:to_ast:all", "root types carried as (operation, type) entries: %s; %s handled in a shape this rule does not read"
                        % (sorted(seen), sorted(missing)), loc=f0.loc())
    g0 = P.fn(SEM + "ast_to_type_system::convert_schema_definition")
    g = inlined(P, g0)
    for m in matches_on(g, "OperationType"):
        tab = variant_table(m)
        for op, fld in sorted(OPS.items()):
            arm = tab.get(op)
            calls = sorted({x["method"] for x in subnodes(arm["body"]) if x.get("k") == "MethodCall" and x["method"].startswith("set_") and x["method"].endswith("_type")}) if arm else []
            key = "root:from_ast:" + op
            if "set_" + fld in calls and len(calls) == 1:
                R.holds("R15-d", key, "%s -> set_%s" % (op, fld), loc=g0.loc())
            elif calls and "set_" + fld not in calls:
                R.violated("R15-d", key, "%s root is stored through %s" % (op, calls), loc=g0.loc())
            else:
                R.undecided("R15-d", key, "the %s arm stores the root through %s" % (op, calls or "no RootTypes setter this rule sees"), loc=g0.loc())
    # roots accumulate: SchemaBuilder::set_root_types is get-or-create, or else it is called once per schema definition (not per root)
    sb = P.fn("graphql_type_system::builder::SchemaBuilder::set_root_types")
    writes = []
    for i, (x, _) in enumerate(sb.nodes()):
        w = None
        if x.get("k") == "Assign" and x["l"].get("k") == "Field" and x["l"]["field"] == "root_types":
            w = "assignment"
        elif x.get("k") == "MethodCall" and x["method"] in ("insert", "replace", "take") and any(y.get("k") == "Field" and y.get("field") == "root_types" for y in subnodes(x["recv"])):
            w = x["method"]
        if w:
            guarded = False
            for c in enclosing_contexts(sb, i):
                if c[0] == "arm" and c[1] is not None and "None" in arm_variants({"arms": [c[2]]})[0]:
                    guarded = True
                if c[0] in ("if-then", "if-else") and any(y.get("k") == "MethodCall" and y["method"] in ("is_none", "is_some") for y in subnodes(c[1]["cond"])):
                    guarded = True
            writes.append((w, guarded))
    replacing = [w for w, gd in writes if not gd]
    callers = []
    for f in P.fns.values():
        if f.derived or "::tests" in f.path:
            continue
        for i, (x, _) in enumerate(f.nodes()):
            if x.get("k") == "MethodCall" and (call_name(x) or "") == sb.path:
                callers.append((f, any(c[0] in ("loop", "closure") for c in enclosing_contexts(f, i))))
    R.floor("R15-d", "set_root_types call sites", len(callers), 2)
    in_loop = [short(f.path) for f, l in callers if l]
    # ... or several times in one conversion (directly or through helpers): the later call must find what the earlier one stored
    repeated = []
    for f in sorted({f.path for f, _ in callers}):
        k = sum(1 for x in inlined(P, P.fns[f]).walk() if x.get("k") == "MethodCall" and (call_name(x) or "") == sb.path)
        if k >= 2:
            repeated.append("%s (%d calls)" % (short(f), k))
    many = in_loop or repeated
    R.check("R15-d", "roots-accumulate", not (replacing and many), "root types set one by one end up in the same RootTypes node",
            "set_root_types replaces the RootTypes node on every call (%s) and is called more than once per schema (%s): the roots recorded through "
            "an earlier call are wiped by the later one, so only the last root(s) survive on that route"
            % (replacing, "; ".join((["in a loop in " + x for x in in_loop]) + repeated)), loc=sb.loc())
    h0 = P.fn(IN + "introspection")
    for h in (h0, inlined(P, h0)):
        if any(c.get("k") == "MethodCall" and c["method"] in ("set_" + fld for fld in OPS.values()) for c in h.walk()):
            break
    pvh = Prov(h)
    for op, fld in sorted(OPS.items()):
        calls = [c for c in h.walk() if c.get("k") == "MethodCall" and c["method"] == "set_" + fld and c["args"]]
        key = "root:from_json:" + op
        if not calls:
            R.undecided("R15-d", key, "no call of set_%s found in %s" % (fld, h0.path), loc=h0.loc())
            continue
        got = set()
        for c in calls:
            got |= {x[2] for x in pvh.atoms(c["args"][0]) if x[0] == "field" and x[1].endswith("::IntrospectionSchema")}
        if fld in got and not (got & set(OPS.values())) - {fld}:
            R.holds("R15-d", key, "%s <- __schema.%s" % (fld, fld), loc=h0.loc())
        elif fld not in got:
            R.violated("R15-d", key, "the JSON route sets %s from %s" % (fld, sorted(got) or "something other than __schema.%s" % fld), loc=h0.loc())
        else:
            R.undecided("R15-d", key, "set_%s receives a value derived from __schema.%s" % (fld, sorted(got)), loc=h0.loc())


def _flag_use(P, f, i, depth=0):
    """how the Option<bool> value at nodes()[i] of f is consumed -> (True: by its value | False: by its mere presence | None, why).
    A flag handed to a helper function is judged by what the helper does with that parameter."""
    acc = f.nodes()
    x = acc[i][0]
    pi = acc[i][1]
    p = acc[pi][0] if pi >= 0 else {}
    while p.get("k") in ("AddrOf", "DropTemps", "Use") and acc[pi][1] >= 0:
        x, pi = p, acc[pi][1]
        p = acc[pi][0]

    def closure_uses(call):
        uses = False
        for c in call["args"]:
            if c.get("k") == "Closure" and c["params"]:
                pid = [b.get("local") for b in subnodes(c["params"][0]) if b.get("k") == "Binding"]
                uses = any(y.get("k") == "Path" and y.get("local") in pid for y in subnodes(c["body"]))
        return uses
    if p.get("k") == "MethodCall" and p.get("recv") is x:
        m = p["method"]
        if m in ("unwrap_or", "unwrap_or_default", "unwrap_or_else"):
            return True, "value used through `%s`" % m
        if m in ("and_then", "filter", "is_some_and", "map_or", "map_or_else"):
            u = closure_uses(p)
            return u, ("closure uses the boolean" if u else "closure of `%s` ignores the boolean" % m)
        if m in ("map", "is_some", "is_none", "ok_or", "ok_or_else", "as_ref", "iter"):
            u = closure_uses(p)
            return u, ("value used" if u else "`.%s(..)` only tests presence" % m)
        return None, ""
    if p.get("k") == "Binary":
        return True, "compared"
    if p.get("k") in ("Call", "MethodCall") and depth < 2:
        args = ([p["recv"]] if p.get("k") == "MethodCall" else []) + p["args"]
        g = P.fns.get(call_name(p) or "")
        pos = next((j for j, a_ in enumerate(args) if a_ is x), None)
        if g is not None and not g.derived and pos is not None and pos < len(g.params) and g.params[pos].get("k") == "Binding":
            lid = g.params[pos]["local"]
            vs = [_flag_use(P, g, j, depth + 1) for j, (y, _) in enumerate(g.nodes()) if y.get("k") == "Path" and y.get("local") == lid]
            if vs and all(v[0] is True for v in vs):
                return True, "handed to %s, which uses the value (%s)" % (short(g.path), vs[0][1])
            if any(v[0] is False for v in vs):
                return False, "handed to %s: %s" % (short(g.path), next(v[1] for v in vs if v[0] is False))
    return None, ""


def r15e(P, R):
    """Option<bool> flags of the introspection result are consumed by their value, not by their presence"""
    flags = []
    for ap, adt in P.adts.items():
        if ap.startswith(INC) and adt.kind == "Struct":
            for fld, ty in adt.field_types().items():
                if ty == "core::option::Option<bool>":
                    flags.append((ap, fld))
    R.floor("R15-e", "Option<bool> flags", len(flags), 4)
    n = 0
    for f in P.fns.values():
        if not f.path.startswith("nitrogql_introspection::") or f.derived:
            continue
        acc = f.nodes()
        for i, (x, _) in enumerate(acc):
            if x.get("k") == "Field" and (norm(x.get("adt")), x["field"]) in flags:
                n += 1
                verdict, why = _flag_use(P, f, i)
                key = "flag:%s.%s@%s" % (norm(x["adt"]).split("::")[-1], x["field"], short(f.path))
                if verdict is None:
                    R.undecided("R15-e", key, "unrecognised use of the flag", loc=f.loc())
                else:
                    R.check("R15-e", key, verdict, why,
                            "%s turns the optional boolean `%s` into a fact by its mere presence (%s): `\"%s\": false` in the introspection JSON is "
                            "treated as true, so the JSON route disagrees with the SDL route" % (f.path, x["field"], why, x["field"]), loc=f.loc())
    R.floor("R15-e", "flag uses", n, 4)


RULES = [("R15-a", r15a), ("R15-b", r15b), ("R15-c", r15c), ("R15-d", r15d), ("R15-e", r15e), ("R15-f", r15f)]
EXPLANATION = (
    "Route symmetry, the decidable part of C15: (R15-a) every match over LoadedSchema in generate reaches the same printers on both "
    "routes, the introspection arm differing only by type_system_to_ast, operations always get a Schema (ast_to_type_system for SDL); "
    "(R15-b) the __TypeKind tables of the JSON reader (six named kinds, LIST/NON_NULL over ofType, kind -> TypeDefinition variant); "
    "(R15-c) converter coverage by non-interference — every deserialised introspection field is read, type_system_to_ast reads every "
    "component of the Schema structs except deprecation (JSDoc only), ast_to_type_system reads every content field of the AST except "
    "directive applications, kinds are preserved and no converter filters members; (R15-d) query/mutation/subscription roots are "
    "carried under their own operation on all three conversions; (R15-e) optional boolean flags (isDeprecated, isRepeatable) are "
    "consumed by value. Not decided: equality of verdicts and emitted types across the two routes.")
ASSUMPTIONS = ["serde deserialisation of the introspection JSON (third-party)", "GraphQL introspection schema (__Type, __TypeKind) as of the October 2021 spec"]


def main(tier):
    return harness.run_property("C15", RULES, "other", EXPLANATION, ASSUMPTIONS, tier)
