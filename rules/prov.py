"""Flow-insensitive, intra-procedural provenance over the typed HIR.

atoms(expr) over-approximates the set of things an expression's value may be computed from:
  ("field", adt, name)   a read of ADT field
  ("param", name)        a parameter of the enclosing function
  ("lit", value)         a literal
  ("call", path)         the result of calling `path` (resolved impl if known)
  ("def", path)          a const/static/fn item/constructor referenced by path
  ("ctor", path)         a struct literal / variant construction
Because it never misses a dependency, *absence* of an atom is positive evidence.
"""
import json
import os
from facts import norm, call_name

# Parameter names as of the reference tree: rules refer to parameters by these canonical names, looked up by *position*, so that
# renaming a parameter in /repo does not disturb any rule (a changed arity falls back to the current names).
_CANON = None


def canon_params(fn):
    global _CANON
    if _CANON is None:
        try:
            _CANON = json.load(open(os.path.join(os.path.dirname(os.path.dirname(os.path.abspath(__file__))), "tables", "param_names.json")))
        except Exception:
            _CANON = {}
    names = _CANON.get(fn.path)
    cur = [x.get("name") if x.get("k") == "Binding" else None for x in fn.params]
    if names and len(names) == len(cur):
        return names
    return cur


# adaptors whose closure argument only *selects* among the receiver's elements: data flows from the receiver alone
SELECTORS = {"find", "rfind", "filter", "take_while", "skip_while", "max_by_key", "min_by_key", "max_by", "min_by", "inspect",
             "retain", "sort_by_key", "sort_by", "dedup_by_key"}


# Set by the harness: the loaded Program, used to expand calls of workspace functions (inter-procedural summaries).
PROGRAM = None
_SUMMARY = {}
_SUMMARY_STACK = []
SUMMARY_DEPTH = 3


def return_summary(path):
    """Atoms the value returned by workspace function `path` may be computed from, other than its own parameters (the caller
    already contributes the atoms of the arguments): fields read, literals, constructors, further calls — expanded through
    workspace callees up to SUMMARY_DEPTH.  Over-approximation, memoised per function."""
    if PROGRAM is None:
        return frozenset()
    if path in _SUMMARY:
        return _SUMMARY[path]
    f = PROGRAM.fns.get(path)
    if f is None or f.derived or f.kind not in ("Fn", "AssocFn") or path in _SUMMARY_STACK or len(_SUMMARY_STACK) >= SUMMARY_DEPTH:
        return frozenset()
    _SUMMARY_STACK.append(path)
    try:
        pv = Prov(f)
        pv.interproc = True
        rets = [n["e"] for n in f.walk() if n.get("k") == "Ret" and "e" in n]
        body = f.body
        if body.get("k") == "BlockExpr":
            if "tail" in body["b"]:
                rets.append(body["b"]["tail"])
        else:
            rets.append(body)
        out = set()
        for e in rets:
            out |= pv.atoms(e)
        res = frozenset(a for a in out if a[0] != "param")
    finally:
        _SUMMARY_STACK.pop()
    if not _SUMMARY_STACK:
        _SUMMARY[path] = res
    return res


class Prov:
    def __init__(self, fn, field_assign=True):
        """field_assign: treat `x.f = e` as making the whole local `x` depend on e (coarse but never misses a
        dependency); switch off when `x` is `self` and per-field precision matters"""
        self.field_assign = field_assign
        self.data_only = False
        self.interproc = False
        self.fn = fn
        self.src = {}      # local id -> list of (source expr node | None, extra atoms)
        self.params = {}   # local id -> name
        self._memo = {}
        canon = canon_params(fn)
        for i, p in enumerate(fn.params):
            self._bind_param(p, canon[i] if i < len(canon) else None)
        self._scan(fn.body)

    # ------------------------------------------------------------- binding scan
    def _bind_param(self, pat, canon=None):
        bs = _pat_bindings(pat)
        for n in bs:
            # a plain `name: T` parameter gets its canonical (reference-tree) name; destructured parameters keep their own
            self.params[n["local"]] = canon if (canon and len(bs) == 1 and pat.get("k") == "Binding") else n["name"]

    def _bind(self, pat, src, extra=frozenset()):
        """bind every Binding in `pat` to source expression `src`"""
        self._bind_rec(pat, src, frozenset(extra))

    def _bind_rec(self, pat, src, extra):
        k = pat.get("k")
        if k == "Binding":
            self.src.setdefault(pat["local"], []).append((src, extra))
            if "sub" in pat:
                self._bind_rec(pat["sub"], src, extra)
        elif k == "Struct":
            if pat.get("dk") == "Variant":
                key = norm(pat["def"])
            else:
                key = norm(pat.get("pat_adt"))
            for f in pat["fields"]:
                self._bind_rec(f["p"], src, extra | {("field", key, f["name"])})
        elif k == "TupleStruct":
            key = norm(pat.get("ctor_of") or pat.get("def"))
            for i, p in enumerate(pat["ps"]):
                self._bind_rec(p, src, extra | {("variant", key)})
        elif k == "Tuple":
            es = src.get("es") if isinstance(src, dict) and src.get("k") == "Tup" else None
            if es is not None and len(es) == len(pat["ps"]) and "ddpos" not in pat:
                # element-wise: (a, b) <- (x, y)
                for p, e in zip(pat["ps"], es):
                    self._bind_rec(p, e, extra)
            else:
                for p in pat["ps"]:
                    self._bind_rec(p, src, extra)
        elif k == "Or":
            for p in pat["ps"]:
                self._bind_rec(p, src, extra)
        elif k in ("Box", "Deref", "Ref", "Guard"):
            self._bind_rec(pat["p"], src, extra)
        elif k == "Slice":
            for p in pat["ps"] + pat.get("post", []):
                self._bind_rec(p, src, extra)
            if "mid" in pat:
                self._bind_rec(pat["mid"], src, extra)

    def _scan(self, node):
        stack = [node]
        while stack:
            n = stack.pop()
            if isinstance(n, list):
                stack.extend(n)
                continue
            if not isinstance(n, dict):
                continue
            k = n.get("k")
            if k == "Let":
                if "init" in n:
                    self._bind(n["pat"], n["init"])
                else:
                    self._bind(n["pat"], None)
            elif k == "LetExpr":
                self._bind(n["pat"], n["init"])
            elif k == "Match":
                for arm in n["arms"]:
                    self._bind(arm["pat"], n["scrut"])
            elif k in ("MethodCall", "Call"):
                args = ([n["recv"]] if k == "MethodCall" else []) + n["args"]
                if "inl" in n:
                    # virtually inlined callee (templates.inlined): its parameters are bound to this call's arguments
                    for pp, aa in zip(n["inl"]["params"], args):
                        self._bind(pp, aa)
                closures = [a for a in args if a.get("k") == "Closure"]
                if closures:
                    others = [a for a in args if a.get("k") != "Closure"]
                    ctx = {"k": "Tup", "es": others, "t": "()", "s": n["s"]}
                    for c in closures:
                        for p in c["params"]:
                            self._bind(p, ctx)
            elif k in ("Assign", "AssignOp"):
                # `x = e` / `x.f = e`: the assigned local also derives from e
                base = n["l"]
                projected = False
                while base.get("k") in ("Field", "Index", "Unary"):
                    projected = projected or base.get("k") in ("Field", "Index")
                    base = base["e"]
                if base.get("k") == "Path" and "local" in base and (self.field_assign or not projected):
                    self.src.setdefault(base["local"], []).append((n["r"], frozenset()))
            for v in n.values():
                if isinstance(v, (dict, list)):
                    stack.append(v)

    # ------------------------------------------------------------------- atoms
    def data_atoms(self, e):
        """like atoms(), but predicate closures of selecting adaptors (find/filter/..) are not followed: what the value is
        *made of*, not what it was selected by"""
        old = self.data_only
        memo = self._memo
        self.data_only, self._memo = True, {}
        try:
            return self.atoms(e)
        finally:
            self.data_only, self._memo = old, memo

    def deep_atoms(self, e):
        """atoms(), plus — for every call of a workspace function — what that function's return value is computed from
        (return_summary).  Use it for *positive* requirements ("derives from field F", "passes through sanitiser S") so that
        moving part of an expression into a helper function does not lose the dependency; never for "must not depend on"."""
        old, memo = self.interproc, self._memo
        self.interproc, self._memo = True, {}
        try:
            return self.atoms(e)
        finally:
            self.interproc, self._memo = old, memo

    def atoms(self, e, _visiting=None):
        if e is None:
            return frozenset()
        if _visiting is None:
            _visiting = set()
        out = set()
        stack = [e]
        while stack:
            n = stack.pop()
            if isinstance(n, list):
                stack.extend(n)
                continue
            if not isinstance(n, dict):
                continue
            k = n.get("k")
            if k == "Path":
                if "local" in n:
                    out |= self._local_atoms(n["local"], _visiting)
                elif "def" in n:
                    out.add(("def", norm(n["def"])))
                    if n.get("rd"):
                        out.add(("def", norm(n["rd"])))
                continue
            if k == "Lit":
                v = n.get("v")
                if isinstance(v, list):
                    from facts import fmt_pieces
                    for piece in fmt_pieces(v):
                        if piece is not None:
                            out.add(("lit", piece))
                else:
                    out.add(("lit", v))
                continue
            if k == "Field":
                if n.get("adt"):
                    out.add(("field", norm(n["adt"]), n["field"]))
                else:
                    out.add(("tuplefield", n["field"]))
            elif k in ("Call", "MethodCall"):
                c = call_name(n)
                if c:
                    out.add(("call", c))
                    if n.get("callee") and norm(n["callee"]) != c:
                        out.add(("call", norm(n["callee"])))
                    if self.interproc and PROGRAM is not None and c in PROGRAM.fns and c != self.fn.path:
                        out |= return_summary(c)
                if self.data_only and k == "MethodCall" and n.get("method") in SELECTORS:
                    # the result is an element (or sub-sequence) of the receiver; the predicate only selects
                    stack.append(n["recv"])
                    for a in n["args"]:
                        if a.get("k") != "Closure":
                            stack.append(a)
                    continue
            elif k == "Struct" and "rest" not in n:
                out.add(("ctor", norm(n.get("variant") or n.get("adt"))))
            elif k in ("Binding", "Wild", "TupleStruct", "PatExpr", "Tuple", "Or", "Ref", "Range", "Slice") \
                    or (k == "Struct" and "rest" in n):
                continue  # patterns carry no value atoms
            for key, v in n.items():
                if isinstance(v, (dict, list)):
                    stack.append(v)
        return frozenset(out)

    def _local_atoms(self, lid, visiting):
        if lid in self._memo:
            return self._memo[lid]
        if lid in visiting:
            # cycle cut: results computed above this point are partial and must not be memoised
            self._cuts = getattr(self, "_cuts", 0) + 1
            return frozenset()
        visiting.add(lid)
        cuts0 = getattr(self, "_cuts", 0)
        out = set()
        if lid in self.params:
            out.add(("param", self.params[lid]))
        for src, extra in self.src.get(lid, []):
            out |= extra
            if src is not None:
                out |= self.atoms(src, visiting)
        visiting.discard(lid)
        res = frozenset(out)
        if not visiting or getattr(self, "_cuts", 0) == cuts0:
            # complete: no cycle was cut while computing it (or we are back at the top)
            self._memo[lid] = res
        return res


def _pat_bindings(pat):
    out = []
    stack = [pat]
    while stack:
        n = stack.pop()
        if isinstance(n, list):
            stack.extend(n)
        elif isinstance(n, dict):
            if n.get("k") == "Binding":
                out.append(n)
            for v in n.values():
                if isinstance(v, (dict, list)):
                    stack.append(v)
    return out


def fields_of(atoms, adt_suffix=None):
    """{(adt, field)} among atoms (optionally restricted to an ADT path suffix)"""
    out = set()
    for a in atoms:
        if a[0] == "field":
            if adt_suffix is None or a[1] == adt_suffix or (a[1] or "").endswith("::" + adt_suffix):
                out.add((a[1], a[2]))
    return out


def has_field(atoms, adt_suffix, field):
    for a in atoms:
        if a[0] == "field" and a[2] == field and (a[1] == adt_suffix or (a[1] or "").endswith("::" + adt_suffix)):
            return True
    return False


def has_call(atoms, suffix):
    for a in atoms:
        if a[0] in ("call", "def") and (a[1] == suffix or a[1].endswith("::" + suffix) or a[1].endswith(suffix)):
            return True
    return False


def lits(atoms):
    return {a[1] for a in atoms if a[0] == "lit"}
