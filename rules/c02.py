"""C02 — Generated result types admit nothing no execution could return (the anchored mechanisms).

Everything is decided from the typed HIR, nothing is executed.  Three kinds of instances:

* *provenance* instances (T2): an argument / field is computed from an atom or not.  They look through helper functions (`_inl`:
  virtual inlining of every same-crate callee that is not itself an anchor of this property) and use `Prov.deep_atoms` for positive
  requirements.  VIOLATED only when an atom is *absent* from an over-approximated provenance set or a constant has the wrong value.
* *table* instances (T3, message prefix `table:`): a finite decision table is read out of the code by abstract evaluation (`_Abs`,
  bottom of this file) and compared with the table the GraphQL spec prescribes: the 7-cell merge table of same-key fields over the
  variant tags Empty / Leaf / Object, the nullability table over wrapper terms List / NonNull / Named, the @skip/@include table over
  (directive name literal, kind of the `if` value, boolean).  Inputs are variant tags with undetermined payloads; the evaluation
  forks on every undetermined condition and the table is read off the set of paths, so it does not depend on how the code is
  spelled (loop / iterator chain, match / if-let / let-else, helpers, tuple / struct).
* *path* instances (message prefix `paths:`): a property of every abstract path of a function ("a fragment's fields are collected only
  after its type condition was found to apply", "no path returns an empty variable list after having met a selection without
  handing it to the visitor").

Three-valued throughout: a shape or an anchor that is not found, or an evaluation `_Abs` has no model for, is UNDECIDED, never an alarm.
"""
import itertools
import re

import harness
from facts import (norm, call_name, short, subnodes, lit_value, matches_on, peel_ty, AnchorMissing)
from prov import Prov, has_field, has_call
from templates import (variant_table, enclosing_contexts, recursion_discipline, inlined, method_chain)

PR = "nitrogql_printer::"
OT = PR + "operation_type_printer::"
A = "nitrogql_ast::"
TS = "graphql_type_system::"
TSD = TS + "definitions::"
ST = OT + "selection_tree::"
BC = OT + "branching::BranchingCondition"
STB = ST + "SelectionTreeBranch"

# functions this property (and C01) anchors: a callee that is *not* in this list is a helper and is looked through
ANCHORS = [OT + "type_printer::" + n for n in (
    "get_type_for_selection_set", "type_to_selection_tree", "generate_branching_conditions", "get_boolean_variables",
    "get_object_type_for_selection_set", "get_fields_for_selection_set", "check_skip_directive", "check_fragment_condition")] + [
    OT + "deep_merge::" + n for n in ("deep_merge_selection_tree", "merge_fields", "merge_selection_trees")] + [
    OT + "selection_tree::to_ts::" + n for n in ("generate_selection_tree_type", "generate_selection_tree_type_impl", "field_to_type",
                                               "map_to_tstype", "map_to_tstype_impl")] + [
    OT + "selection_set_visitor::visit_fields_in_selection_set", OT + "selection_set_visitor::visit_fields_in_selection_set_impl",
    PR + "utils::interface_implementers", PR + "ts_types::ts_types_util::ts_union", PR + "ts_types::fast_equal::fast_equal"]
_PRED = {}
# adaptors / in-place operations that drop elements whatever their arguments (a predicate-driven `filter` is not in this list: whether
# it drops anything depends on the predicate)
TRUNCATING = {"skip", "skip_while", "take", "take_while", "step_by", "map_while", "nth", "last", "truncate", "drain", "remove", "pop", "clear",
              "swap_remove", "split_off", "dedup", "dedup_by", "dedup_by_key", "unique_by", "peekable_skip"}


def _inl(P, f):
    """`f` with the bodies of its helper callees attached (templates.inlined), anchors of the property excluded"""
    if id(P) not in _PRED:
        paths = set()
        for a in ANCHORS:
            try:
                g = P.fn(a, required=False)
            except AnchorMissing:
                g = None
            if g is not None:
                paths.add(g.path)
        _PRED[id(P)] = lambda g, paths=paths: g.path not in paths
    return inlined(P, f, pred=_PRED[id(P)])


def _sections(P, R, rule, *parts):
    """each part has its own anchors: one that cannot be resolved leaves only that part undecided"""
    for part in parts:
        try:
            part(P, R)
        except AnchorMissing as e:
            R.undecided(rule, "anchor:" + part.__name__.lstrip("_"), "kind=anchor-missing: %s (this part of the rule is not evaluated on this shape of the code)" % e)


def _tri(R, rule, key, verdict, ok="", bad="", und="", loc=None):
    """verdict: True -> HOLDS, False -> VIOLATED, None -> UNDECIDED"""
    if verdict is True:
        R.holds(rule, key, ok, loc)
    elif verdict is False:
        R.violated(rule, key, bad or ok, loc)
    else:
        R.undecided(rule, key, und or ("not decided on this shape of the code: " + ok), loc)


def _side(R):
    """the direction of the property the instances are reported under: C01 — the type must admit every real response — is violated by a type that is
    too *narrow* (a member or a `| null` lost, a branch dropped, a panic: no type at all); C02 — the type admits nothing impossible — by one that is
    too *wide* (a `| null` invented, an impossible branch, a missing `?: never` marker)"""
    return "narrow" if getattr(R, "prop", "C02") == "C01" else "wide"


class _Toward:
    """a view of a reporter for one instance whose deviation has a known direction: the deviation is a violation only of the property of that
    direction; under the dual property the instance HOLDS (that property is not touched by it)"""

    def __init__(self, R, dirs):
        self.R, self.dirs = R, set(dirs)

    def __getattr__(self, name):
        return getattr(self.R, name)

    def violated(self, rule, key, msg, loc=None, detail=None):
        if _side(self.R) in self.dirs or not self.dirs:
            return self.R.violated(rule, key, msg, loc, detail)
        return self.R.holds(rule, key, "the code deviates here, but only towards the dual property (too %s a type), where it is reported: %s"
                            % ("narrow" if _side(self.R) == "wide" else "wide", msg[:200]), loc, detail)

    def check(self, rule, key, cond, msg_ok="", msg_bad="", loc=None, detail=None):
        if cond:
            return self.R.holds(rule, key, msg_ok, loc, detail)
        return self.violated(rule, key, msg_bad or msg_ok, loc, detail)


BOTH = ("narrow", "wide")
_LENIENT = {}


def _var_dirs(P):
    """direction of "a variable that @skip/@include uses is not among the branch's variables": with a skip test that panics on a missing variable no type
    is generated at all (too narrow only); with a lenient look-up the selection is silently kept or omitted, which also makes impossible members"""
    if id(P) not in _LENIENT:
        _LENIENT[id(P)] = _lookup_lenient(P)
    return ("narrow",) if _LENIENT[id(P)] is False else BOTH


def _lookup_lenient(P):
    """does the skip test return normally for `@skip(if: $v)` / `@include(if: $v)` when the branch lists no variable at all?  (None: not read)"""
    try:
        f = _csd(P)
        for d in ("skip", "include"):
            def thunk(ab, d=d):
                br = _t_obj(P, BC, {"boolean_variables": []})
                return ab.truth(ab.call(f.path, _params(f, [("BranchingCondition", br), ("Directive", [_t_directive(P, d, ("var", _Opq("$v")))])])))
            paths = _Abs(P).explore(thunk)
            if any(st == "ok" for st, _, _ in paths):
                return True
            if not paths:
                return None
        return False
    except (_Unknown, AnchorMissing, KeyError, IndexError, TypeError, AttributeError, RecursionError, ValueError):
        return None


def _null_dirs(have, want):
    """which way a TypeScript type deviates from the spec table: a `| null` that is missing makes it too narrow, one that is invented too wide"""
    return _null_dirs_rec(have, want) or set(BOTH)


def _null_dirs_rec(have, want):
    def parts(t):
        ms = set(t[1]) if isinstance(t, tuple) and t and t[0] == "union" else {t}
        return _NULL in ms, ms - {_NULL}
    hn, hr = parts(have)
    wn, wr = parts(want)
    dirs = set()
    if wn and not hn:
        dirs.add("narrow")
    if hn and not wn:
        dirs.add("wide")
    if len(hr) == 1 and len(wr) == 1:
        a, b = next(iter(hr)), next(iter(wr))
        if isinstance(a, tuple) and isinstance(b, tuple) and a and b and a[0] == "array" and b[0] == "array":
            dirs |= _null_dirs_rec(a[1], b[1])
        elif a != b:
            dirs |= set(BOTH)
    elif hr != wr:
        dirs |= set(BOTH)
    return dirs


def _role(P, name, ins, out):
    """the function anchored as `name`; if it was renamed, the unique non-test function of the printer crate with that signature role
    (one parameter type mentioning each of `ins`, return type mentioning `out`)"""
    try:
        f = P.fn(name, required=False)
    except AnchorMissing:
        f = None
    if f is not None:
        return f
    cands = []
    for g in P.fns.values():
        if g.derived or g.kind not in ("Fn", "AssocFn") or not g.path.startswith(PR) or "::tests::" in g.path or len(g.sig_inputs) != len(ins):
            continue
        left = list(g.sig_inputs)
        ok = True
        for want in ins:
            hit = [t for t in left if want in t]
            if not hit:
                ok = False
                break
            left.remove(hit[0])
        if ok and out in (g.sig_output or ""):
            cands.append(g)
    if len(cands) == 1:
        return cands[0]
    raise AnchorMissing("function `%s` not found (and %d functions have its signature)" % (name, len(cands)))


def _gf(P):
    """the field collector: (context, selection set, branch) -> the Left / Right fields"""
    try:
        return _role(P, OT + "type_printer::get_fields_for_selection_set", ["QueryTypePrinterContext", "SelectionSet", "BranchingCondition"], "Either<")
    except AnchorMissing:
        # a collector object: the method that takes a selection set and returns the Left / Right fields
        return _role(P, OT + "type_printer::get_fields_for_selection_set", ["Collector", "SelectionSet"], "Vec<either::Either<")


def _csd(P):
    """the skip test: (branch or collector, directives) -> bool"""
    try:
        return _role(P, OT + "type_printer::check_skip_directive", ["BranchingCondition", "Directive"], "bool")
    except AnchorMissing:
        return _role(P, OT + "type_printer::check_skip_directive", ["Collector", "[nitrogql_ast::directive::Directive"], "bool")


def _vis(P):
    """the public selection visitor: (context, selection set, visitor function)"""
    return _role(P, OT + "selection_set_visitor::visit_fields_in_selection_set", ["QueryTypePrinterContext", "SelectionSet", "FnMut"], "()")


def _explore(P, R, rule, key, what, f, thunk, stops=()):
    """all abstract paths of `thunk`, or None after reporting the instance(s) `key` UNDECIDED"""
    try:
        return _Abs(P, stops).explore(thunk)
    except (_Unknown, AnchorMissing) as e:
        for k in ([key] if isinstance(key, str) else key):
            R.undecided(rule, k, "the abstract evaluation of %s does not decide %s (%s)" % (f.path, what, e), loc=f.loc())
    except (KeyError, IndexError, TypeError, AttributeError, RecursionError, ValueError) as e:
        for k in ([key] if isinstance(key, str) else key):
            R.undecided(rule, k, "the abstract evaluation of %s does not decide %s (evaluator: %r)" % (f.path, what, e), loc=f.loc())
    return None


def _terms(evs):
    """the terms a path was started with (every path builds its own: undetermined values are refined in place)"""
    return {ev[1]: ev[3] for ev in evs if ev[0] == "term"}


def _params(f, table, ab=None):
    """argument values for `f`: per parameter the first entry of `table` [(type substring, value or maker)] whose key occurs in the
    parameter's type; an undetermined value (with the parameter as its provenance) otherwise"""
    out = []
    for i, t in enumerate(f.sig_inputs):
        name = f.params[i].get("name") if f.params[i].get("k") == "Binding" else None
        hit = [v for key, v in table if key in t]
        if hit:
            out.append(hit[0]() if callable(hit[0]) else hit[0])
        else:
            out.append(_Opq(name or "arg%d" % i, [("param", name or i)]))
    return out


# =================================================================================================================== R02-a
def r02a(P, R):
    _sections(P, R, "R02-a", _a_leaf_nullability, _a_tree_nullability, _a_end_to_end_nullability, _a_field_kinds, _a_wrappers, _a_field_types)


LEAF_TYPES = ("T", "T!", "[T]", "[T!]", "[T]!", "[T!]!", "[[T]!]", "[[T!]]!", "[[T]]", "[[[T]!]]!")


def _to_ts(P):
    return P.fn(OT + "selection_tree::to_ts::generate_selection_tree_type")


def _a_leaf_nullability(P, R):
    """leaf field of GraphQL type T -> TypeScript type: `| null` exactly where T has no Non-Null wrapper, at every list depth.  The table
    is read by evaluating the to-TypeScript entry on a one-leaf tree whose leaf type is the wrapper term; names are undetermined."""
    f = _to_ts(P)
    for t in LEAF_TYPES:
        key = "nulltable:" + t.replace("T", "String")
        term = _ty(t)

        def thunk(ab, term=term):
            leaf = _t_field(P, "leaf", _Opq("key"), ty=term)
            tree = _t_tree(P, ("NonNull", ("Object", [_t_branch(P, _Opq("type_name"), [leaf], [])])))
            return ab.call(f.path, _params(f, [("SelectionTree<", tree)]))
        paths = _explore(P, R, "R02-a", key, "the TypeScript type of a leaf of type %s" % t, f, thunk)
        if paths is None:
            continue
        got = _first_field_types(paths)
        want = _spec_leaf(term)
        if got is None:
            R.undecided("R02-a", key, "the type of the leaf was not found in what %s returns" % f.path, loc=f.loc())
            continue
        bad = [g for g in got if _any_target(g) != _any_target(want)]
        dirs = set().union(*[_null_dirs(_any_target(g), _any_target(want)) for g in bad]) if bad else set()
        _Toward(R, dirs).check("R02-a", key, not bad, "table: a leaf of type %s is typed %s" % (t, _show_ts(want)),
                "table: %s types a leaf field of GraphQL type %s as %s, the spec table gives %s (a type is nullable unless wrapped in Non-Null, list "
                "elements are decided afresh): %s" % (f.path, t, _show_ts(bad[0]) if bad else "", _show_ts(want), _null_diff(bad[0], want) if bad else ""), loc=f.loc())


def _a_tree_nullability(P, R):
    """object selections: NonNull removes `| null`, a list element is nullable again; M stands for the union of the branches"""
    f = _to_ts(P)
    ftt = P.fn(OT + "selection_tree::to_ts::field_to_type", required=False)
    stops = [ftt.path] if ftt else []
    for t in ("T", "T!", "[T]", "[T!]", "[T]!", "[T!]!", "[[T]!]", "[[T!]]"):
        key = "nulltable:selection:" + t.replace("T", "Obj")
        term = _ty(t)

        def thunk(ab, term=term):
            tree = _t_tree(P, _wrap_tree(term, ("Object", [])))      # no branch: M is the empty union, fields are not looked at
            return ab.call(f.path, _params(f, [("SelectionTree<", tree)]))
        paths = _explore(P, R, "R02-a", key, "the TypeScript type of an object selection of type %s" % t, f, thunk, stops)
        if paths is None:
            continue
        want = _spec_tree(term)
        got = []
        for st, v, _ in paths:
            if st == "ok":
                try:
                    got.append(_blank_members(_c_ts(v)))
                except _Shape as e:
                    got = None
                    R.undecided("R02-a", key, "undetermined result of %s: %s" % (f.path, e), loc=f.loc())
                    break
        if got is None:
            continue
        bad = [g for g in got if g != want]
        dirs = set().union(*[_null_dirs(g, want) for g in bad]) if bad else set()
        _tri(_Toward(R, dirs), "R02-a", key, None if not got else not bad, "table: an object selection of type %s is typed %s" % (t, _show_ts(want)),
             "table: %s types an object selection of GraphQL type %s as %s, the spec table gives %s (M = the union of its branches): %s"
             % (f.path, t, _show_ts(bad[0]) if bad else "", _show_ts(want), _null_diff(bad[0], want) if bad else ""),
             "no path of %s returns normally on this input" % f.path, loc=f.loc())


def _a_end_to_end_nullability(P, R):
    """producer and consumer of the selection tree together: the wrappers of a parent type T, carried by whatever representation the tree has, arrive in
    the TypeScript type as the spec table says.  The tree value the public producer returns for the wrapper term T (no branch, so M is the empty
    union) is handed to the public consumer as it is."""
    gt = P.fn(OT + "type_printer::get_type_for_selection_set")
    f = _to_ts(P)
    stops = [g.path for g in (P.fn(OT + "type_printer::" + n, required=False) for n in ("generate_branching_conditions", "get_object_type_for_selection_set")) if g]
    hooks = {stops[0]: (lambda ab, args: [])} if stops else {}
    for t in ("T", "T!", "[T]", "[T!]!", "[[T]!]", "[[T!]]!", "[[T!]]", "[[[T]!]]!"):
        key = "nulltable:parent-to-type:" + t.replace("T", "Obj")
        term = _ty(t)

        def thunk(ab, term=term):
            tree = ab.call(gt.path, _params(gt, [("type::Type<", lambda: _t_type(P, term))]))
            return ab.call(f.path, _params(f, [("SelectionTree<", tree)]))
        try:
            paths = _Abs(P, stops, hooks=hooks).explore(thunk)
        except (_Unknown, AnchorMissing) as e:
            R.undecided("R02-a", key, "the abstract evaluation of %s then %s does not decide the type of a selection on a parent of type %s (%s)" % (gt.path, f.path, t, e), loc=f.loc())
            continue
        except (KeyError, IndexError, TypeError, AttributeError, RecursionError, ValueError) as e:
            R.undecided("R02-a", key, "the abstract evaluation does not decide the type of a selection on a parent of type %s (evaluator: %r)" % (t, e), loc=f.loc())
            continue
        want = _spec_tree(term)
        got = []
        for st, v, _ in paths:
            if st == "ok":
                try:
                    got.append(_blank_members(_c_ts(v)))
                except _Shape:
                    got = None
                    break
        if not got:
            R.undecided("R02-a", key, "what %s returns for the tree of a parent of type %s is not a determined TypeScript type" % (f.path, t), loc=f.loc())
            continue
        bad = [g for g in got if g != want]
        dirs = set().union(*[_null_dirs(g, want) for g in bad]) if bad else set()
        _Toward(R, dirs).check("R02-a", key, not bad, "table: a selection on a parent of type %s is typed %s" % (t, _show_ts(want)),
                               "table: the selection tree %s builds for a parent of GraphQL type %s is typed by %s as %s, the spec table gives %s (M = the union of its "
                               "branches): producer and consumer of the tree disagree on the order / meaning of the wrappers — %s"
                               % (gt.path, t, f.path, _show_ts(bad[0]) if bad else "", _show_ts(want), _null_diff(bad[0], want) if bad else ""), loc=f.loc())


def _a_field_kinds(P, R):
    """the three kinds of tree fields and the two key spaces (unaliased / aliased) arrive in the TypeScript type where they belong"""
    f = _to_ts(P)
    keys = {}

    def thunk(ab):
        k = keys.clear() or {n: _Opq(n) for n in ("omitted", "kept", "nested", "renamed", "dropped")}
        keys.update(k)
        inner = ("List", ("Object", []))
        un = [_t_field(P, "empty", k["omitted"]), _t_field(P, "leaf", k["kept"], ty=_ty("T")), _t_field(P, "obj", k["nested"], tree=inner)]
        al = [_t_field(P, "leaf", k["renamed"], ty=_ty("T")), _t_field(P, "empty", k["dropped"])]
        return ab.call(f.path, _params(f, [("SelectionTree<", _t_tree(P, ("NonNull", ("Object", [_t_branch(P, _Opq("type_name"), un, al)]))))]))
    paths = _explore(P, R, "R02-a", "to-ts:field-kinds", "the TypeScript type of a selection with omitted, leaf and object fields", f, thunk)
    if paths is None:
        return
    want_un = [(("never",), True), (_any_target(_spec_leaf(_ty("T"))), False), (_spec_tree(_ty("[T]")), False)]
    want_al = [(_any_target(_spec_leaf(_ty("T"))), False), (("never",), True)]
    seen = 0
    for st, v, _ in paths:
        if st != "ok":
            continue
        try:
            ts = _c_ts(v)
        except _Shape as e:
            R.undecided("R02-a", "to-ts:field-kinds", "undetermined result of %s: %s" % (f.path, e), loc=f.loc())
            return
        if ts[0] != "selset":
            R.undecided("R02-a", "to-ts:field-kinds", "the single branch is not typed by one __SelectionSet application", loc=f.loc())
            return
        seen += 1
        un = [(_any_target(t) if t == ("never",) else _blank_members(_any_target(t)), o) for _, (t, o) in ts[2][1]]
        al = [(_any_target(t) if t == ("never",) else _blank_members(_any_target(t)), o) for _, (t, o) in ts[3][1]]
        if un != want_un or al != want_al:
            R.violated("R02-a", "to-ts:field-kinds",
                       "table: %s types the fields [omitted, leaf, object] / aliased [leaf, omitted] of a branch as %s / %s; expected `?: never` for an "
                       "omitted field, required fields otherwise, unaliased keys in the second and aliased keys in the third argument of __SelectionSet"
                       % (f.path, [(_show_ts(t), "optional" if o else "required") for t, o in un], [(_show_ts(t), "optional" if o else "required") for t, o in al]), loc=f.loc())
            return
    _tri(R, "R02-a", "to-ts:field-kinds", True if seen else None,
         "table: an omitted field is `key?: never`, a leaf its scalar type, an object field the type of its selection; unaliased and aliased keys stay apart",
         und="no path of %s returns normally on this input" % f.path, loc=f.loc())


def _a_wrappers(P, R):
    """Type -> SelectionTree keeps the wrappers 1:1 (read from the public entry; the branch enumeration itself is not entered)"""
    f = P.fn(OT + "type_printer::get_type_for_selection_set")
    stops = [g.path for g in (P.fn(OT + "type_printer::" + n, required=False) for n in ("generate_branching_conditions", "get_object_type_for_selection_set")) if g]
    for t in ("T", "T!", "[T]", "[T!]!", "[[T]!]"):
        term = _ty(t)

        def thunk(ab, term=term):
            return ab.call(f.path, _params(f, [("type::Type<", lambda: _t_type(P, term))]))
        paths = _explore(P, R, "R02-a", "wrappers:" + t, "the selection tree of a parent of type %s" % t, f, thunk, stops)
        if paths is None:
            continue
        want = []
        x = term
        while x[0] != "Named":
            want.append(x[0])
            x = x[1]
        got = set()
        for st, v, _ in paths:
            if st == "ok":
                w = []
                v = _d(v)
                while isinstance(v, _Var) and v.name in ("NonNull", "List") and len(v.args) == 1:
                    w.append(v.name)
                    v = _d(v.args[0])
                got.add(tuple(w) if isinstance(v, _Var) and v.name == "Object" else None)
        if None in got or not got:
            R.undecided("R02-a", "wrappers:" + t, "what %s returns for a parent of type %s is not a determined wrapper chain around an object selection" % (f.path, t), loc=f.loc())
            continue
        R.check("R02-a", "wrappers:" + t, got == {tuple(want)}, "table: List / Non-Null wrappers of the parent type are carried into the selection tree one to one",
                "table: for a parent of type %s the selection tree has the wrappers %s (expected %s): `| null` / `[]` end up at the wrong depth"
                % (t, sorted(got), want), loc=f.loc())


def _a_field_types(P, R):
    """leaves and nested selections carry exactly the schema type of their field (read off the paths of get_fields_for_selection_set)"""
    G = _gf_paths(P, R, "R02-a", ["leaf-field-type", "nested-field-type"])
    if G is None:
        return
    gf, paths, names = G
    leafs, nested, bad_leaf, bad_nested, foreign, unknown = 0, 0, None, None, None, False
    FT, PO = ("field", TSD + "Field", "type"), ("field", BC, "parent_obj")
    for st, v, evs in paths:
        if st != "ok":
            continue
        for x in (_d(v) if isinstance(_d(v), list) else []):
            x = _d(x)
            fld = _d(x.args[0]) if isinstance(x, _Var) and x.name in ("Left", "Right") and x.args else None
            if isinstance(fld, _Var) and fld.name == "Leaf" and isinstance(_d(fld.args[0]), _Obj):
                o = _d(fld.args[0]).f
                if _d(o.get("is_typename")) is False:
                    leafs += 1
                    ty = o.get("type")
                    if not (isinstance(ty, _Opq) and ty.ref is None and FT in ty.origin):
                        bad_leaf = ty
                    elif PO not in ty.origin:
                        foreign, unknown = (ty, unknown) if any(x[0] == "field" and x[1] == BC for x in ty.origin) else (foreign, True)
        for ev in evs:
            if ev[0] == "call" and ev[1] == names.get("gt"):
                tys = [a for a, p in zip(ev[2], P.fns[ev[1]].sig_inputs) if "type::Type<" in p]
                if len(tys) == 1:
                    nested += 1
                    if not (isinstance(tys[0], _Opq) and tys[0].ref is None and FT in tys[0].origin):
                        bad_nested = tys[0]
                    elif PO not in tys[0].origin:
                        foreign, unknown = (tys[0], unknown) if any(x[0] == "field" and x[1] == BC for x in tys[0].origin) else (foreign, True)
    _tri(R, "R02-a", "leaf-field-type", None if not leafs else bad_leaf is None, "paths: a leaf carries exactly the schema type of its field (wrappers included)",
         "paths: %s builds a leaf whose type is %r, not the `type` of the field definition it was looked up from: wrappers (and with them `| null` / `[]`) "
         "of the schema type are lost or invented" % (gf.path, bad_leaf), "no path of %s builds an ordinary leaf" % gf.path, loc=gf.loc())
    _tri(_Toward(R, ["wide"]), "R02-a", "field-type-of-branch-object", False if foreign is not None else (None if unknown or not (leafs or nested) else True),
         "paths: the field definition a selection is typed with is looked up on the branch's own object type",
         "paths: %s types a selection with a field definition that is not looked up on the branch's object (`parent_obj`) — e.g. the declaration of the interface "
         "the selection set is written against: an object may declare a narrower type for the field, so the branch admits values that object never returns"
         % gf.path, "where %s takes the field definitions from is not read (they do not visibly come from the branching condition)" % gf.path, loc=gf.loc())
    _tri(R, "R02-a", "nested-field-type", None if not nested else bad_nested is None, "paths: a nested selection is typed with the schema type of its field (wrappers included)",
         "paths: %s types a nested selection with %r, not the `type` of the field definition" % (gf.path, bad_nested),
         "no path of %s types a nested selection through get_type_for_selection_set" % gf.path, loc=gf.loc())


_GF = {}


def _gf_paths(P, R, rule, keys):
    """(fn, abstract paths, {role: path}) of get_fields_for_selection_set on undetermined arguments; the type-condition filter, the skip test,
    the typing of nested selections and the recursion are not entered (they are events).  Memoised per program."""
    if id(P) not in _GF:
        gf = _gf(P)
        cfc = _role(P, OT + "type_printer::check_fragment_condition", ["QueryTypePrinterContext", "ObjectDefinition", "str"], "bool")
        csd = _csd(P)
        gt = P.fn(OT + "type_printer::get_type_for_selection_set")
        names = {"cfc": cfc.path, "csd": csd.path, "gt": gt.path, "gf": gf.path}
        ext = P.fn("nitrogql_semantics::direct_fields_of_output_type::direct_fields_of_output_type", required=False)
        stops = [gf.path, cfc.path, csd.path, gt.path] + ([ext.path] if ext else [])
        try:
            ab = _Abs(P, stops)
            _GF[id(P)] = (gf, ab.explore(lambda ab: ab.call(gf.path, _params(gf, []), top=True)), names)
        except _Unknown as e:
            _GF[id(P)] = (gf, e, names)
        except (KeyError, IndexError, TypeError, AttributeError, RecursionError, ValueError) as e:
            _GF[id(P)] = (gf, _Unknown("evaluator: %r" % (e,)), names)
    gf, paths, names = _GF[id(P)]
    if isinstance(paths, Exception):
        for k in keys:
            R.undecided(rule, k, "the abstract evaluation of %s does not decide this (%s)" % (gf.path, paths), loc=gf.loc())
        return None
    return gf, paths, names


# =================================================================================================================== R02-b
def r02b(P, R):
    _sections(P, R, "R02-b", _b_literal_table, _b_literal_source, _b_branch_name, _b_flag, _b_flag_paths)


def _b_literal_table(P, R):
    """the `__typename` literal of a flagged leaf is the type name of the branch the leaf stands in — in the unaliased and in the aliased
    object alike; an unflagged leaf never gets a literal (identity of undetermined payloads through the to-TypeScript entry)"""
    f = _to_ts(P)
    box = {}

    def thunk(ab):
        box["T"] = _Opq("branch.type_name", [("field", STB, "type_name")])
        ab.event("term", "T", None, box["T"])
        un = [_t_field(P, "leaf", _Opq("k1"), typename=True), _t_field(P, "leaf", _Opq("k2"), ty=_ty("T"))]
        al = [_t_field(P, "leaf", _Opq("k3"), typename=True)]
        return ab.call(f.path, _params(f, [("SelectionTree<", _t_tree(P, ("NonNull", ("Object", [_t_branch(P, box["T"], un, al)]))))]))
    paths = _explore(P, R, "R02-b", "typename-literal:table", "the type of `__typename` in a branch", f, thunk)
    if paths is None:
        return
    seen = 0
    for st, v, evs in paths:
        if st != "ok":
            continue
        try:
            ts = _c_ts(v)
        except _Shape as e:
            R.undecided("R02-b", "typename-literal:table", "undetermined result of %s: %s" % (f.path, e), loc=f.loc())
            return
        if ts[0] != "selset" or len(ts[2][1]) != 2 or len(ts[3][1]) != 1:
            R.undecided("R02-b", "typename-literal:table", "the branch is not typed by one __SelectionSet application over its own fields", loc=f.loc())
            return
        seen += 1
        where = [("the unaliased `__typename`", ts[2][1][0][1][0], True), ("an ordinary leaf", ts[2][1][1][1][0], False), ("the aliased `__typename`", ts[3][1][0][1][0], True)]
        for what, t, want_lit in where:
            is_own = t[0] == "lit" and _d(t[1]) is _terms(evs)["T"]
            if want_lit != (t[0] == "lit") or (want_lit and not is_own):
                R.violated("R02-b", "typename-literal:table",
                           "table: %s types %s of a branch as %s; a leaf flagged as the `__typename` meta field must be the string literal of the branch's own "
                           "`type_name`, whether it stands among the unaliased or the aliased fields, and no other leaf may be"
                           % (f.path, what, _show_ts(t) if not (t[0] == "lit" and isinstance(_d(t[1]), _Opq)) else "the literal of `%s`" % _d(t[1]).why), loc=f.loc())
                return
    _tri(R, "R02-b", "typename-literal:table", True if seen else None, "table: `__typename` is the string literal of the branch's own object type, under an alias too",
         und="no path of %s returns normally on this input" % f.path, loc=f.loc())


def _b_flag_paths(P, R):
    """on every abstract path of the field collector, a leaf is flagged as the `__typename` meta field exactly when the path took the *field name*
    to be `__typename`; the response key (alias) is never asked"""
    G = _gf_paths(P, R, "R02-b", ["typename-flag:paths"])
    if G is None:
        return
    gf, paths, names = G
    FN, FA = ("field", A + "selection_set::Field", "name"), ("field", A + "selection_set::Field", "alias")
    seen, bad = 0, None
    for st, v, evs in paths:
        if st != "ok" or not isinstance(_d(v), list) or any(e[0] == "call" and e[1] == names["gf"] for e in evs):
            continue
        tn = [(e[0], FN in e[1] and FA not in e[1], FA in e[1]) for e in evs if e[0] in ("assume", "assume-not") and e[2] == "__typename"]
        for x in _d(v):
            x = _d(x)
            fld = _d(x.args[0]) if isinstance(x, _Var) and x.name in ("Left", "Right") and x.args else None
            if not (isinstance(fld, _Var) and fld.name == "Leaf" and isinstance(_d(fld.args[0]), _Obj)):
                continue
            flag = _d(_d(fld.args[0]).f.get("is_typename"))
            if not isinstance(flag, bool):
                continue
            seen += 1
            if any(by_alias for _, _, by_alias in tn):
                bad = "asks whether the response key (the alias) is `__typename`"
            elif flag and not any(k == "assume" and by_name for k, by_name, _ in tn):
                bad = "flags a leaf although the field name was not found to be `__typename`"
            elif not flag and not any(k == "assume-not" and by_name for k, by_name, _ in tn):
                bad = "leaves a leaf unflagged without having excluded that the field name is `__typename`"
    _tri(R, "R02-b", "typename-flag:paths", None if not seen else bad is None, "paths: a leaf is the `__typename` meta field exactly when its field name is `__typename`",
         "paths: %s %s: `kind: __typename` is typed as a plain string (any string, or another branch's type name, is admitted) and `__typename: name` as the "
         "object-name literal" % (gf.path, bad), "no abstract path of %s builds a leaf with a determined `is_typename`" % gf.path, loc=gf.loc())


def _b_literal_source(P, R):
    f0 = P.fn(OT + "selection_tree::to_ts::field_to_type")
    f = _inl(P, f0)
    pv = Prov(f)
    lits = [c for c in f.walk() if c.get("k") == "Call" and norm(c.get("callee", "")).endswith("TSType::StringLiteral") and len(c["args"]) == 1]
    R.floor("R02-b", "__typename literal site", len(lits), 1)
    feed = set()        # parameters of field_to_type the literal is computed from
    for c in lits:
        a = pv.deep_atoms(c["args"][0])
        ps = {x[1] for x in a if x[0] == "param"}
        feed |= ps
        R.check("R02-b", "typename-literal-source", bool(ps) or has_field(a, STB, "type_name"),
                "the __typename literal is computed from what the caller passes for the branch", "the __typename literal does not depend on any argument of "
                "field_to_type: it cannot be the branch's object type", loc=f0.loc())
    g0 = P.fn(OT + "selection_tree::to_ts::generate_selection_tree_type_impl")
    g = _inl(P, g0)
    pvg = Prov(g)
    calls = [c for c in g.walk() if c.get("k") == "Call" and call_name(c) == f0.path]
    R.floor("R02-b", "field_to_type calls", len(calls), 1)
    names = list(pv.params.values())
    for i, c in enumerate(calls):
        if len(c["args"]) != len(f0.params) or not feed:
            R.undecided("R02-b", "typename-branch:%d" % i, "which argument of field_to_type carries the branch's type name is not recognised", loc=g0.loc())
            continue
        idx = [j for j, p in enumerate(f0.params) if p.get("k") == "Binding" and pv.params.get(p.get("local")) in feed]
        ok = any(has_field(pvg.deep_atoms(c["args"][j]), STB, "type_name") for j in idx)
        R.check("R02-b", "typename-branch:%d" % i, ok, "what feeds the __typename literal is branch.type_name",
                "call #%d of field_to_type in %s does not pass the branch's `type_name` in the argument(s) the `__typename` literal is computed from (%s): "
                "the meta field of that object is typed with another object's name" % (i, g0.path, sorted(feed)), loc=g0.loc())


def _b_branch_name(P, R):
    go = _inl(P, P.fn(OT + "type_printer::get_object_type_for_selection_set"))
    pvo = Prov(go)
    brs = [n for n in go.walk() if n.get("k") == "Struct" and "rest" not in n and norm(n.get("adt", "")) == STB]
    R.floor("R02-b", "branch constructions", len(brs), 1)
    for b in brs:
        e = [x for x in b["fields"] if x["name"] == "type_name"]
        if not e:
            R.undecided("R02-b", "branch-name-source", "the branch literal has no `type_name` field", loc=go.loc())
            continue
        a = pvo.deep_atoms(e[0]["e"])
        ok = has_field(a, BC, "parent_obj") and has_field(a, TSD + "ObjectDefinition", "name")
        R.check("R02-b", "branch-name-source", ok, "branch.type_name = the concrete object type of the branching condition",
                "branch.type_name is not the branching condition's object type", loc=go.loc())


def _b_flag(P, R):
    """which leaf is `__typename` must be decided by the *field name*, not by the response key (alias)"""
    f0 = P.fn(OT + "selection_tree::to_ts::field_to_type", required=False)
    f = _inl(P, f0) if f0 else None
    pv = Prov(f) if f else None
    gf = _inl(P, _gf(P))
    pvf = Prov(gf)
    leaf_adt = ST + "SelectionTreeLeaf"
    name_atoms = set()
    for l in gf.walk():
        if l.get("k") == "Struct" and "rest" not in l and norm(l.get("adt", "")) == leaf_adt:
            for x in l["fields"]:
                if x["name"] == "name":
                    name_atoms |= pvf.atoms(x["e"])
    acc = gf.nodes()
    for i, (l, _) in enumerate(acc):
        if l.get("k") == "Struct" and "rest" not in l and norm(l.get("adt", "")) == leaf_adt:
            flag = [x for x in l["fields"] if x["name"] == "is_typename"]
            if not flag:
                continue
            v = lit_value(flag[0]["e"])
            guards = [c for c in enclosing_contexts(gf, i) if c[0] == "if-then" and any(lit_value(y) == "__typename" for y in subnodes(c[1]["cond"]))]
            if v is True:
                if not guards:
                    R.undecided("R02-b", "typename-flag:true", "a leaf is flagged `is_typename: true` outside an `if .. == \"__typename\"`", loc=gf.loc())
                    continue
                ok = all(has_field(pvf.atoms(g[1]["cond"]), A + "selection_set::Field", "name")
                         and not has_field(pvf.atoms(g[1]["cond"]), A + "selection_set::Field", "alias") for g in guards)
                R.check("R02-b", "typename-flag:true", ok, "is_typename is set under `field.name == \"__typename\"` (alias not consulted)",
                        "a leaf is marked as the __typename meta field on a path not guarded by the *field name* being `__typename`", loc=gf.loc())
            elif v is False:
                R.check("R02-b", "typename-flag:false", not guards, "ordinary leaves are not marked",
                        "an ordinary leaf is built under the `== \"__typename\"` test but not marked", loc=gf.loc())
    if f is None:
        R.undecided("R02-b", "typename-keyed-by-field-name", "kind=anchor-missing: field_to_type not found; how the to-TypeScript side recognises `__typename` is read by "
                    "typename-literal:table only")
        return
    conds = [x for x in f.walk() if x.get("k") == "Binary" and x.get("op") == "==" and lit_value(x["r"]) == "__typename"]
    keyed_by_leaf_name = any(has_field(pv.atoms(c["l"]), leaf_adt, "name") for c in conds)
    alias_flows = has_field(name_atoms, A + "selection_set::Field", "alias")
    R.check("R02-b", "typename-keyed-by-field-name", not (keyed_by_leaf_name and alias_flows),
            "the __typename special case is keyed by the field name",
            "field_to_type recognises `__typename` by the leaf's *response key* (SelectionTreeLeaf.name, which is the alias when there is one): "
            "`t: __typename` is typed as the plain String scalar (admits strings no execution returns) and `__typename: name` gets the "
            "object-name literal", loc=f.loc())


# =================================================================================================================== R02-c
def r02c(P, R):
    _sections(P, R, "R02-c", _c_targets)


def _c_targets(P, R):
    for name, floor in (("generate_selection_tree_type_impl", 1), ("field_to_type", 1)):
        f = _inl(P, P.fn(OT + "selection_tree::to_ts::" + name))
        _namespace_targets(P, R, "R02-c", f, "OperationOutput", floor)


def _namespace_targets(P, R, rule, fn, want_target, floor):
    """every TSType::NamespaceMember3 built in `fn` (helpers included) carries TypeTarget::<want_target>"""
    n = 0
    pv = Prov(fn)
    for c in fn.walk():
        if c.get("k") == "Call" and norm(c.get("callee", "")).endswith("TSType::NamespaceMember3") and len(c["args"]) == 3:
            n += 1
            a = pv.deep_atoms(c["args"][1])
            targets = {x[1].split("::")[-1] for x in a if x[0] == "def" and "type_target::TypeTarget::" in x[1]}
            key = "namespace:%s#%d" % (short(fn.path), n)
            if not targets:
                R.undecided(rule, key, "the namespace of a schema reference in %s is not a TypeTarget constant" % fn.path, loc=fn.loc())
                continue
            R.check(rule, key, targets == {want_target}, "refers to the %s namespace" % want_target,
                    "%s builds a schema reference into namespace %s; this position must use %s" % (fn.path, sorted(targets), want_target), loc=fn.loc())
    R.floor(rule, "namespace references in " + short(fn.path), n, floor)


# =================================================================================================================== R02-d
def r02d(P, R):
    f = P.fn("<" + A + "type_system::ObjectTypeDefinition as " + PR + "schema_type_printer::type_printer::TypePrinter>::print_type")
    fi = _inl(P, f)
    _all_elements(P, R, "R02-d", fi, A + "type_system::ObjectTypeDefinition", "fields", "object fields (a missing key is dropped by Extract<keyof Orig, keyof Obj>)")
    pv = Prov(fi)
    lits = [x.get("v") for x in fi.walk() if x.get("k") == "Lit" and x.get("lk") == "str"]
    _tri(R, "R02-d", "typename-key", True if "__typename" in lits else None, "object declarations list __typename",
         und="no `__typename` literal in %s or its helpers: where the key is emitted is not recognised" % f.path, loc=f.loc())
    sl = [c for c in fi.walk() if c.get("k") == "Call" and norm(c.get("callee", "")).endswith("TSType::StringLiteral")]
    if not sl:
        R.undecided("R02-d", "typename-value", "no string-literal type is built in %s: the __typename member is not recognised" % f.path, loc=f.loc())
    else:
        ok = any(has_field(pv.deep_atoms(c["args"][0]), A + "type_system::ObjectTypeDefinition", "name") for c in sl)
        R.check("R02-d", "typename-value", ok, "__typename: \"<object name>\"", "__typename literal is not the object's name", loc=f.loc())


def _all_elements(P, R, rule, fn, adt, field, what):
    """the collection `adt.field` is consumed completely: no truncating adaptor on the chain that starts at it"""
    found = 0
    key = "all:%s.%s@%s" % (adt.split("::")[-1], field, short(fn.path))
    for c in fn.walk():
        if c.get("k") != "MethodCall":
            continue
        base, chain = method_chain(c)
        if base.get("k") == "Field" and norm(base.get("adt")) == adt and base["field"] == field:
            names = [x["method"] for x in chain]
            found += 1
            bad = [m for m in names if m in TRUNCATING]
            if bad:
                R.violated(rule, key, "%s applies %s to %s: some %s are dropped from the declaration" % (fn.path, bad, field, what), loc=fn.loc())
                return
            maybe = [m for m in names if m in ("filter", "filter_map", "retain")]
            if maybe:
                R.undecided(rule, key, "%s applies %s to %s: whether an element can be dropped is not decided" % (fn.path, maybe, field), loc=fn.loc())
                return
    loops = [n for n in fn.walk() if n.get("k") == "Match" and n.get("src") == "ForLoopDesugar"
             and any(x.get("k") == "Field" and norm(x.get("adt")) == adt and x["field"] == field for x in subnodes(n["scrut"]))]
    if found or loops:
        R.holds(rule, key, "every element of `%s` is emitted (%s)" % (field, what), loc=fn.loc())
    else:
        R.undecided(rule, key, "kind=anchor-missing: no iteration over `%s.%s` found in %s or its helpers" % (adt.split("::")[-1], field, fn.path), loc=fn.loc())


# =================================================================================================================== R02-e
def r02e(P, R):
    """merging of same-key fields: a field skipped in one occurrence but selected in another is present"""
    _sections(P, R, "R02-e", _e_table, _e_merge_used, _e_alias_spaces, _e_branches, _e_recursion, _e_fast_equal)


_MERGE_WANT = {("Empty", "Empty"): ("Empty", None), ("Leaf", "Leaf"): ("Leaf", None), ("Object", "Object"): ("Object", "both"),
               ("Leaf", "Empty"): ("Leaf", "left"), ("Empty", "Leaf"): ("Leaf", "right"),
               ("Object", "Empty"): ("Object", "left"), ("Empty", "Object"): ("Object", "right")}
STF = ST + "SelectionTreeField"


def _e_table(P, R):
    """the 7-cell merge table, read by evaluating the merge function over the variant tags with undetermined payloads (the payload of
    the left / right occurrence keeps its identity, so the table also says which side survives)"""
    f = _role(P, OT + "deep_merge::merge_fields", ["SelectionTreeField<", "SelectionTreeField<"], "SelectionTreeField<")
    mst = P.fn(OT + "deep_merge::merge_selection_trees", required=False)
    for (l, r), (wk, wside) in sorted(_MERGE_WANT.items()):
        key = "merge:(%s, %s)" % (l, r)
        box = {}

        def thunk(ab, l=l, r=r):
            box["L"], box["R"] = _Opq("left." + l, [("param", "left")]), _Opq("right." + r, [("param", "right")])
            ab.event("term", "L", None, box["L"])
            ab.event("term", "R", None, box["R"])
            return ab.call(f.path, [_Var(l, [box["L"]], STF), _Var(r, [box["R"]], STF)])
        paths = _explore(P, R, "R02-e", key, "merging a %s occurrence with a %s occurrence of one response key" % (l, r), f, thunk, [mst.path] if mst else [])
        if paths is None:
            continue
        got = set()
        for st, v, evs in paths:
            if st != "ok":
                continue
            v = _d(v)
            if not (isinstance(v, _Var) and v.name in ("Empty", "Leaf", "Object") and len(v.args) == 1):
                got.add(("?", None))
                continue
            org = _origin(v.args[0])
            side = {(True, False): "left", (False, True): "right", (True, True): "both", (False, False): "neither"}[(("param", "left") in org, ("param", "right") in org)]
            if v.name != "Object" and _d(v.args[0]) is _terms(evs)["L"]:
                side = "left"
            elif v.name != "Object" and _d(v.args[0]) is _terms(evs)["R"]:
                side = "right"
            got.add((v.name, side))
        if not got or ("?", None) in got:
            R.undecided("R02-e", key, "what %s returns for (%s, %s) is not a determined variant" % (f.path, l, r), loc=f.loc())
            continue
        bad = sorted(g for g in got if not (g[0] == wk and (wside is None or g[1] == wside or (wk != "Object" and wside in ("left", "right") and g[1] == "both" and False))))
        R.check("R02-e", key, not bad, "table: -> %s%s" % (wk, (" of the %s occurrence" % wside) if wside in ("left", "right") else ""),
                "table: merging a %s occurrence with a %s occurrence of the same response key yields %s (expected %s%s): %s"
                % (l, r, ", ".join("%s from %s" % g for g in bad), wk, (" from " + wside) if wside else "",
                   "a field that is selected in one of the occurrences becomes `?: never`" if any(g[0] == "Empty" for g in bad) else "the wrong occurrence is kept"), loc=f.loc())


def _e_merge_used(P, R):
    """two fields with the same (undetermined) response key: the de-duplication hands them, in order, to the merge table and keeps its result only"""
    d0 = P.fn(OT + "deep_merge::deep_merge_selection_tree")
    f = _role(P, OT + "deep_merge::merge_fields", ["SelectionTreeField<", "SelectionTreeField<"], "SelectionTreeField<")
    box = {}

    def thunk(ab):
        n = _Opq("response key")
        box["a"], box["b"] = _t_field(P, "empty", n), _t_field(P, "leaf", n, ty=_ty("T"))
        ab.event("term", "a", None, box["a"])
        ab.event("term", "b", None, box["b"])
        return ab.call(d0.path, [[box["a"], box["b"]]])
    paths = _explore(P, R, "R02-e", "merge-used", "how two fields of one response key are de-duplicated", d0, thunk, [f.path])
    if paths is None:
        return
    seen, bad = 0, None
    for st, v, evs in paths:
        if st != "ok":
            continue
        seen += 1
        calls = [ev for ev in evs if ev[0] == "call" and ev[1] == f.path]
        v = _d(v)
        if len(calls) != 1 or not (_d(calls[0][2][0]) is _terms(evs)["a"] and _d(calls[0][2][1]) is _terms(evs)["b"]):
            bad = "the two occurrences are %s" % ("not merged" if not calls else "merged %d times / in another order" % len(calls))
        elif not (isinstance(v, list) and len(v) == 1 and isinstance(_d(v[0]), _Opq) and ("call", f.path) in _d(v[0]).origin):
            bad = "the result is not the single merged field"
    _tri(R, "R02-e", "merge-used", None if not seen else bad is None, "table: two occurrences of one response key become the one field the merge table yields",
         "table: %s given [k: omitted, k: leaf]: %s — the later occurrence of a response key is dropped (or both stay), so a field selected in one occurrence "
         "can end up `?: never`" % (d0.path, bad), "no abstract path of %s returns normally" % d0.path, loc=d0.loc())


def _e_alias_spaces(P, R):
    """two tables that must agree: the field collector puts a field under `Left` exactly when it has no alias, and the branch builder takes the
    `Left` fields as the unaliased ones"""
    G = _gf_paths(P, R, "R02-e", ["alias-spaces:collector"])
    if G is not None:
        gf, paths, names = G
        AL = ("field", A + "selection_set::Field", "alias")
        seen, bad = 0, None
        for st, v, evs in paths:
            if st != "ok" or not isinstance(_d(v), list):
                continue
            alias = [ev[2] for ev in evs if ev[0] == "assume" and AL in ev[1] and ev[2] in ("Some", "None")]
            for x in _d(v):
                x = _d(x)
                fld = _d(x.args[0]) if isinstance(x, _Var) and x.name in ("Left", "Right") and x.args else None
                if isinstance(fld, _Var) and fld.name in ("Leaf", "Object", "Empty") and alias and not any(e[0] == "call" and e[1] == names["gf"] for e in evs):
                    seen += 1
                    if (x.name == "Left") != (alias[-1] == "None"):
                        bad = "%s for a field %s an alias" % (x.name, "without" if alias[-1] == "None" else "with")
        _tri(R, "R02-e", "alias-spaces:collector", None if not seen else bad is None, "paths: unaliased fields are collected as Left, aliased ones as Right",
             "paths: %s collects %s: the two key spaces are swapped against what the branch builder expects" % (gf.path, bad),
             "no abstract path of %s shows a field being collected together with the test of its alias" % gf.path, loc=gf.loc())
    if G is not None:
        gf, paths, names = G
        seen, bad = 0, None
        for st, v, evs in paths:
            if st != "ok" or not isinstance(_d(v), list):
                continue
            for ev in evs:
                if ev[0] == "elem" and ("call", names["gf"]) in ev[1]:
                    e = ev[2].kids.get("#elem")
                    if not (isinstance(e, _Opq) and isinstance(e.ref, _Var) and e.ref.name in ("Left", "Right")):
                        continue
                    inside = _progeny(e) | {id(e)}
                    for x in _d(v):
                        y = _d(x)
                        if isinstance(y, _Var) and y.name in ("Left", "Right") and (id(x) in inside or _progeny(y) & inside):
                            seen += 1
                            if y.name != e.ref.name:
                                bad = (e.ref.name, y.name)
        _tri(_Toward(R, ["wide"]), "R02-e", "alias-spaces:fragment", None if not seen else bad is None,
             "paths: a field a fragment contributes stays on its side (Left: unaliased, Right: aliased), skipped or not",
             "paths: %s re-emits a field that a fragment contributed as %s as %s (when the fragment is skipped): the `?: never` marker of an aliased key lands among "
             "the unaliased keys, where `Extract<keyof Orig, keyof Obj>` drops it — the skipped case admits objects that still carry the alias"
             % (gf.path, bad[0] if bad else "", bad[1] if bad else ""),
             "no abstract path of %s passes on a field that a fragment contributed with a determined side" % gf.path, loc=gf.loc())
    go = P.fn(OT + "type_printer::get_object_type_for_selection_set")
    dm = P.fn(OT + "deep_merge::deep_merge_selection_tree")
    gf0 = _gf(P)
    paths = _explore(P, R, "R02-e", "alias-spaces:builder", "which collected fields become the unaliased / aliased fields of a branch", go,
                     lambda ab: ab.call(go.path, _params(go, [])), [dm.path, gf0.path])
    if paths is None:
        return
    seen, bad = 0, None
    for st, v, evs in paths:
        v = _d(v)
        if st != "ok" or not isinstance(v, _Obj):
            continue
        side = [ev[2] for ev in evs if ev[0] == "assume" and ev[2] in ("Left", "Right") and ("call", gf0.path) in ev[1]]
        if not side:
            continue
        seen += 1
        un = {x[2] for x in _origin(v.f.get("unaliased_fields")) if x[0] == "variant" and x[2] in ("Left", "Right")}
        al = {x[2] for x in _origin(v.f.get("aliased_fields")) if x[0] == "variant" and x[2] in ("Left", "Right")}
        if (side[-1] == "Left" and (un != {"Left"} or al)) or (side[-1] == "Right" and (al != {"Right"} or un)):
            bad = "a %s field ends up among the %s fields" % (side[-1], "aliased" if (side[-1] == "Left") else "unaliased")
    _tri(R, "R02-e", "alias-spaces:builder", None if not seen else bad is None, "paths: Left fields become the unaliased fields of the branch, Right fields the aliased ones",
         "paths: in %s %s (Left = collected without alias): aliases are then matched against schema field names and field names are treated as aliases"
         % (go.path, bad), "no abstract path of %s splits the collected fields by Left / Right" % go.path, loc=go.loc())


POSITIONAL = ("<[T]>::get", "<[T]>::get_mut", "<[T]>::first", "<[T]>::last", "Iterator::nth", "Iterator::zip", "Iterator::enumerate", "Index::index", "Vec<T, A>::pop",
              "<[T]>::get_unchecked", "itertools::Itertools::zip_eq", "Iterator::last")
CONSUMING = {"remove", "swap_remove", "pop", "drain", "retain", "truncate", "clear", "split_off", "take", "extract_if", "remove_entry", "shift_remove", "swap_remove_entry"}


def _src_nodes(pv, e):
    """all nodes of `e` and, transitively, of the initialisers of the locals it mentions"""
    out, todo, seen = [], [e], set()
    while todo:
        n = todo.pop()
        for y in subnodes(n):
            out.append(y)
            if y.get("k") == "Path" and "local" in y and y["local"] not in seen:
                seen.add(y["local"])
                todo.extend(src for src, _ in pv.src.get(y["local"], []) if src is not None)
    return out


def _e_branches(P, R):
    """two occurrences of an object field: every branch of the one is merged with the branch of the same object type of the other.  Since one
    side can hold several branches per object type (one per @skip/@include assignment), the partner has to be looked up by `type_name` over
    the whole other side — not by position, and without using the other side up — and what is appended from the other side afterwards has
    to be tested against the type names already present."""
    g0 = P.fn(OT + "deep_merge::merge_selection_trees")
    g = _inl(P, g0)
    pv = Prov(g)
    acc = g.nodes()
    # partner lookups: expressions of type Option<..SelectionTreeBranch..> computed from the right side and inspected
    def is_partner(e):
        t = peel_ty(e.get("t") or "")
        return t.startswith("core::option::Option<") and "SelectionTreeBranch" in t and not (call_name(e) or "").endswith("Iterator::next")
    # locals that index the right side (a map / set filled from it)
    index_of_right = set()
    for n in g.walk():
        if n.get("k") == "MethodCall" and n["method"] in ("insert", "entry", "or_insert", "or_insert_with", "push", "extend") and n["args"]:
            base = n
            while base.get("k") == "MethodCall":
                base = base["recv"]
            if base.get("k") == "Path" and "local" in base and any(("param", "right") in pv.atoms(a) for x in [n] for a in x["args"]):
                index_of_right.add(base["local"])
    partners = []

    def from_right(e):
        if ("param", "right") in pv.atoms(e):
            return True
        return any(y.get("k") == "Path" and y.get("local") in index_of_right for y in _src_nodes(pv, e))
    for n in g.walk():
        k = n.get("k")
        e = n.get("scrut") if k == "Match" and n.get("src") == "Normal" and not n.get("x") else (n.get("init") if k in ("Let", "LetExpr") and (k == "LetExpr" or "els" in n) else None)
        if e is not None and is_partner(e) and from_right(e):
            partners.append(e)
    R.floor("R02-e", "partner-branch lookups in merge_selection_trees", len(partners), 1)
    for m in partners:
        a = pv.atoms(m)
        calls = {x[1] for x in pv.data_atoms(m) if x[0] == "call"}
        # a position that was itself looked up by `type_name` (an index map type name -> position) is a key, not a position
        src = _src_nodes(pv, m)
        by_key = lambda e: has_field(pv.atoms(e), STB, "type_name")
        pos_nodes = [x for x in src if x.get("k") in ("MethodCall", "Call") and any((call_name(x) or "").endswith(p) for p in POSITIONAL)]
        pos = sorted({call_name(x) for x in pos_nodes if not any(by_key(a) for a in x.get("args", []))} & {c for c in calls if any(c.endswith(p) for p in POSITIONAL)})
        indexed = any(x.get("k") == "Index" and not by_key(x["idx"]) for x in src)
        keyed = has_field(a, STB, "type_name")
        if pos or indexed:
            R.violated("R02-e", "branch-pairing", "merge_selection_trees picks the right-hand partner of a branch by position (%s): when one side has several "
                       "branches per object type (one per @skip/@include assignment) a branch is merged with the wrong partner or none, and loses the "
                       "other occurrence's fields" % (pos or "indexing"), loc=g0.loc())
        else:
            _tri(R, "R02-e", "branch-pairing", True if keyed else None, "the right-hand partner of a branch is found by `type_name`, never by position",
                 und="how the right-hand partner of a branch is selected is not recognised (no `type_name` in its computation)", loc=g0.loc())
    # a found partner is discarded only by a test that reads *all* it could contribute
    CONTENT = {"unaliased_fields", "aliased_fields"}
    partial = None
    conds = [n["cond"] for n in g.walk() if n.get("k") == "If"] + [a["guard"] for n in g.walk() if n.get("k") == "Match" for a in n["arms"] if "guard" in a]
    conds += [x["args"][0] for x in g.walk() if x.get("k") == "MethodCall" and x["method"] in ("filter", "take_if", "is_some_and", "is_none_or", "take_while", "skip_while", "retain")
              and x["args"] and x["args"][0].get("k") == "Closure"]
    for c in conds:
        a = pv.atoms(c)
        reads = {x[2] for x in a if x[0] == "field" and x[1] == STB and x[2] in CONTENT}
        if reads and reads != CONTENT and (("param", "right") in a or from_right(c)):
            partial = sorted(reads)
    if partners:
        R.check("R02-e", "branch-pairing:partner-content", partial is None, "a found partner is never discarded by a test on part of its content",
                "merge_selection_trees decides whether to use a right-hand branch by a test that reads only %s of it (not %s): a partner whose other field list is "
                "non-empty is treated as absent, its fields are not merged into the branch — a key selected there stays `?: never`"
                % (partial, sorted(CONTENT - set(partial or []))), loc=g0.loc())
    # a left branch is merged with one partner: the merged branch is not built once per right-hand branch of the type
    crossed = False
    for i, (n, _) in enumerate(acc):
        if n.get("k") == "MethodCall" and n["method"] in ("push", "push_back", "extend") and n["args"] and "SelectionTreeBranch" in peel_ty(n["recv"].get("t") or ""):
            da = pv.atoms(n["args"][-1])
            if ("param", "left") in da and (("param", "right") in da or from_right(n["args"][-1])):
                inner = [cx[1] for cx in enclosing_contexts(g, i) if cx[0] == "loop"]
                srcs = [_loop_source(g, lp) for lp in inner]
                over_right = [x for x in srcs if x is not None and "SelectionTreeBranch" in peel_ty(x.get("t") or "")
                              and (("param", "right") in pv.atoms(x) or from_right(x)) and ("param", "left") not in pv.data_atoms(x)]
                if over_right:
                    reads = {y[2] for x in over_right for y in pv.atoms(x) if y[0] == "field" and y[1] == STB}
                    if reads <= {"type_name", "unaliased_fields", "aliased_fields"}:
                        crossed = True
    if partners or crossed:
        _Toward(R, ["wide"]).check("R02-e", "branch-pairing:one-partner", not crossed, "a branch is merged with one partner",
                "merge_selection_trees builds a merged branch for *every* right-hand branch of the same object type (a loop over the right side selected by "
                "`type_name` alone): branches do not carry the assignment they were generated under, so a left branch made for $v = false is also combined with the "
                "right branch made for $v = true — the union gains members no execution can return", loc=g0.loc())
    # the right side is not used up while the left branches are paired
    loops = [(i, n) for i, (n, _) in enumerate(acc) if n.get("k") == "Match" and n.get("src") == "ForLoopDesugar" and ("param", "left") in pv.atoms(n["scrut"])]
    used_up = []
    for i, lp in loops:
        for c in subnodes(lp["arms"][0]["body"]) if lp.get("arms") else []:
            if c.get("k") == "MethodCall" and c["method"] in CONSUMING:
                ra = pv.atoms(c["recv"])
                if ("param", "right") in ra and ("param", "left") not in pv.data_atoms(c["recv"]):
                    used_up.append(c["method"])
    if partners:
        R.check("R02-e", "branch-pairing:right-side-kept", not used_up, "pairing does not use up the right-hand branches",
                "merge_selection_trees removes the matched branch from the right side while the left branches are paired (%s): of several left branches of one "
                "object type (one per @skip/@include assignment) only the first still finds its partner, the others keep only their own fields — the "
                "union then has a member in which an unconditionally selected field is not required" % sorted(set(used_up)), loc=g0.loc())
    # leftover right branches
    appends = []
    for i, (n, _) in enumerate(acc):
        if n.get("k") == "MethodCall" and n["method"] in ("push", "extend", "append", "push_back", "extend_from_slice", "insert") and n["args"] \
                and "SelectionTreeBranch" in peel_ty(n["recv"].get("t") or "") and peel_ty(n["recv"].get("t") or "").startswith(("alloc::vec::Vec<", "alloc::collections::")):
            arg = n["args"][-1]
            da = pv.data_atoms(arg)
            if ("param", "right") in da and ("param", "left") not in da:
                appends.append((i, n, arg))
    if not appends:
        R.undecided("R02-e", "branch-leftover", "where merge_selection_trees adds the branches that only the right side has is not recognised", loc=g0.loc())
    for i, n, arg in appends[:1]:
        guards = [c[1]["cond"] for c in enclosing_contexts(g, i) if c[0] in ("if-then", "if-else")]
        guards += [x["args"][0] for x in _src_nodes(pv, arg) if x.get("k") == "MethodCall" and x["method"] in ("filter", "retain", "skip_while", "take_while", "extract_if", "filter_map") and x["args"]]
        # a `retain` / filter applied beforehand to what is appended
        for x in g.walk():
            if x.get("k") == "MethodCall" and x["method"] in ("retain", "extract_if", "dedup_by_key") and x["args"] and ("param", "right") in pv.atoms(x["recv"]):
                guards.append(x["args"][0])
        keyed = any(has_field(pv.atoms(c), STB, "type_name") for c in guards)
        if not guards:
            R.violated("R02-e", "branch-leftover", "merge_selection_trees appends the remaining right-hand branches without testing whether a branch of the same "
                       "object type is already present: a right branch whose type already has a (merged) branch is added once more, un-merged, so the union "
                       "has a member lacking the other occurrence's fields", loc=g0.loc())
        else:
            _tri(R, "R02-e", "branch-leftover", True if keyed else None, "right-only branches are kept (presence tested by type_name)",
                 und="the test under which right-hand branches are appended does not mention `type_name`; it is not recognised", loc=g0.loc())


def _e_recursion(P, R):
    recursion_discipline(P, R, "R02-e", [P.fn(OT + "deep_merge::merge_selection_trees")])


def _e_fast_equal(P, R):
    _fast_equal_sound(P, R, "R02-e")


def _fast_equal_sound(P, R, rule):
    """`fast_equal(a, b) == true` must imply the two TypeScript types are the same type: it licenses `dedup_by(fast_equal)` in
    ts_union / ts_intersection, where a false `true` silently removes a member (a variable, a branch). Per arm: both patterns name the
    same variant, every bound component takes part in the result, and object members are compared on key, type, readonly and optional
    if they are compared at all."""
    f0 = P.fn("nitrogql_printer::ts_types::fast_equal::fast_equal")
    f = _inl(P, f0)
    ms = [m for m in f.walk() if m.get("k") == "Match" and not m.get("x") and m["scrut"].get("k") == "Tup"]
    R.floor(rule, "fast_equal table", len(ms), 1)
    if not ms:
        return
    OF = "nitrogql_printer::ts_types::ObjectField"
    n = 0
    for arm in ms[0]["arms"]:
        pat, body = arm["pat"], arm["body"]
        while body.get("k") == "BlockExpr" and not body["b"].get("stmts") and body["b"].get("tail"):
            body = body["b"]["tail"]
        v = lit_value(body)
        if v is False and not arm.get("guard"):
            continue
        n += 1
        if pat.get("k") != "Tuple" or len(pat.get("ps", [])) != 2:
            if v is True:
                R.violated(rule, "fast-equal:catch-all", "fast_equal answers `true` for a catch-all pattern: unrelated types compare equal", loc=f.loc())
            else:
                R.undecided(rule, "fast-equal:catch-all", "fast_equal computes its answer under a catch-all pattern; the comparison is not recognised", loc=f.loc())
            continue
        l, r = pat["ps"]
        lv, rv = norm(l.get("ctor_of") or l.get("def") or ""), norm(r.get("ctor_of") or r.get("def") or "")
        name = lv.split("::")[-1] or "?"
        if not lv or not rv:
            R.undecided(rule, "fast-equal:%s" % name, "an arm of fast_equal that can answer true does not name a variant on both sides", loc=f.loc())
            continue
        if lv != rv:
            R.violated(rule, "fast-equal:%s" % name, "fast_equal can answer true for two different variants (%s vs %s)" % (lv, rv), loc=f.loc())
            continue
        binds = [b for b in subnodes(pat) if b.get("k") == "Binding"]
        used = {y.get("local") for y in subnodes(body) if y.get("k") == "Path" and "local" in y}
        wild = [w for w in subnodes(pat) if w.get("k") == "Wild"]
        unused = [b["name"] for b in binds if b["local"] not in used]
        ok = not unused and not (wild and v is not False)
        reads = {y["field"] for y in subnodes(body) if y.get("k") == "Field" and norm(y.get("adt", "")) == OF}
        need = {"key", "type", "readonly", "optional"}
        if reads and not need <= reads:
            ok = False
            why = "object members are compared on %s only (missing %s): two objects with different %s are `equal`" % (sorted(reads), sorted(need - reads), sorted(need - reads))
        else:
            why = "components %s do not take part in the comparison" % (unused or "behind `_`")
        R.check(rule, "fast-equal:%s" % name, ok, "%s: all components compared" % name, "fast_equal(%s, %s): %s, so dedup_by(fast_equal) can drop a "
                "member that is not a duplicate" % (name, name, why), loc=f.loc())
    R.floor(rule, "fast_equal arms that can answer true", n, 10)


# =================================================================================================================== R02-f
def r02f(P, R):
    """only possible (type, variables) branches: type-condition filter and skip/include tables"""
    _sections(P, R, "R02-f", _f_condition_table, _f_sites, _f_skipped_fragment, _f_spread_twice, _f_same_key_twice, _f_skip_table, _f_variables, _f_skip_coverage, _f_possible_types)


def _f_condition_table(P, R):
    f0 = _role(P, OT + "type_printer::check_fragment_condition", ["QueryTypePrinterContext", "ObjectDefinition", "str"], "bool")
    f = _inl(P, f0)
    pv = Prov(f)
    objs = [pv.params.get(p.get("local")) for p in f0.params if p.get("k") == "Binding" and "ObjectDefinition" in str(p.get("t", ""))]
    ms = matches_on(f, "TypeDefinition")
    if not ms:
        R.undecided("R02-f", "type-condition:table", "no `match` over TypeDefinition in %s or its helpers: how the kinds of type condition are told apart is "
                    "not recognised" % f0.path, loc=f0.loc())
    for m in _kind_match(ms):
        tab = variant_table(m)
        need = {"Object": [(TSD + "ObjectDefinition", "name")], "Interface": [(TSD + "ObjectDefinition", "interfaces"), (TSD + "InterfaceDefinition", "name")],
                "Union": [(TSD + "UnionDefinition", "possible_types"), (TSD + "ObjectDefinition", "name")]}
        for k, fields in sorted(need.items()):
            arm = tab.get(k) or tab.get("_")
            if arm is None or len(objs) != 1:
                R.undecided("R02-f", "type-condition:" + k, "the arm for %s conditions / the parameter holding the branch's object is not recognised" % k, loc=f0.loc())
                continue
            a = pv.deep_atoms(arm["body"])
            ok = ("param", objs[0]) in a and all(has_field(a, ad, fl) for ad, fl in fields)
            R.check("R02-f", "type-condition:" + k, ok, "a %s condition is compared with the branch's object type" % k,
                    "check_fragment_condition does not relate a %s type condition to the branch's concrete object type: fragments on that "
                    "kind are applied to every branch (keys appear in types of objects that never have them)" % k, loc=f0.loc())
        # the question is "does the object (through the interfaces it lists) reach the fragment's interface": whatever is expanded to *its*
        # interfaces must come from the object's side, never from the fragment's condition
        if len(objs) == 1:
            up = []
            for x in f.walk():
                if x.get("k") == "Field" and norm(x.get("adt") or "") == TSD + "InterfaceDefinition" and x["field"] == "interfaces":
                    a = pv.atoms(x["e"])
                    from_obj = ("param", objs[0]) in a or has_field(a, TSD + "ObjectDefinition", "interfaces")
                    from_cond = any(y[0] == "param" and y[1] != objs[0] and "str" in str(next((p.get("t") for p in f0.params if pv.params.get(p.get("local")) == y[1]), "")) for y in a) \
                        or has_field(a, TSD + "InterfaceDefinition", "name")
                    up.append((from_obj, from_cond))
            wrong = [u for u in up if u[1] and not u[0]]
            if up:
                R.check("R02-f", "type-condition:Interface:direction", not wrong, "interfaces are walked upwards from the object's side only",
                        "check_fragment_condition expands the interfaces of the *fragment's* interface (a value computed from the type condition, not from the "
                        "branch's object) and compares them with what the object lists: it asks whether the condition implements one of the object's interfaces "
                        "instead of the reverse, so a fragment on a sub-interface is applied to every object of the super-interface", loc=f0.loc())
        pos = _positional_over(f, {(TSD + "ObjectDefinition", "interfaces"), (TSD + "UnionDefinition", "possible_types")})
        R.check("R02-f", "type-condition:every-element", not pos, "all interfaces of the object / all members of the union are compared",
                "check_fragment_condition looks at %s by position (%s): an object is matched against its first interface / a union against its first member "
                "only, fragments on the others are dropped from (or wrongly applied to) the branch" % (sorted({a for a, _ in pos}), sorted({b for _, b in pos})), loc=f0.loc())
        for k in ("Scalar", "Enum", "InputObject"):
            arm = tab.get(k) or tab.get("_")
            v = lit_value(arm["body"]) if arm is not None else None
            _tri(R, "R02-f", "type-condition:" + k, True if v is False else (False if v is True else None), "never applies", "%s conditions apply" % k,
                 "what a %s condition evaluates to is not a literal" % k, loc=f0.loc())


POSITIONAL_METHODS = {"first", "last", "nth", "get", "take", "skip", "step_by", "first_mut", "last_mut", "split_first", "split_last"}


def _kind_match(ms):
    """of several matches over TypeDefinition, the kind table: the first one with explicit arms for Object, Interface and Union"""
    full = [m for m in ms if {"Object", "Interface", "Union"} <= set(variant_table(m))]
    return (full or ms)[:1]


def _positional_over(fn, fields):
    """[(field, method)]: method chains that start at one of the schema collections `fields` [(adt, field)] and pick elements by position"""
    out = []
    for c in fn.walk():
        if c.get("k") != "MethodCall":
            continue
        base, chain = method_chain(c)
        if base.get("k") == "Field" and (norm(base.get("adt") or ""), base["field"]) in fields:
            names = [x["method"] for x in chain]
            for i, m in enumerate(names):
                if m in POSITIONAL_METHODS or (m in ("next", "next_back") and not any(p in ("filter", "filter_map", "skip_while", "map_while", "find") for p in names[:i])):
                    out.append((base["field"], m))
    return sorted(set(out))


def _f_sites(P, R):
    """on every abstract path of get_fields_for_selection_set, the fields of a fragment (spread or conditioned inline fragment) are collected
    only after the type-condition filter — given the branch's object and that fragment's condition — was found to apply"""
    G = _gf_paths(P, R, "R02-f", ["type-condition:sites"])
    if G is None:
        return
    gf, paths, names = G
    FRAG = {("field", A + "operation::FragmentDefinition", "selection_set"): ("a fragment spread", ("field", A + "operation::FragmentDefinition", "type_condition")),
            ("field", A + "selection_set::InlineFragment", "selection_set"): ("an inline fragment", ("field", A + "selection_set::InlineFragment", "type_condition"))}
    seen, bad, unfed = {}, None, None
    for st, v, evs in paths:
        if st != "ok":
            continue
        applies = []         # the filter calls whose result was taken to be true so far on this path
        filt = {}
        no_condition = False
        for ev in evs:
            if ev[0] == "call" and ev[1] == names["cfc"]:
                filt[id(ev)] = ev
            elif ev[0] == "assume" and any(x[0] == "call" and x[1] == names["cfc"] for x in ev[1]) and ("eq",) not in ev[1]:
                if ev[2] is True:
                    applies.append(ev)
            elif ((ev[0] == "assume" and ev[2] == "None") or (ev[0] == "assume-not" and ev[2] == "Some")) \
                    and FRAG[("field", A + "selection_set::InlineFragment", "selection_set")][1] in ev[1]:
                no_condition = True       # (`None => ..` and `Some(c) if .. => .., _ => ..` both say: no type condition)
            elif ev[0] == "call" and ev[1] == names["gf"]:
                ss = [a for a, p in zip(ev[2], gf.sig_inputs) if "SelectionSet" in p]
                org = _origin(ss[0]) if len(ss) == 1 else set()
                for atom, (what, cond_atom) in FRAG.items():
                    if atom in org:
                        seen[what] = seen.get(what, 0) + 1
                        if not applies and not (no_condition and what == "an inline fragment"):
                            bad = what
        for ev in filt.values():
            org = set()
            for a in ev[2]:
                org |= _origin(a)
            if ("field", BC, "parent_obj") not in org:
                unfed = "the branch's object (`parent_obj`)"
            elif not any(c in org for _, c in FRAG.values()):
                unfed = "the fragment's type condition"
    # what an applying, unskipped fragment contributes is collected under the *current* branch (by the collector itself), not taken from elsewhere
    FS, FDIR = ("variant", A + "selection_set::Selection", "FragmentSpread"), {("field", A + "selection_set::FragmentSpread", "directives"), ("field", A + "selection_set::InlineFragment", "directives")}
    stale = 0
    for st, v, evs in paths:
        if st != "ok" or any(e[0] == "capped" for e in evs) or any(e[0] == "call" and e[1] == names["gf"] for e in evs):
            continue
        applies = any(e[0] == "assume" and e[2] is True and ("eq",) not in e[1] and any(x[0] == "call" and x[1] == names["cfc"] for x in e[1]) for e in evs)
        skipped = any(e[0] == "assume" and e[2] is True and ("eq",) not in e[1] and any(x[0] == "call" and x[1] == names["csd"] for x in e[1]) and FDIR & set(e[1]) for e in evs)
        is_spread = any(e[0] == "assume" and e[2] in ("FragmentSpread", "InlineFragment") for e in evs)
        r = _d(v)
        walked = any(e[0] == "iter" and any(a in e[1] for a, _ in FRAG.items()) for e in evs)
        if applies and is_spread and not skipped and not walked and ((isinstance(r, list) and r) or isinstance(r, _Opq)):
            stale += 1
    if stale:
        R.violated("R02-f", "type-condition:under-this-branch", "paths: %s contributes the fields of an applying, unskipped fragment without collecting them under the current "
                   "branch (no walk of the fragment's selection set with this branch's variable values): what is contributed was computed for other values of the "
                   "variables — `?: never` markers of different assignments are mixed in one union member" % gf.path, loc=gf.loc())
    elif len(seen) == 2:
        R.holds("R02-f", "type-condition:under-this-branch", "paths: the fields of a fragment are collected under the current branch", loc=gf.loc())
    if bad:
        R.violated("R02-f", "type-condition:sites", "paths: %s collects the fields of %s on a path on which the type-condition filter (%s) was not found to apply: "
                   "keys of a fragment appear in the branches of objects the fragment does not apply to" % (gf.path, bad, short(names["cfc"])), loc=gf.loc())
    elif unfed:
        R.violated("R02-f", "type-condition:sites", "paths: the type-condition filter is not given %s" % unfed, loc=gf.loc())
    else:
        _tri(R, "R02-f", "type-condition:sites", True if len(seen) == 2 else None, "paths: fragment spreads and conditioned inline fragments are collected only under "
             "their type condition; an inline fragment without condition always applies",
             und="not both kinds of fragment are seen being collected on the abstract paths of %s (%s)" % (gf.path, sorted(seen)), loc=gf.loc())


def _f_skipped_fragment(P, R):
    """a fragment that is skipped as a whole contributes a `?: never` marker for every key it would contribute otherwise: on every abstract path that
    takes the skip test of a fragment to be true, the keys come from the collector's own walk of the fragment's selection set — or, if they are
    computed otherwise, no selection of that set is dropped without being descended into"""
    G = _gf_paths(P, R, "R02-f", ["skip-table:skipped-fragment-keys"])
    if G is None:
        return
    gf, paths, names = G
    SEL = ("field", A + "selection_set::SelectionSet", "selections")
    INNER = (("field", A + "operation::FragmentDefinition", "selection_set"), ("field", A + "selection_set::InlineFragment", "selection_set"))
    FD = {("field", A + "selection_set::FragmentSpread", "directives"), ("field", A + "selection_set::InlineFragment", "directives")}
    seen, bad = 0, None
    for st, v, evs in paths:
        if st != "ok":
            continue
        skipped = any(e[0] == "assume" and e[2] is True and ("eq",) not in e[1] and any(x[0] == "call" and x[1] == names["csd"] for x in e[1]) and FD & set(e[1]) for e in evs)
        if not skipped or any(e[0] == "capped" for e in evs):
            continue
        seen += 1
        if any(e[0] == "call" and e[1] == names["gf"] and any(a in _origin(x) for x in e[2] for a in INNER) for e in evs):
            continue
        for i, e in enumerate(evs):
            if e[0] == "elem" and SEL in e[1] and any(a in e[1] for a in INNER):
                el = e[2].kids.get("#elem")
                not_field = any(x[0] == "assume-not" and x[2] == "Field" and x[3] is el for x in evs) or (isinstance(el.ref, _Var) and el.ref.name != "Field")
                inside = _progeny(el)       # (by identity: provenance sets do not count how deep a nested fragment sits)
                deeper = any((x[0] == "iter" and id(x[2]) in inside) or (x[0] == "call" and any(id(_d(a)) in inside or id(a) in inside for a in x[2])) for x in evs[i + 1:])
                if not_field and not deeper:
                    bad = True
    _tri(_Toward(R, ["wide"]), "R02-f", "skip-table:skipped-fragment-keys", None if not seen else bad is None,
         "paths: a skipped fragment yields a marker for every key the fragment contributes",
         "paths: for a fragment whose @skip/@include excludes it, %s computes the `?: never` markers without its own walk of the fragment's selection set, and drops "
         "a selection of that set that is not a field (a nested spread / inline fragment) without descending into it: the keys nested fragments contribute get no "
         "marker, so the skipped branch admits objects that carry them" % gf.path,
         "no abstract path of %s takes the skip test of a fragment to be true" % gf.path, loc=gf.loc())


def _f_spread_twice(P, R):
    """a fragment spread twice in one selection set: whether the second spread is expanded must not depend on the first one having been *skipped* (its
    markers say "absent", the second spread may say "present").  Read from the collector's paths on the selection list [...F d1, ...F d2] with an
    applying type condition: a path that takes the skip test of the first spread to be true and then neither expands the fragment again nor looks at the second spread's
    directives is the evidence."""
    gf = _gf(P)
    cfc = _role(P, OT + "type_printer::check_fragment_condition", ["QueryTypePrinterContext", "ObjectDefinition", "str"], "bool")
    csd = _csd(P)
    gt = P.fn(OT + "type_printer::get_type_for_selection_set")
    ext = P.fn("nitrogql_semantics::direct_fields_of_output_type::direct_fields_of_output_type", required=False)
    key = "spread-twice"

    def thunk(ab):
        name = _Opq("F")
        d = [_Opq("directives of the first spread", [("term", "d1")]), _Opq("directives of the second spread", [("term", "d2")])]
        sels = [_t_var(P, A + "selection_set::Selection", "FragmentSpread",
                       [_t_obj(P, A + "selection_set::FragmentSpread", {"fragment_name": _t_ident(P, name), "directives": x})]) for x in d]
        ss = _t_obj(P, A + "selection_set::SelectionSet", {"selections": sels})
        return ab.call(gf.path, _params(gf, [("SelectionSet", ss)]), top=True)
    stops = [gf.path, cfc.path, csd.path, gt.path] + ([ext.path] if ext else [])
    try:
        paths = _Abs(P, stops, hooks={cfc.path: lambda ab, args: True}).explore(thunk)
    except (_Unknown, AnchorMissing) as e:
        R.undecided("R02-f", key, "the abstract evaluation of %s does not decide how a fragment spread twice is collected (%s)" % (gf.path, e), loc=gf.loc())
        return
    except (KeyError, IndexError, TypeError, AttributeError, RecursionError, ValueError) as e:
        R.undecided("R02-f", key, "the abstract evaluation of %s does not decide this (evaluator: %r)" % (gf.path, e), loc=gf.loc())
        return
    seen = lost = 0
    for st, v, evs in paths:
        if st != "ok" or any(e[0] == "capped" for e in evs):
            continue
        first_skipped = any(e[0] == "assume" and e[2] is True and ("term", "d1") in e[1] and any(x[0] == "call" and x[1] == csd.path for x in e[1]) for e in evs)
        if not first_skipped:
            continue
        seen += 1
        second_looked_at = any(e[0] == "call" and e[1] == csd.path and any(("term", "d2") in _origin(a) for a in e[2]) for e in evs)
        if sum(1 for e in evs if e[0] == "call" and e[1] == gf.path) < 2 and not second_looked_at:
            lost += 1
    _tri(_Toward(R, ["narrow"]), "R02-f", key, None if not seen else not lost,
         "paths: a fragment spread again after a skipped spread of it is expanded again",
         "paths: given `...F @dir1 ...F @dir2`, %s has a path on which the first spread is skipped and the fragment is not expanded for the second one (state "
         "recorded for the first spread — before its @skip/@include was looked at — suppresses it): the fragment's fields stay `?: never` although the second spread "
         "selects them, real responses are not members of the type" % gf.path,
         "no abstract path of %s takes the skip test of the first of two spreads to be true" % gf.path, loc=gf.loc())


def _f_same_key_twice(P, R):
    """one composite response key selected twice as siblings, the first occurrence under a directive: on a path that takes the first occurrence to be
    skipped and the second not, the sub-selection that is typed for the key must not contain the first occurrence's selections (a skipped
    occurrence contributes `?: never` at most).  Read from the collector's paths on [k d1 { s1 }, k d2 { s2 }]."""
    gf = _gf(P)
    cfc = _role(P, OT + "type_printer::check_fragment_condition", ["QueryTypePrinterContext", "ObjectDefinition", "str"], "bool")
    csd = _csd(P)
    gt = P.fn(OT + "type_printer::get_type_for_selection_set")
    ext = P.fn("nitrogql_semantics::direct_fields_of_output_type::direct_fields_of_output_type", required=False)
    key = "same-key-twice"

    def thunk(ab):
        name = _Opq("k")
        sels = []
        for i in ("1", "2"):
            sub = _t_obj(P, A + "selection_set::SelectionSet", {"selections": _Opq("selections of occurrence " + i, [("term", "s" + i)])})
            sels.append(_t_var(P, A + "selection_set::Selection", "Field", [_t_obj(P, A + "selection_set::Field", {
                "alias": _none(), "name": _t_ident(P, name), "directives": _Opq("directives of occurrence " + i, [("term", "d" + i)]), "selection_set": _some(sub)})]))
        ss = _t_obj(P, A + "selection_set::SelectionSet", {"selections": sels})
        return ab.call(gf.path, _params(gf, [("SelectionSet", ss)]), top=True)
    stops = [gf.path, cfc.path, csd.path, gt.path] + ([ext.path] if ext else [])
    try:
        paths = _Abs(P, stops).explore(thunk)
    except (_Unknown, AnchorMissing) as e:
        R.undecided("R02-f", key, "the abstract evaluation of %s does not decide how a composite key selected twice is collected (%s)" % (gf.path, e), loc=gf.loc())
        return
    except (KeyError, IndexError, TypeError, AttributeError, RecursionError, ValueError) as e:
        R.undecided("R02-f", key, "the abstract evaluation of %s does not decide this (evaluator: %r)" % (gf.path, e), loc=gf.loc())
        return
    seen = leaked = 0
    for st, v, evs in paths:
        if st != "ok":
            continue
        def taken(d, val):
            return any(e[0] == "assume" and e[2] is val and ("eq",) not in e[1] and ("term", d) in e[1] and any(x[0] == "call" and x[1] == csd.path for x in e[1]) for e in evs)
        if not (taken("d1", True) and taken("d2", False)):
            continue
        seen += 1
        for e in evs:
            if e[0] == "call" and e[1] == gt.path and any(("term", "s1") in _origin(a) for a in e[2]):
                leaked += 1
    _tri(_Toward(R, ["narrow"]), "R02-f", key, None if not seen else not leaked,
         "paths: the selections of an occurrence that is skipped in this branch are not typed into the key's sub-selection",
         "paths: given `k @dir1 { s1 } k @dir2 { s2 }`, %s has a path on which the first occurrence is skipped, the second is not, and the sub-selection typed for `k` "
         "still contains s1: fields selected only by a skipped occurrence are required, the response the server sends in that case is not a member of the type" % gf.path,
         "no abstract path of %s takes the first of two occurrences of a key to be skipped and the second not" % gf.path, loc=gf.loc())


def _progeny(o):
    """ids of the undetermined values that are components (fields, payloads, elements, ...) of `o`, `o` excluded"""
    out, todo = set(), [o]
    while todo:
        x = todo.pop()
        kids = []
        if isinstance(x, _Opq):
            kids = [k for k in x.kids.values() if not isinstance(k, int)] + ([x.ref] if x.ref is not None else [])
        elif isinstance(x, _Var):
            kids = list(x.args)
        elif isinstance(x, _Obj):
            kids = list(x.f.values())
        elif isinstance(x, (tuple, list)):
            kids = list(x)
        for k in kids:
            if id(k) not in out and isinstance(k, (_Opq, _Var, _Obj, tuple, list)):
                out.add(id(k))
                todo.append(k)
    return out


def _f_lookup_consistent(P):
    """does the skip test read *one* value per variable?  With a branch that lists the (undetermined) variable $a twice, with different values, exactly one
    of @skip(if: $a) / @include(if: $a) omits the selection (whichever entry the look-up takes) -> True; both or neither -> False; not read -> None"""
    f = _csd(P)
    out = []
    for order in ((True, False), (False, True)):
        res = {}
        for d in ("skip", "include"):
            def thunk(ab, d=d, order=order):
                n = _Opq("$a")
                br = _t_obj(P, BC, {"boolean_variables": [(n, order[0]), (n, order[1])]})
                return ab.truth(ab.call(f.path, _params(f, [("BranchingCondition", br), ("Directive", [_t_directive(P, d, ("var", n))])])))
            try:
                vals = {v for st, v, _ in _Abs(P).explore(thunk) if st == "ok"}
            except (_Unknown, KeyError, IndexError, TypeError, AttributeError, RecursionError, ValueError):
                return None
            if len(vals) != 1:
                return None
            res[d] = vals.pop()
        out.append(res["skip"] != res["include"])
    return all(out)


def _f_skip_table(P, R):
    """the @skip/@include table, read off the abstract paths of the skip test over one undetermined directive: (directive name literal, kind of
    the `if` value, boolean) -> skipped / kept and the scan goes on / kept and the scan stops"""
    f = _csd(P)
    keys = ["skip-table:@skip", "skip-table:@include", "skip-table:every-directive"]
    roles = {}

    def thunk(ab):
        args = _params(f, [])
        for a, t in zip(args, f.sig_inputs):
            if "Directive" in t:
                roles["dirs"] = a.origin
        return ab.truth(ab.call(f.path, args))
    paths = _explore(P, R, "R02-f", keys, "the @skip/@include table", f, thunk)
    if paths is None:
        return
    DN, BV, LV = ("field", A + "directive::Directive", "name"), ("field", BC, "boolean_variables"), ("field", A + "value::BooleanValue", "value")
    rows = {}       # (name, cond) -> set of (skipped, stops)
    for st, v, evs in paths:
        if st != "ok" or not any(ev[0] == "elem" and roles.get("dirs", frozenset(["-"])) <= ev[1] and DN not in ev[1] for ev in evs):
            continue
        name, cond, other = None, None, False
        for ev in evs:
            if ev[0] == "assume" and DN in ev[1] and isinstance(ev[2], str) and ("variant", None, None) not in ev[1] and not any(x[0] == "field" and x[2] == "arguments" for x in ev[1]):
                name = ev[2]
            elif ev[0] == "assume-not" and DN in ev[1] and not any(x[0] == "field" and x[2] == "arguments" for x in ev[1]):
                other = True
            elif ev[0] == "assume" and isinstance(ev[2], bool) and ("eq",) not in ev[1] and (BV in ev[1] or LV in ev[1]) \
                    and not any(x[0] == "call" and x[1] in ("contains", "any", "all", "position", "binary_search") for x in ev[1]):
                cond = ev[2]
        if name is None and not other:
            continue
        stops = any(ev[0] == "ret-in-iter" and ev[3] == f.path for ev in evs)
        rows.setdefault((name if name is not None else "<other>", cond), set()).add((v, stops and v is False))
    if not rows:
        for k in keys:
            R.undecided("R02-f", k, "no abstract path of %s inspects the name of a directive of its argument" % f.path, loc=f.loc())
        return
    for name, skip_when in (("skip", True), ("include", False)):
        key = "skip-table:@" + name
        have = {c: r for (n, c), r in rows.items() if n == name and c is not None}
        if set(have) != {True, False}:
            R.undecided("R02-f", key, "the rows of @%s for a true and a false condition are not both found on the abstract paths of %s" % (name, f.path), loc=f.loc())
            continue
        bad = []
        for c in (True, False):
            for skipped, _ in have[c]:
                if skipped != (c == skip_when):
                    bad.append("with a %s condition the selection is %s" % (str(c).lower(), "omitted" if skipped else "kept"))
        R.check("R02-f", key, not bad, "table: @%s omits the selection exactly when its condition (variable or literal) is %s" % (name, str(skip_when).lower()),
                "table: in %s, for @%s %s (the spec omits it exactly when the condition is %s)" % (f.path, name, "; ".join(sorted(set(bad))), str(skip_when).lower()), loc=f.loc())
    stopping = sorted({"@%s with a %s condition" % (n, str(c).lower()) if c is not None else "@%s" % n for (n, c), r in rows.items() if any(s for _, s in r)})
    R.check("R02-f", "skip-table:every-directive", not stopping, "table: a directive that does not omit the selection never ends the scan of the directives",
            "table: %s answers `kept` from inside its scan of the directives for %s: a @skip/@include written after it on the same selection is ignored, the field "
            "is typed as present although the server omits it" % (f.path, ", ".join(stopping)), loc=f.loc())


def _f_variables(P, R, rule="R02-f"):
    """every boolean variable of every @skip/@include of every selection is enumerated: (a) no path of the enumeration returns an empty list after
    having met a selection without handing the selection set to the visitor, (b) the traversal of a selection's directives is lossless"""
    f0 = _role(P, OT + "type_printer::get_boolean_variables", ["QueryTypePrinterContext", "SelectionSet"], "Vec<&")
    vis = _vis(P)
    # (a)
    paths = _explore(P, R, rule, "variables-every-selection", "whether every selection reaches the visitor", f0,
                     lambda ab: ab.call(f0.path, _params(f0, [])), [vis.path])
    if paths is not None:
        SEL = ("field", A + "selection_set::SelectionSet", "selections")
        visited = lost = 0
        for st, v, evs in paths:
            if st != "ok":
                continue
            met = any(ev[0] == "elem" and SEL in ev[1] for ev in evs)
            called = any(ev[0] == "call" and ev[1] == vis.path for ev in evs)
            visited += called
            if met and not called and isinstance(_d(v), list) and not _d(v):
                lost += 1
        if lost:
            _Toward(R, _var_dirs(P)).violated(rule, "variables-every-selection", "paths: %s has a path that has met a selection of its selection set and returns no variables without handing "
                       "the selection set to the visitor: a variable used by @skip/@include inside that selection (e.g. on the fields of a directive-less "
                       "fragment) is not branched on, so fields guarded by it are typed as if all of them were present at once" % f0.path, loc=f0.loc())
        else:
            _tri(R, rule, "variables-every-selection", True if visited else None, "paths: every path that has met a selection hands the selection set to the visitor",
                 und="no abstract path of %s calls %s" % (f0.path, vis.path), loc=f0.loc())
    _f_enumeration_table(P, R, rule, f0, vis)
    _f_visitor(P, R, rule, vis)
    # (b)
    f = _inl(P, f0)
    acc = f.nodes()
    DIR = "directive::Directive"
    exits, partial, loops = [], [], 0
    for i, (n, _) in enumerate(acc):
        k = n.get("k")
        if k in ("Break", "Ret") and not n.get("x"):
            for c in enclosing_contexts(f, i):
                if c[0] == "closure":
                    # leaving a closure: fine if the closure is an adaptor's over something else than directives
                    call = [m for m in f.walk() if m.get("k") == "MethodCall" and any(a is c[1] for a in m["args"])]
                    if k == "Ret" and call and DIR not in str(call[0]["recv"].get("t", "")):
                        break
                    if k == "Ret" and not call:
                        continue
                    if k == "Ret":
                        exits.append("return")
                    break
                if c[0] == "loop":
                    lp = _loop_source(f, c[1])
                    if lp is not None and DIR in peel_ty(lp.get("t") or ""):
                        exits.append("break" if k == "Break" else "return")
                    if k == "Break":
                        break
        if k == "Match" and n.get("src") == "ForLoopDesugar" and DIR in peel_ty(n["scrut"].get("t") or ""):
            loops += 1
        if k == "MethodCall" and n["method"] in PARTIAL and DIR in peel_ty(n["recv"].get("t") or "") and "Arguments" not in peel_ty(n["recv"].get("t") or ""):
            if _seqlike(peel_ty(n["recv"].get("t") or "")) or peel_ty(n["recv"].get("t") or "").startswith("&["):
                partial.append(n["method"])
        if k == "MethodCall" and n["method"] in ("map", "filter", "filter_map", "flat_map", "for_each") and DIR in peel_ty(n["recv"].get("t") or ""):
            loops += 1
    bad = sorted(set(exits)) + sorted(set(partial))
    _tri(_Toward(R, _var_dirs(P)), rule, "variables-all-directives", False if bad else (True if loops else None),
         "every @skip/@include of every visited selection is inspected",
         "%s leaves its traversal of a selection's directives early (%s): a variable used only by a later directive of the same selection is not "
         "branched on" % (f0.path, ", ".join(bad)),
         "no traversal of `Directive`s found in %s or its helpers" % f0.path, loc=f0.loc())
    lits = {x.get("v") for x in f.walk() if (x.get("k") == "Lit" and x.get("lk") == "str") or (x.get("k") == "PatExpr" and x.get("lk") == "str")}
    _tri(R, rule, "variables-both-directives", True if {"skip", "include"} <= lits else None, "@skip and @include are both looked at",
         und="%s mentions the literals %s: how @skip / @include are recognised is not decided" % (f0.path, sorted(l for l in lits if isinstance(l, str))[:6]), loc=f0.loc())


def _f_skip_coverage(P, R, rule="R02-f"):
    """every variable the skip test can be asked about on a branch is enumerated for that branch.  Two readings that must agree: (E) does the
    enumeration leave out the variables of a fragment whose type condition the filter rejects?  (U) is the skip test ever evaluated on the
    directives of a fragment on a path on which the filter rejects that fragment?  E and U together mean a look-up of a variable the
    branch was never split on."""
    f0 = _role(P, OT + "type_printer::get_boolean_variables", ["QueryTypePrinterContext", "SelectionSet"], "Vec<&")
    vis = _vis(P)
    cfc = _role(P, OT + "type_printer::check_fragment_condition", ["QueryTypePrinterContext", "ObjectDefinition", "str"], "bool")
    key = "variables-cover-skip-tests"

    def hook(ab, args):
        v = _Opq("$v")
        ab.event("term", "v", None, v)
        sel = _t_inline_selection(P, _Opq("condition"), [_t_directive(P, "skip", ("var", v))])
        for c in [a for a in args if isinstance(_d(a), _Clo)]:
            ab.apply(c, [sel])
        return ()
    try:
        paths = _Abs(P, [vis.path, cfc.path], hooks={vis.path: hook}).explore(lambda ab: ab.call(f0.path, _params(f0, [])))
    except _Unknown as e:
        R.undecided(rule, key, "the abstract evaluation of %s does not decide whether the enumeration depends on the type-condition filter (%s)" % (f0.path, e), loc=f0.loc())
        return
    except (KeyError, IndexError, TypeError, AttributeError, RecursionError, ValueError) as e:
        R.undecided(rule, key, "the abstract evaluation of %s does not decide this (evaluator: %r)" % (f0.path, e), loc=f0.loc())
        return
    seen = filtered = 0
    for st, v, evs in paths:
        t = _terms(evs)
        if st != "ok" or "v" not in t or not isinstance(_d(v), list):
            continue
        seen += 1
        rejected = any(ev[0] == "assume" and ev[2] is False and any(x[0] == "call" and x[1] == cfc.path for x in ev[1]) and ("eq",) not in ev[1] for ev in evs)
        if rejected and not any(_d(x) is t["v"] or x is t["v"] for x in _d(v)):
            filtered += 1
    if not seen:
        R.undecided(rule, key, "%s does not hand a closure to the visitor; whether it depends on the type-condition filter is not read" % f0.path, loc=f0.loc())
        return
    if not filtered:
        R.holds(rule, key, "table: the enumeration does not depend on type conditions: every variable of every fragment is in every branch", loc=f0.loc())
        return
    G = _gf_paths(P, R, rule, [key])
    if G is None:
        return
    gf, gpaths, names = G
    FD = {("field", A + "selection_set::FragmentSpread", "directives"), ("field", A + "selection_set::InlineFragment", "directives")}
    tested = loose = 0
    for st, v, evs in gpaths:
        calls = [ev for ev in evs if ev[0] == "call" and ev[1] == names["csd"] and FD & set().union(*[_origin(a) for a in ev[2]] or [set()])]
        if not calls:
            continue
        tested += 1
        if any(ev[0] == "assume" and ev[2] is False and any(x[0] == "call" and x[1] == names["cfc"] for x in ev[1]) and ("eq",) not in ev[1] for ev in evs):
            loose += 1
    if loose:
        _Toward(R, _var_dirs(P)).violated(rule, key, "paths: %s leaves out the @skip/@include variables of a fragment whose type condition does not apply to the branch's object, but %s "
                   "evaluates the skip test on a fragment's directives on a path on which the type-condition filter rejects that fragment: the test looks up a "
                   "variable the branch was never split on — generation panics on a valid document (or, with a lenient look-up, keeps the field)"
                   % (f0.path, gf.path), loc=gf.loc())
    else:
        _tri(R, rule, key, True if tested else None, "paths: the enumeration follows the type-condition filter, and the skip test of a fragment runs only where the filter "
             "accepts the fragment", und="no abstract path of %s evaluates the skip test on a fragment's directives" % gf.path, loc=gf.loc())


def _f_enumeration_table(P, R, rule, f0, vis):
    """which directives contribute their variable: read by handing the enumeration's own visitor closure one field selection whose directives
    are terms over the literals `skip` / `include` / `if` with undetermined variable names"""
    cases = [("@skip", [("skip", "var")], "variables-both-directives:skip"), ("@include", [("include", "var")], "variables-both-directives:include"),
             ("the second directive of a selection", [("skip", "lit"), ("include", "var")], "variables-all-directives:second"),
             ("the second directive of a selection", [("include", "var0"), ("skip", "var")], "variables-all-directives:second-after-variable")]
    for what, dirs, key in cases:
        box = {}

        def hook(ab, args, dirs=dirs):
            box["v"] = _Opq("$v")
            ab.event("table-var", None, None, box["v"])      # (each path builds its own terms)
            ds = []
            for n, k in dirs:
                ds.append(_t_directive(P, n, ("var", box["v"]) if k == "var" else (("var", _Opq("$w")) if k == "var0" else ("lit", _Opq("literal", ty="bool")))))
            sel = _t_field_selection(P, ds)
            clos = [a for a in args if isinstance(_d(a), _Clo)]
            box["clos"] = len(clos)
            for c in clos:
                ab.apply(c, [sel])
            return ()
        try:
            paths = _Abs(P, [vis.path], hooks={vis.path: hook}).explore(lambda ab: ab.call(f0.path, _params(f0, [])))
        except _Unknown as e:
            R.undecided(rule, key, "the abstract evaluation of %s does not decide whether the variable of %s is enumerated (%s)" % (f0.path, what, e), loc=f0.loc())
            continue
        except (KeyError, IndexError, TypeError, AttributeError, RecursionError, ValueError) as e:
            R.undecided(rule, key, "the abstract evaluation of %s does not decide whether the variable of %s is enumerated (evaluator: %r)" % (f0.path, what, e), loc=f0.loc())
            continue
        seen = missing = 0
        for st, v, evs in paths:
            if st != "ok" or not any(ev[0] == "call" and ev[1] == vis.path for ev in evs) or not box.get("clos"):
                continue
            seen += 1
            v = _d(v)
            if not isinstance(v, list):
                seen = None
                break
            var = [ev[3] for ev in evs if ev[0] == "table-var"][-1]
            same = [ev[3].pair for ev in evs if ev[0] == "assume" and ev[2] is True and getattr(ev[3], "pair", None)]
            alias = {id(a if b is var else b) for a, b in same if a is var or b is var}     # names this path takes to be the same variable
            if not any(_d(x) is var or x is var or id(_d(x)) in alias or id(x) in alias for x in v):
                missing += 1
        _tri(_Toward(R, _var_dirs(P)), rule, key, None if not seen else not missing, "table: the variable of %s is enumerated" % what,
             "table: given a field whose directives are %s, %s does not enumerate the variable of %s: no branch is made for its two values, and the "
             "selection it guards is typed for one of them only" % (" ".join("@%s(if: %s)" % (n, "$v" if k == "var" else ("$w" if k == "var0" else "true")) for n, k in dirs), f0.path, what),
             "%s does not hand a closure to the visitor / does not return the list of variables; the table is not read" % f0.path, loc=f0.loc())


def _f_visitor(P, R, rule, vis):
    """on every abstract path of the selection visitor, every selection met is handed to the visitor function, and the selections inside an inline
    fragment / a spread fragment are descended into"""
    impl = P.fn(OT + "selection_set_visitor::visit_fields_in_selection_set_impl", required=False)
    once = {vis.path} | ({impl.path} if impl else set())
    try:
        paths = _Abs(P, (), once=once).explore(lambda ab: ab.call(vis.path, _params(vis, []), top=True))
    except _Unknown as e:
        R.undecided(rule, "visitor-every-selection", "the abstract evaluation of %s does not decide whether the visitor sees every selection (%s)" % (vis.path, e), loc=vis.loc())
        return
    SEL = ("field", A + "selection_set::SelectionSet", "selections")
    DESC = {"InlineFragment": ("field", A + "selection_set::InlineFragment", "selection_set"), "FragmentSpread": ("field", A + "operation::FragmentDefinition", "selection_set")}
    met = lost = 0
    descended, undescended = set(), set()
    for st, v, evs in paths:
        if st != "ok":
            continue
        applied = [a for ev in evs if ev[0] == "apply" for a in ev[2]]
        for ev in evs:
            if ev[0] == "elem" and SEL in ev[1]:
                e = ev[2].kids.get("#elem")
                met += 1
                if not any(a is e for a in applied):
                    lost += 1
                kind = e.ref.name if isinstance(e.ref, _Var) else None
                if kind in DESC:
                    down = any((x[0] == "call" and x[1] in once and DESC[kind] in set().union(*[_origin(a) for a in x[2]] or [set()])) or
                               (x[0] == "iter" and DESC[kind] in x[1]) for x in evs)
                    (descended if down else undescended).add(kind)
    if lost:
        _Toward(R, _var_dirs(P)).violated(rule, "visitor-every-selection", "paths: %s meets a selection that it does not hand to the visitor function: @skip/@include on selections of that kind "
                   "are never seen by the variable enumeration" % vis.path, loc=vis.loc())
    elif "InlineFragment" in undescended or ("FragmentSpread" in undescended and "FragmentSpread" not in descended):
        _Toward(R, _var_dirs(P)).violated(rule, "visitor-every-selection", "paths: %s does not descend into the selections of %s: variables used only inside are not branched on"
                   % (vis.path, " / ".join(sorted(k for k in undescended if k == "InlineFragment" or k not in descended))), loc=vis.loc())
    else:
        _tri(R, rule, "visitor-every-selection", True if met and descended == set(DESC) else None,
             "paths: the visitor sees every selection (fields, spreads, inline fragments) and the selections inside fragments",
             und="the abstract paths of %s do not show all kinds of selection being visited (%s)" % (vis.path, sorted(descended)), loc=vis.loc())


PARTIAL = {"find", "find_map", "next", "nth", "first", "last", "position", "take", "take_while", "skip", "skip_while", "step_by", "map_while", "rfind", "next_back", "peek"}


def _loop_source(fn, loop_node):
    """the iterated expression of the `for` a desugared Loop node belongs to"""
    best = None
    for n in fn.walk():
        if n.get("k") == "Match" and n.get("src") == "ForLoopDesugar" and n.get("arms") and any(x is loop_node for x in subnodes(n["arms"][0]["body"])) \
                and n["scrut"].get("k") == "Call" and n["scrut"].get("args"):
            best = n["scrut"]["args"][0]       # (pre-order walk: the last one found is the innermost `for` around the loop node)
            if n["arms"][0]["body"] is loop_node:
                return best
    return best


def _f_possible_types(P, R):
    g0 = P.fn(OT + "type_printer::generate_branching_conditions")
    g = _inl(P, g0)
    ms = matches_on(g, "TypeDefinition")
    if not ms:
        R.undecided("R02-f", "possible-types", "no `match` over TypeDefinition in %s or its helpers: how the possible object types are enumerated is not "
                    "recognised" % g0.path, loc=g0.loc())
    for m in _kind_match(ms):
        tab = variant_table(m)
        pvb = Prov(g)
        ia = pvb.deep_atoms((tab.get("Interface") or tab.get("_") or {"body": None})["body"])
        ua = pvb.deep_atoms((tab.get("Union") or tab.get("_") or {"body": None})["body"])
        ok = (has_call(ia, "utils::interface_implementers") or has_field(ia, TSD + "ObjectDefinition", "interfaces")) and has_field(ua, TSD + "UnionDefinition", "possible_types")
        R.check("R02-f", "possible-types", ok, "branches = the object itself / implementers of the interface / members of the union",
                "generate_branching_conditions does not enumerate implementers / union members", loc=g0.loc())
    _f_product_table(P, R, "R02-f", g0)


def _f_product_table(P, R, rule, g0):
    """for an object parent and the variables [a], [a, b]: the conditions are exactly the 2^n assignments — read by evaluating the branch enumeration
    with the variable enumeration replaced by those lists"""
    gbv = _role(P, OT + "type_printer::get_boolean_variables", ["QueryTypePrinterContext", "SelectionSet"], "Vec<&")
    imp = P.fn(PR + "utils::interface_implementers", required=False)
    for names in (["a"], ["a", "b"], ["a", "a"], ["a", "b", "a"]):
        key = "variables-both-values:%d" % len(names) if len(set(names)) == len(names) else ("variables-both-values:repeated" if len(names) == 2 else "variables-one-value-per-branch")
        hooks = {gbv.path: lambda ab, args, names=names: list(names)}
        try:
            paths = _Abs(P, [gbv.path] + ([imp.path] if imp else []), hooks=hooks).explore(lambda ab: ab.call(g0.path, _params(g0, [])))
        except _Unknown as e:
            R.undecided(rule, key, "the abstract evaluation of %s does not decide the set of assignments (%s)" % (g0.path, e), loc=g0.loc())
            continue
        except (KeyError, IndexError, TypeError, AttributeError, RecursionError, ValueError) as e:
            R.undecided(rule, key, "the abstract evaluation of %s does not decide the set of assignments (evaluator: %r)" % (g0.path, e), loc=g0.loc())
            continue
        want = {tuple(sorted(zip(sorted(set(names)), vs))) for vs in itertools.product((False, True), repeat=len(set(names)))}
        seen, bad, conflict = 0, None, False
        for st, v, evs in paths:
            # the parent's kind is the first thing a path assumes about a TypeDefinition (later ones are about members of a union / implementers)
            kinds = [ev[2] for ev in evs if ev[0] == "assume" and isinstance(ev[3].ref, _Var) and str(ev[3].ref.adt or "").endswith("TypeDefinition")]
            if st != "ok" or not kinds or kinds[0] != "Object":
                continue
            v = _d(v)
            if not isinstance(v, list):
                continue
            got = set()
            ok = True
            for c in v:
                c = _d(c)
                bv = _d(c.f.get("boolean_variables")) if isinstance(c, _Obj) else None
                if not isinstance(bv, list):
                    ok = False
                    break
                asg = {}
                for pair in bv:
                    pair = _d(pair)
                    if not (isinstance(pair, tuple) and len(pair) == 2 and isinstance(_d(pair[0]), str) and isinstance(_d(pair[1]), bool)):
                        ok = False
                        break
                    if asg.setdefault(_d(pair[0]), _d(pair[1])) != _d(pair[1]):
                        conflict = True
                got.add(tuple(sorted(asg.items())))
            if not ok:
                continue
            seen += 1
            if got != want:
                bad = got
        if key == "variables-one-value-per-branch":
            if not seen:
                R.undecided(rule, key, "no abstract path of %s for an object parent returns a determined list of conditions" % g0.path, loc=g0.loc())
            elif not conflict:
                R.holds(rule, key, "table: a variable met again after another one (%s) is listed once per branch" % names, loc=g0.loc())
            else:
                c = _f_lookup_consistent(P)
                _tri(_Toward(R, ["wide"]), rule, key, c, "table: a variable met again after another one is listed twice in a branch, but the skip test reads one entry per variable: the extra "
                     "branches are duplicates",
                     "table: for the variables %s, %s builds branches that list `a` twice with different values, and the skip test does not read one entry per "
                     "variable: with (a, true) and (a, false) in one branch both @skip(if: $a) and @include(if: $a) omit their selection (or neither does) — an "
                     "assignment no execution has, so the union gains impossible members" % (names, g0.path),
                     "%s builds branches that list a variable twice with different values; whether the skip test reads one entry per variable is not decided" % g0.path, loc=g0.loc())
            continue
        _tri(R, rule, key, None if not seen else bad is None, "table: an object parent with the variables %s gets exactly the %d assignments" % (names, len(want)),
             "table: for an object parent and the boolean variables %s, %s produces the assignments %s; every combination of false / true is needed (%d of them): a "
             "response for a missing combination has no branch" % (names, g0.path, sorted(bad) if bad is not None else "", len(want)),
             "no abstract path of %s for an object parent returns a determined list of conditions" % g0.path, loc=g0.loc())


# ============================================================================================ wrapper terms and spec tables
_TOK = re.compile(r"[!\[\]]|[A-Za-z_][A-Za-z0-9_]*")


def _ty(text):
    """'[T!]!' -> ("NonNull", ("List", ("NonNull", ("Named", "T")))): a wrapper term over the tags of `Type`"""
    toks = _TOK.findall(text)
    pos = [0]

    def rec():
        if toks[pos[0]] == "[":
            pos[0] += 1
            t = ("List", rec())
            pos[0] += 1
        else:
            t = ("Named", toks[pos[0]])
            pos[0] += 1
        if pos[0] < len(toks) and toks[pos[0]] == "!":
            pos[0] += 1
            t = ("NonNull", t)
        return t
    return rec()


def _wrap_tree(ty, obj):
    return obj if ty[0] == "Named" else (ty[0], _wrap_tree(ty[1], obj))


# canonical TypeScript types: ("null",) ("never",) ("M",) ("array", t) ("ref", namespace, name) ("lit", s) ("union", frozenset)
# ("object", ((key, (type, optional)), ..)) ("selset", ref, object, object)
_NULL, _M = ("null",), ("M",)


def _u(*ms):
    out = set()
    for m in ms:
        if m[0] == "union":
            out |= m[1]
        else:
            out.add(m)
    return next(iter(out)) if len(out) == 1 else ("union", frozenset(out))


def _spec_leaf(ty, nn=False):
    """GraphQL spec §3.12: a type is nullable unless wrapped in Non-Null; list elements are decided afresh"""
    if ty[0] == "NonNull":
        return _spec_leaf(ty[1], True)
    t = ("ref", "*", "?") if ty[0] == "Named" else ("array", _spec_leaf(ty[1]))
    return t if nn else _u(t, _NULL)


def _spec_tree(ty, nn=False):
    """the same table for an object selection; M = the union of its branches"""
    if ty[0] == "NonNull":
        return _spec_tree(ty[1], True)
    t = _M if ty[0] == "Named" else ("array", _spec_tree(ty[1]))
    return t if nn else _u(t, _NULL)


def _nulls(t):
    """number of `null` members anywhere in a canonical TypeScript type"""
    if t == _NULL:
        return 1
    if isinstance(t, (tuple, frozenset)):
        return sum(_nulls(x) for x in t)
    return 0


def _null_diff(have, want):
    a, b = _nulls(have), _nulls(want)
    return "`| null` is lost" if a < b else ("`| null` is invented" if a > b else "`| null` sits at the wrong depth")


def _any_target(t):
    """the same type with namespace and name of every schema reference blanked (R02-c decides namespaces)"""
    if isinstance(t, frozenset):
        return frozenset(_any_target(x) for x in t)
    if isinstance(t, tuple):
        if t and t[0] == "ref":
            return ("ref", "*", "?")
        if t and t[0] == "lit":
            return t
        return tuple(_any_target(x) for x in t)
    return t


def _blank_members(t):
    """the same type with every branch type (a __SelectionSet application, or `never` for no branch) replaced by M"""
    if isinstance(t, frozenset):
        return frozenset(_blank_members(x) for x in t)
    if isinstance(t, tuple):
        if t and t[0] in ("selset", "never", "opaque"):
            return _M
        if t and t[0] == "union":
            return _u(*[_blank_members(x) for x in t[1]])
        if t and t[0] == "lit":
            return t
        return tuple(_blank_members(x) for x in t)
    return t


def _show_ts(t):
    if not isinstance(t, tuple) or not t:
        return repr(t)
    k = t[0]
    if k in ("null", "never", "M"):
        return k
    if k == "ref":
        return "Scalar"
    if k == "lit":
        return '"%s"' % (t[1] if isinstance(t[1], str) else "<%s>" % getattr(_d(t[1]), "why", "?"))
    if k == "array":
        return "(%s)[]" % _show_ts(t[1])
    if k == "union":
        return " | ".join(sorted((_show_ts(x) for x in t[1]), key=lambda s: (s == "null", s)))
    if k == "object":
        return "{ %s }" % "; ".join("%s%s: %s" % (a, "?" if o else "", _show_ts(b)) for a, (b, o) in t[1])
    if k == "selset":
        return "__SelectionSet<%s, %s, %s>" % (_show_ts(t[1]), _show_ts(t[2]), _show_ts(t[3]))
    return str(t[0])


class _Shape(Exception):
    """a result value that is not (determinately) of the expected ADT shape"""


def _s(v):
    """a string, or the undetermined value standing for one"""
    v = _d(v)
    if isinstance(v, _Obj) and set(v.f) >= {"inner", "original_node"}:
        return _s(v.f["inner"])
    if isinstance(v, _Obj) and "name" in v.f and len(v.f) <= 2:   # ObjectKey {name, pos}
        return _s(v.f["name"])
    if isinstance(v, (str, _Opq)):
        return v
    raise _Shape("a string was expected, got %r" % (v,))


def _c_ts(v):
    """canonical form of a TSType value"""
    v = _d(v)
    if isinstance(v, _Opq):
        return ("opaque", v)
    if not isinstance(v, _Var):
        raise _Shape("not a TSType: %r" % (v,))
    n, a = v.name, v.args
    if n == "Null":
        return _NULL
    if n == "Never":
        return ("never",)
    if n == "Union":
        ms = _d(a[0])
        if not isinstance(ms, list):
            raise _Shape("union over an undetermined member list")
        ms = [_c_ts(x) for x in ms]
        return _u(*ms) if ms else ("never",)
    if n in ("Array", "ReadonlyArray"):
        return ("array", _c_ts(a[0]))
    if n == "StringLiteral":
        return ("lit", _s(a[0]))
    if n == "NamespaceMember3":
        t = _d(a[1])
        return ("ref", t.name.lstrip("_") if isinstance(t, _Var) else "?", "?")
    if n == "NamespaceMember":
        return ("member", _s(a[1]))
    if n == "Object":
        fs = _d(a[0])
        if not isinstance(fs, list):
            raise _Shape("object over an undetermined field list")
        out = []
        for f in fs:
            f = _d(f)
            if isinstance(f, _Opq):
                out.append(("<%s>" % f.why, (("opaque", f), False)))
                continue
            if not isinstance(f, _Obj):
                raise _Shape("not an ObjectField: %r" % (f,))
            opt = _d(f.f.get("optional"))
            if not isinstance(opt, bool):
                raise _Shape("`optional` undetermined")
            k = _s(f.f.get("key"))
            out.append((k if isinstance(k, str) else "<%s>" % k.why, (_c_ts(f.f.get("type")), opt)))
        return ("object", tuple(out))
    if n == "TypeFunc":
        fn, args = _c_ts(a[0]), _d(a[1])
        if fn == ("member", "__SelectionSet") and isinstance(args, list) and len(args) == 3:
            args = [_c_ts(x) for x in args]
            if args[1][0] == "object" and args[2][0] == "object":
                return ("selset", args[0], args[1], args[2])
        return ("typefunc",)
    return ("other", n)


def _first_field_types(paths):
    """the type of the first unaliased field of the single branch, over all normally returning paths; None when it cannot be found"""
    out = []
    for st, v, _ in paths:
        if st != "ok":
            continue
        try:
            ts = _c_ts(v)
        except _Shape:
            return None
        if ts[0] != "selset" or len(ts[2][1]) != 1:
            return None
        out.append(ts[2][1][0][1][0])
    return out or None


# --- abstract terms of the ADTs the tables range over (variant tags; every name / position is undetermined)
def _t_obj(P, adt, fields):
    """a struct value of `adt`; the fields it is given must still exist (else the table cannot be read: UNDECIDED), the others are undetermined"""
    a = P.adts.get(adt)
    if a is None or a.kind != "Struct":
        raise _Unknown("the type %s is not a struct of the analysed program any more" % adt)
    names = a.fields()
    for k in fields:
        if k not in names:
            raise _Unknown("%s has no field `%s` any more" % (adt, k))
    f = {k: _Opq(k) for k in names}
    f.update(fields)
    return _Obj(adt, f)


def _t_var(P, adt, name, args):
    a = P.adts.get(adt)
    if a is None or a.kind != "Enum" or name not in a.variant_names() or len(a.fields(name)) != len(args):
        raise _Unknown("%s has no variant `%s` of %d field(s) any more" % (adt, name, len(args)))
    return _Var(name, args, adt)


def _t_type(P, t):
    if t[0] == "Named":
        return _t_var(P, TS + "type::Type", "Named", [_Opq("named type", [("named",)])])
    return _t_var(P, TS + "type::Type", t[0], [_t_obj(P, TS + "type::%sType" % t[0], {"inner": _t_type(P, t[1])})])


def _t_field(P, kind, key, ty=None, tree=None, typename=False):
    if kind == "empty":
        return _t_var(P, STF, "Empty", [_t_obj(P, ST + "SelectionTreeEmptyLeaf", {"name": key})])
    if kind == "leaf":
        return _t_var(P, STF, "Leaf", [_t_obj(P, ST + "SelectionTreeLeaf", {"name": key, "type": _t_type(P, ty) if ty else _Opq("type"), "is_typename": typename})])
    return _t_var(P, STF, "Object", [_t_obj(P, ST + "SelectionTreeObject", {"name": key, "selection": _t_tree(P, tree)})])


def _t_ident(P, name):
    return _t_obj(P, A + "base::Ident", {"name": name})


def _t_directive(P, name, value):
    """`@name(if: value)`; value = ("var", v) | ("lit", b) with v / b undetermined"""
    val = (_t_var(P, A + "value::Value", "Variable", [_t_obj(P, A + "variable::Variable", {"name": value[1]})]) if value[0] == "var" else
           _t_var(P, A + "value::Value", "BooleanValue", [_t_obj(P, A + "value::BooleanValue", {"value": value[1]})]))
    return _t_obj(P, A + "directive::Directive", {"name": _t_ident(P, name), "arguments": _some(_t_obj(P, A + "value::Arguments", {"arguments": [(_t_ident(P, "if"), val)]}))})


def _t_field_selection(P, directives):
    return _t_var(P, A + "selection_set::Selection", "Field", [_t_obj(P, A + "selection_set::Field", {"directives": list(directives)})])


def _t_inline_selection(P, cond, directives):
    """`... on <cond> <directives> { .. }` with an undetermined condition name and selection set"""
    return _t_var(P, A + "selection_set::Selection", "InlineFragment",
                  [_t_obj(P, A + "selection_set::InlineFragment", {"type_condition": _some(_t_ident(P, cond)), "directives": list(directives)})])


def _t_branch(P, type_name, unaliased, aliased):
    return _t_obj(P, STB, {"type_name": type_name, "unaliased_fields": list(unaliased), "aliased_fields": list(aliased)})


def _t_tree(P, t):
    if t[0] in ("NonNull", "List"):
        return _t_var(P, ST + "SelectionTree", t[0], [_t_tree(P, t[1])])
    return _t_var(P, ST + "SelectionTree", "Object", [t[1]])


# ====================================================================================================== abstract evaluator
class _Unknown(Exception):
    pass


class _Panic(Exception):
    pass


class _Ret(Exception):
    def __init__(self, v):
        self.v = v


class _Brk(Exception):
    def __init__(self, v=(), label=None):
        self.v, self.label = v, label


class _Cont(Exception):
    def __init__(self, label=None):
        self.label = label


class _Infeasible(Exception):
    """the assumptions made on this path contradict each other"""


class _Opq:
    """an undetermined value.  `origin` says where it comes from (provenance atoms: ("param", name), ("field", adt, f), ("call", path),
    ("elem",)); assumptions made about it while a path is followed are recorded in place (`ref`: what it is now known to be, `excl`:
    variant names / literals it is known not to be), so that one path sees one consistent value.  Components (fields, tuple
    elements, the one element of an undetermined sequence) are created once and remembered."""
    def __init__(self, why="", origin=(), ty=None):
        self.why, self.origin, self.ty = why, frozenset(origin), ty
        self.ref, self.excl, self.kids, self.lvl, self.depth = None, set(), {}, 0, 0

    def kid(self, key, why, atoms=()):
        if key not in self.kids:
            k = self.kids[key] = _Opq(why, self.origin | frozenset(atoms))
            k.lvl = self.lvl + (1 if key == "#elem" else 0)
            k.depth = self.depth + (1 if isinstance(key, str) and "." in key and not key.startswith("#") else 0)
        return self.kids[key]

    def __repr__(self):
        return "?%s" % self.why


class _Not:
    """negation of an undetermined boolean"""
    def __init__(self, x):
        self.x = x


class _Var:
    """enum variant value (Option/Result/Either and workspace enums)"""
    def __init__(self, name, args=(), adt=None):
        self.name, self.args, self.adt = name, list(args), adt

    def __repr__(self):
        return "%s%s" % (self.name, tuple(self.args) if self.args else "")


class _Obj:
    """struct value"""
    def __init__(self, adt, f):
        self.adt, self.f = adt, dict(f)

    def __repr__(self):
        return "%s%r" % ((self.adt or "").split("::")[-1], self.f)


class _Clo:
    def __init__(self, node, env):
        self.node, self.env = node, env


class _Fn:
    def __init__(self, path, ctor=None):
        self.path, self.ctor = path, ctor


class _Place:
    """`&mut` to a slot of a list / map"""
    def __init__(self, box, key):
        self.box, self.key = box, key

    def get(self):
        return self.box[self.key]

    def set(self, v):
        self.box[self.key] = v


class _Iter:
    """a Rust iterator: single pass and lazy (backed by a Python generator)"""
    def __init__(self, gen):
        self.g, self.buf = iter(gen), []

    def __iter__(self):
        return self

    def __next__(self):
        if self.buf:
            return self.buf.pop(0)
        return next(self.g)


class _Map:
    def __init__(self):
        self.d = {}


class _Set:
    def __init__(self):
        self.d = set()


class _Env:
    def __init__(self, parent=None):
        self.v, self.parent = {}, parent

    def get(self, lid):
        e = self
        while e is not None:
            if lid in e.v:
                return e.v[lid]
            e = e.parent
        return _Opq("unbound")

    def set(self, lid, val):
        e = self
        while e is not None:
            if lid in e.v:
                e.v[lid] = val
                return
            e = e.parent
        self.v[lid] = val


def _some(v):
    return _Var("Some", [v], "core::option::Option")


_NONE_ADT = "core::option::Option"


def _none():
    return _Var("None", [], _NONE_ADT)


def _opt(v):
    return _none() if v is None else _some(v)


def _d(v):
    while True:
        if isinstance(v, _Place):
            v = v.get()
        elif isinstance(v, _Opq) and v.ref is not None:
            v = v.ref
        elif isinstance(v, _Not):
            x = _d(v.x)
            if isinstance(x, bool):
                return not x
            return v
        else:
            return v


def _origin(v):
    """provenance atoms of a (possibly structured) abstract value"""
    out = set()
    st = [v]
    seen = set()
    while st:
        x = st.pop()
        if id(x) in seen:
            continue
        seen.add(id(x))
        if isinstance(x, _Opq):
            out |= x.origin
            if x.ref is not None:
                st.append(x.ref)
        elif isinstance(x, _Not):
            st.append(x.x)
        elif isinstance(x, _Place):
            st.append(x.get())
        elif isinstance(x, (list, tuple)):
            st.extend(x)
        elif isinstance(x, _Var):
            st.extend(x.args)
        elif isinstance(x, _Obj):
            st.extend(x.f.values())
    return out


class _UKey:
    """an undetermined value used as a key: equal to itself; whether it equals another key is not known"""
    def __init__(self, o):
        self.o = o

    def __hash__(self):
        return id(self.o)

    def __eq__(self, other):
        return isinstance(other, _UKey) and other.o is self.o


def _key(v):
    v = _d(v)
    if isinstance(v, _Opq):
        return _UKey(v)
    if isinstance(v, (str, int, bool)):
        return v
    if isinstance(v, tuple):
        return tuple(_key(x) for x in v)
    raise _Unknown("unhashable key %r" % (v,))


def _eq(a, b):
    """structural equality; None when it depends on an undetermined value"""
    a, b = _d(a), _d(b)
    if isinstance(a, _Opq) or isinstance(b, _Opq):
        return None
    if isinstance(a, (tuple, list)) and isinstance(b, (tuple, list)):
        if len(a) != len(b):
            return False
        res = True
        for x, y in zip(a, b):
            r = _eq(x, y)
            if r is False:
                return False
            if r is None:
                res = None
        return res
    if isinstance(a, _Var) and isinstance(b, _Var):
        if a.name != b.name:
            return False
        return _eq(a.args, b.args)
    if isinstance(a, _Obj) and isinstance(b, _Obj):
        if a.adt != b.adt or set(a.f) != set(b.f):
            return False
        return _eq([a.f[k] for k in sorted(a.f)], [b.f[k] for k in sorted(a.f)])
    if type(a) is not type(b) and not (isinstance(a, (int, bool)) and isinstance(b, (int, bool))):
        return None     # values of different kinds: a user-defined PartialEq may relate them
    if isinstance(a, (str, int, bool)):
        return a == b
    return None


def _lit(n):
    """value of a literal expression / pattern (integers are dumped as decimal text)"""
    lk, v = n.get("lk"), n.get("v")
    if lk in ("str", "bool", "char"):
        return v
    if lk == "int":
        try:
            v = int(str(v).split("_")[0].rstrip("iu")) if not isinstance(v, int) else v
        except ValueError:
            m = re.match(r"-?\d+", str(v))
            if not m:
                return _Opq("int literal")
            v = int(m.group(0))
        return -v if n.get("neg") else v
    return _Opq("lit")


_IDENTITY = {"to_string", "into", "as_str", "as_ref", "as_mut", "borrow", "borrow_mut", "deref", "deref_mut", "as_deref", "as_slice",
             "as_mut_slice", "copied", "peekable", "fuse", "into_boxed_str", "into_vec", "into_boxed_slice", "from", "to_str", "into_owned"}
_CLONES = {"clone", "cloned", "to_owned", "to_vec"}
_SEQ_ONLY = {"iter", "into_iter", "iter_mut", "filter_map", "flat_map", "flatten", "find_map", "any", "all", "for_each", "fold", "collect", "enumerate",
             "chain", "partition_map", "cartesian_product", "multi_cartesian_product", "unique", "rev", "skip", "take_while", "skip_while", "peekable"}


def _seqlike(t):
    """does the type string name a Vec / slice / iterator?"""
    return t.startswith(("alloc::vec::Vec<", "[", "core::slice::", "core::iter::", "alloc::vec::", "itertools::", "core::option::Iter", "core::option::IntoIter",
                         "impl Iterator", "impl IntoIterator", "impl core::iter", "alloc::collections::vec_deque", "either::Either<"))


def _clone(v):
    """`Clone::clone`: containers and structs are copied (a later mutation of the copy must not show in the original)"""
    v = _d(v)
    if isinstance(v, list):
        return [_clone(x) for x in v]
    if isinstance(v, tuple):
        return tuple(_clone(x) for x in v)
    if isinstance(v, _Obj):
        return _Obj(v.adt, {k: _clone(x) for k, x in v.f.items()})
    if isinstance(v, _Var):
        return _Var(v.name, [_clone(x) for x in v.args], v.adt)
    if isinstance(v, _Map):
        m = _Map()
        m.d = {k: _clone(x) for k, x in v.d.items()}
        return m
    if isinstance(v, _Set):
        t = _Set()
        t.d = set(v.d)
        return t
    if isinstance(v, _Iter):
        raise _Unknown("clone of an iterator")
    return v        # scalars, and undetermined values (a clone of an undetermined value is that same value)
_PANIC_FNS = ("core::panicking::", "std::panicking::", "core::option::expect_failed", "core::result::unwrap_failed", "std::rt::begin_panic")


class _Abs:
    """Abstract evaluation of function bodies over a finite domain: enum values known up to their variant tag, booleans and the string
    literals the code mentions, tuples / structs component-wise, sequences either fully known or undetermined (then: no element or
    one undetermined element), everything else undetermined with its provenance.  Control flow is followed where the condition is
    known and *forked* where it is not; an assumption made at a fork is recorded in the value itself, so each path is consistent.
    `explore` enumerates all paths (by replaying the body with every sequence of fork decisions); a decision table or a path property
    is then read off the set of paths.  Calls of workspace functions are entered, except the ones in `stops`, which yield an
    undetermined value and an event.  What has no model raises _Unknown: the rule instance is UNDECIDED."""

    MAX_PATHS = 4000

    def __init__(self, P, stops=(), budget=400000, depth=64, hooks=None, once=()):
        self.P, self.stubs, self.steps, self.budget, self.maxdepth = P, {}, 0, budget, depth
        self.stops = set(stops)
        self.hooks = hooks or {}    # path -> f(ab, args): what a stopped function does with its arguments (e.g. hand a term to the closure it is given)
        self.once = set(once)       # functions entered, but not re-entered while they run (their recursion is an event)
        self.depth = 0
        self.stack = []            # paths of the functions being evaluated
        self.choices, self.pos, self.taken = [], 0, []
        self.events = []
        self.iter_stack = []       # origins of the undetermined sequences being iterated
        self.frames = []           # (kind, len(iter_stack) at entry)

    # --------------------------------------------------------------------------------------------------------- paths
    def choose(self, k):
        """one of k alternatives at a fork: replayed from the decision prefix, then always the first"""
        if self.pos < len(self.choices):
            c = self.choices[self.pos]
        else:
            c = 0
            self.choices.append(c)
        self.taken.append((c, k))
        self.pos += 1
        return c

    def explore(self, thunk):
        """thunk(self) is run once per path -> [(status, value, events)] with status ok | panic"""
        out, prefix = [], []
        while True:
            self.choices, self.pos, self.taken, self.events = list(prefix), 0, [], []
            self.steps, self.depth, self.stack, self.iter_stack, self.frames = 0, 0, [], [], []
            try:
                v = thunk(self)
                out.append(("ok", v, list(self.events)))
            except _Panic as e:
                out.append(("panic", str(e), list(self.events)))
            except _Infeasible:
                pass
            except (_Brk, _Cont):
                raise _Unknown("stray break/continue")
            taken = list(self.taken)
            while taken and taken[-1][0] + 1 >= taken[-1][1]:
                taken.pop()
            if not taken:
                return out
            prefix = [c for c, _ in taken[:-1]] + [taken[-1][0] + 1]
            if len(out) > self.MAX_PATHS:
                raise _Unknown("more than %d abstract paths" % self.MAX_PATHS)

    def event(self, *ev):
        self.events.append(ev)

    def assume(self, o, val):
        """record what the undetermined value `o` is taken to be on this path"""
        o.ref = val
        self.event("assume", o.origin, val if isinstance(val, (bool, str)) else getattr(val, "name", None), o)

    def opq(self, why, *parts, atoms=()):
        org = set(atoms)
        for p in parts:
            org |= _origin(p)
        o = _Opq(why, org)
        for p in parts:        # what is computed from an undetermined value is reachable from it (see _progeny)
            q = _d(p)
            if isinstance(q, _Opq):
                q.kids[("derived", id(o))] = o
        return o

    # ---------------------------------------------------------------------------------------------------------- calls
    def call(self, path, args, top=False):
        """evaluate workspace function `path` on abstract argument values (a function in `stops`, or one that recursed deeper than any finite term
        the tables use, is not entered: its result is undetermined and the call is an event)"""
        if not top and (path in self.stops or self.stack.count(path) >= 8 or (path in self.once and path in self.stack)
                        or (path in self.stack and not any(isinstance(_d(a), (_Var, _Obj, list, tuple)) for a in args))):
            self.event("call", path, list(args))
            if path not in self.stops and path not in self.once:
                self.event("capped", "recursion")
            if path in self.hooks:
                return self.hooks[path](self, list(args))
            return self.opq(short(path), *args, atoms=[("call", path)])
        f = self.P.fns.get(path)
        if f is None or f.derived:
            raise _Unknown("no body for %s" % path)
        if self.depth >= self.maxdepth:
            raise _Unknown("call depth")
        env = _Env()
        if len(f.params) != len(args):
            raise _Unknown("arity of %s" % path)
        for p, a in zip(f.params, args):
            if not self.pm(p, a, env):
                raise _Unknown("parameter pattern of %s" % path)
        self.depth += 1
        self.stack.append(path)
        self.frames.append(("fn", len(self.iter_stack)))
        try:
            return self.ev(f.body, env)
        except _Ret as r:
            return r.v
        finally:
            self.depth -= 1
            self.stack.pop()
            del self.iter_stack[self.frames.pop()[1]:]
    def apply(self, fv, args):
        fv = _d(fv)
        if isinstance(fv, _Clo):
            env = _Env(fv.env)
            ps = fv.node["params"]
            if len(ps) != len(args):
                raise _Unknown("closure arity")
            for p, a in zip(ps, args):
                if not self.pm(p, a, env):
                    raise _Unknown("closure parameter pattern")
            self.depth += 1
            self.frames.append(("clo", len(self.iter_stack)))
            try:
                if self.depth > self.maxdepth:
                    raise _Unknown("call depth")
                return self.ev(fv.node["body"], env)
            except _Ret as r:
                return r.v
            finally:
                self.depth -= 1
                del self.iter_stack[self.frames.pop()[1]:]
        if isinstance(fv, _Opq):
            # an undetermined function value (a `mapper` / `visitor` parameter): its result is undetermined, derived from its arguments
            self.event("apply", fv.origin, list(args))
            return self.opq("result", fv, *args, atoms=[("applied",)])
        if isinstance(fv, _Fn):
            if fv.ctor:
                return self.ctor(fv.path, fv.ctor, args)
            return self.fncall(fv.path, None, args, None)
        raise _Unknown("call of %r" % (fv,))

    def ctor(self, path, dk, args):
        p = norm(path)
        if "Struct" in dk:
            return _Obj(p, {str(i): a for i, a in enumerate(args)})
        return _Var(p.split("::")[-1], args, p.rsplit("::", 1)[0])

    def fncall(self, callee, rd, args, node):
        """a path call: workspace function, trait method with a workspace impl, or a modelled std function"""
        for p in (rd, callee):
            if p and p in self.P.fns and not self.P.fns[p].derived and self.P.fns[p].kind in ("Fn", "AssocFn"):
                return self.call(p, args)
        c = callee or ""
        if c.startswith(_PANIC_FNS):
            raise _Panic(c)
        last = c.split("::")[-1]
        if c.endswith(("Vec::new", "Vec::with_capacity", "VecDeque::new")):
            return []
        if c.endswith("String::new"):
            return ""
        if c.endswith(("HashMap::new", "HashMap::with_capacity", "BTreeMap::new", "IndexMap::new")):
            return _Map()
        if c.endswith(("HashSet::new", "HashSet::with_capacity", "BTreeSet::new")):
            return _Set()
        if c.endswith("mem::replace") and len(args) == 2 and isinstance(args[0], _Place):
            old = args[0].get()
            args[0].set(args[1])
            return old
        if c.endswith("mem::take") and len(args) == 1 and isinstance(args[0], _Place) and isinstance(args[0].get(), list):
            old = args[0].get()
            args[0].set([])
            return old
        if c.endswith("iter::sources::once::once") or c.endswith("iter::once"):
            return _Iter([args[0]])
        if c.endswith("iter::sources::empty::empty"):
            return _Iter([])
        if c.endswith("Box::new") or c.endswith("convert::identity") or c.endswith(("Rc::new", "Arc::new")):
            return args[0]
        if c.endswith("IntoIterator::into_iter") and len(args) == 1:
            return _Iter(self.iterate(args[0]))
        if c.endswith("Try::branch") and len(args) == 1:
            v = _d(args[0])
            if isinstance(v, _Var) and v.name in ("Some", "Ok"):
                return _Var("Continue", [v.args[0]], "core::ops::ControlFlow")
            if isinstance(v, _Var) and v.name in ("None", "Err"):
                return _Var("Break", [v], "core::ops::ControlFlow")
            if isinstance(v, _Opq):
                # `?` on an undetermined Option / Result: both outcomes
                t = peel_ty(((node or {}).get("args") or [{}])[0].get("t") or "")
                if t.startswith("core::option::Option<"):
                    if self.is_variant(v, "Some", 1, _NONE_ADT):
                        return _Var("Continue", [_d(v).args[0]], "core::ops::ControlFlow")
                    self.assume(v, _none())
                    return _Var("Break", [_d(v)], "core::ops::ControlFlow")
                if t.startswith("core::result::Result<"):
                    if self.is_variant(v, "Ok", 1, "core::result::Result"):
                        return _Var("Continue", [_d(v).args[0]], "core::ops::ControlFlow")
                    self.assume(v, _Var("Err", [v.kid("Err.0", "err")], "core::result::Result"))
                    return _Var("Break", [_d(v)], "core::ops::ControlFlow")
            raise _Unknown("`?` on %r" % (v,))
        if c.endswith("FromResidual::from_residual") and len(args) == 1:
            return args[0]
        if c.endswith("write_box_via_move") and len(args) == 2:
            return args[1]      # `vec![a, b]`
        if c.endswith("vec::from_elem") and len(args) == 2 and isinstance(_d(args[1]), int):
            return [args[0]] * _d(args[1])
        if c.endswith("slice::into_vec") or c.endswith("<[T]>::into_vec") or c.endswith("box_new") or c.endswith("box_assume_init_into_vec_unsafe"):
            return args[0]
        if "::" in c and args and (c.split("::")[-2][:1].isupper() or c.startswith("<")):
            # `Trait::method(recv, ..)` / `Type::method(recv, ..)` spelled as a path call
            return self.method(last, c, rd, args[0], args[1:], node)
        return self.unknown_call(c, args, node)

    def unknown_call(self, c, args, node=None):
        """a callee without body or model: its result is undetermined (with the provenance of its arguments) — unless it may have an
        effect the evaluation depends on (it gets a container, an iterator, a closure or a `&mut` to determined state)"""
        for a in args:
            if isinstance(_d(a), (list, _Map, _Set, _Clo, _Iter)) or isinstance(a, _Place):
                raise _Unknown("no model for %s" % c)
        determined = any(not isinstance(_d(a), (_Opq, _Not)) for a in args)
        if node is not None and determined:
            if str(node.get("recv_ty", "")).startswith("&mut"):
                raise _Unknown("no model for %s (mutable receiver)" % c)
            if any(isinstance(a, dict) and a.get("k") == "AddrOf" and a.get("mut") for a in node.get("args", [])):
                raise _Unknown("no model for %s (`&mut` argument)" % c)
        return self.opq(c.split(" ")[0].split("::")[-1], *args, atoms=[("call", c.split(" ")[0])])
    # ------------------------------------------------------------------------------------------------------- iteration
    def iterate(self, v):
        """a Python iterator over the elements `v` yields as a Rust IntoIterator (a list is snapshotted, an iterator is consumed).
        An undetermined sequence yields nothing or one undetermined element (a fork)."""
        v = _d(v)
        if isinstance(v, _Iter):
            return v
        if isinstance(v, list):
            return iter(list(v))
        if isinstance(v, _Opq):
            return self.elems(v)
        if isinstance(v, _Var):
            if v.name == "Some":
                return iter([v.args[0]])
            if v.name == "None":
                return iter([])
            if v.name in ("Left", "Right") and len(v.args) == 1:
                return self.iterate(v.args[0])
        if isinstance(v, _Obj):
            for g in self.P.impls.get(("core::iter::traits::collect::IntoIterator", "into_iter"), []):
                if g.self_adt == v.adt and not g.derived:
                    return self.iterate(self.call(g.path, [v]))
        if isinstance(v, (_Map, _Set)) and len(v.d) <= 1:
            return iter([(k, x) for k, x in v.d.items()] if isinstance(v, _Map) else list(v.d))
        raise _Unknown("iteration over %r" % (v,))

    def elems(self, o):
        """the elements of an undetermined sequence on this path: decided once (none / one), then remembered"""
        self.event("iter", o.origin, o)
        if "#n" not in o.kids:
            # (an element of an element of an element ... : the nesting of undetermined sequences is followed two levels deep)
            if o.lvl < 2 and sum(1 for e in self.events if e[0] == "elem") < 6:
                o.kids["#n"] = self.choose(2)
            else:
                o.kids["#n"] = 0
                self.event("capped", "elements")      # this path is cut short: nothing may be concluded from what is absent on it
            if o.kids["#n"]:
                self.event("elem", o.origin, o)

        def gen():
            if o.kids["#n"]:
                mark = [o.origin]
                self.iter_stack.append(mark)
                try:
                    yield o.kid("#elem", "elem", [("elem",)])
                finally:
                    if self.iter_stack and self.iter_stack[-1] is mark:
                        self.iter_stack.pop()
        return _Iter(gen())

    def truth(self, v):
        v = _d(v)
        if v is True or v is False:
            return v
        if isinstance(v, _Not):
            return not self.truth(v.x)
        if isinstance(v, _Opq):
            b = bool(self.choose(2))
            self.assume(v, b)
            return b
        raise _Unknown("branch on %r" % (v,))

    def eq(self, a, b):
        """`a == b` over abstract values -> bool, or an undetermined boolean (the comparison of an undetermined boolean with a constant is
        that boolean or its negation; of an undetermined string / enum with a constant a fork)"""
        a, b = _d(a), _d(b)
        if a is b and isinstance(a, _Opq):
            return True       # (strings, names, booleans: equality is reflexive)
        e = _eq(a, b)
        if e is not None:
            return e
        if isinstance(b, (_Opq, _Not)) and not isinstance(a, (_Opq, _Not)):
            a, b = b, a
        if isinstance(a, (_Opq, _Not)):
            if isinstance(b, bool):
                return a if b else (a.x if isinstance(a, _Not) else _Not(a))
            if isinstance(a, _Opq) and isinstance(b, (str, int)):
                if b in a.excl:
                    return False
                if self.choose(2) == 0:
                    self.assume(a, b)
                    return True
                a.excl.add(b)
                self.event("assume-not", a.origin, b, a)
                return False
            if isinstance(a, _Opq) and isinstance(b, _Var):
                if not self.is_variant(a, b.name, len(b.args), b.adt):
                    return False
                return self.eq(_d(a), b)
            e = self.opq("eq", a, b, atoms=[("eq",)])
            e.pair = (a, b)        # which two undetermined values this boolean equates
            return e
        if isinstance(a, (tuple, list)) and isinstance(b, (tuple, list)):
            if len(a) != len(b):
                return False
            for x, y in zip(a, b):
                if not self.truth(self.eq(x, y)):
                    return False
            return True
        if isinstance(a, _Var) and isinstance(b, _Var):
            if a.name != b.name or len(a.args) != len(b.args):
                return False
            return self.eq(a.args, b.args)
        if isinstance(a, _Obj) and isinstance(b, _Obj) and a.adt == b.adt and set(a.f) == set(b.f):
            return self.eq([a.f[k] for k in sorted(a.f)], [b.f[k] for k in sorted(a.f)])
        return self.opq("eq", a, b, atoms=[("eq",)])

    def is_variant(self, o, name, arity, adt=None):
        """fork: is the undetermined enum value `o` the variant `name`?  (yes: it becomes that variant with undetermined payloads)"""
        if name in o.excl:
            return False
        if o.depth >= 4 and arity:
            # a payload of a payload of a payload ...: recursive data is unfolded four levels deep
            self.event("capped", "nesting")
            o.excl.add(name)
            return False
        if self.choose(2) == 0:
            val = _Var(name, [o.kid("%s.%d" % (name, i), "%s.%d" % (name, i), [("variant", adt, name)]) for i in range(arity)], adt)
            self.assume(o, val)
            return True
        o.excl.add(name)
        self.event("assume-not", o.origin, name, o)
        return False
    # ---------------------------------------------------------------------------------------------------- method models
    def method(self, name, callee, rd, recv, args, node):
        P = self.P
        for p in (rd, callee):
            if p and p in P.fns and not P.fns[p].derived and P.fns[p].kind in ("Fn", "AssocFn"):
                return self.call(p, [recv] + list(args))
        r = _d(recv)
        # trait method declared outside / inside the workspace with a workspace impl for the receiver's ADT
        if callee and "::" in callee and isinstance(r, (_Obj, _Var)) and r.adt and name not in ("from", "try_from", "into", "try_into", "from_iter", "default"):
            tr, m = callee.rsplit("::", 1)
            hits = [g for g in P.impls.get((tr, m), []) if g.self_adt == r.adt and not g.derived]
            if len(hits) >= 1 and (len(hits) == 1 or all(h.self_adt == r.adt for h in hits)):
                return self.call(hits[0].path, [recv] + list(args))
        c = callee or ""
        A = list(args)
        ap = self.apply
        if name in _CLONES and not A and not isinstance(r, _Opq) and not (name == "cloned" and isinstance(r, _Iter)):
            return _clone(r)
        if name == "to_string" and isinstance(r, (_Obj, _Var)) and not A:
            # Display of a smart pointer (Node<T>, NamedType<..>) is the Display of what it dereferences to
            x = r
            for _ in range(4):
                y = _d(self.deref(x))
                if y is x:
                    break
                x = y
            if isinstance(x, str) or (isinstance(x, _Var) and not x.args):
                return x
            raise _Unknown("to_string of %r" % (r,))
        if name in ("eq", "ne") and len(A) == 1:
            e = self.eq(r, A[0])
            return e if name == "eq" else self.neg(e)
        if isinstance(r, (_Opq, _Not)):
            t = peel_ty(((node or {}).get("recv") or {}).get("t") or "")
            if isinstance(r, _Not) or t == "bool":
                if name in ("then", "then_some", "not"):
                    r = self.truth(r)
                else:
                    return self.opq(name, r, *A)
            elif t.startswith("core::option::Option<"):
                if not self.is_variant(r, "Some", 1, _NONE_ADT):
                    self.assume(r, _none())
                r = _d(r)
            elif t.startswith("core::result::Result<"):
                if not self.is_variant(r, "Ok", 1, "core::result::Result"):
                    self.assume(r, _Var("Err", [r.kid("Err.0", "err")], "core::result::Result"))
                r = _d(r)
            elif t.startswith("either::Either<") and name in ("into_inner", "map", "map_left", "map_right", "either", "is_left", "is_right", "left", "right", "flip"):
                if not self.is_variant(r, "Left", 1, "either::Either"):
                    self.assume(r, _Var("Right", [r.kid("Right.0", "Right.0", [("variant", "either::Either", "Right")])], "either::Either"))
                r = _d(r)
            elif _seqlike(t) or (not t and name in _SEQ_ONLY):
                if name == "is_empty" and not A:
                    for _ in self.elems(r):
                        return False
                    return True
                if name in ("first", "last", "first_mut", "last_mut", "next", "peek", "pop", "iter().next") and not A:
                    for x in self.elems(r):
                        return _some(x)
                    return _none()
                if name in ("len", "count") and not A:
                    return sum(1 for _ in self.elems(r))       # consistent with what iterating it yields on this path
                if name in ("contains", "get", "get_mut", "binary_search", "capacity", "position") and not any(isinstance(_d(a), _Clo) for a in A):
                    return self.opq(name, r, *A, atoms=[("call", name)])
                if name in ("push", "push_back", "extend", "extend_from_slice", "insert", "append", "clear", "truncate", "retain", "remove", "sort", "dedup", "reverse"):
                    raise _Unknown("in-place `%s` on an undetermined sequence" % name)
                return self.seq_method(name, c, recv, _Iter(self.elems(r)), A, node)
            else:
                for a in A:
                    if isinstance(_d(a), (list, _Map, _Set, _Iter, _Clo)) or isinstance(a, _Place):
                        raise _Unknown("no model for `%s` on an undetermined receiver of type %s" % (name, t[:40] or "?"))
                if name in _IDENTITY or name in _CLONES:
                    return r
                return self.opq(name, r, *A, atoms=[("call", name)])
        if isinstance(r, bool):
            if name == "then":
                return _some(ap(A[0], [])) if r else _none()
            if name == "then_some":
                return _some(A[0]) if r else _none()
            if name == "not":
                return not r
        if isinstance(r, _Var) and r.name in ("Some", "None") and (r.adt or _NONE_ADT).endswith("Option"):
            some = r.name == "Some"
            x = r.args[0] if some else None
            if name in ("is_some", "is_none"):
                return some == (name == "is_some")
            if name in ("unwrap", "expect"):
                if not some:
                    raise _Panic(name)
                return x
            if name == "unwrap_or":
                return x if some else A[0]
            if name == "unwrap_or_else":
                return x if some else ap(A[0], [])
            if name == "map":
                return _some(ap(A[0], [x])) if some else r
            if name in ("and_then",):
                return ap(A[0], [x]) if some else r
            if name == "filter":
                return r if some and self.truth(ap(A[0], [x])) else _none()
            if name == "or":
                return r if some else A[0]
            if name == "or_else":
                return r if some else ap(A[0], [])
            if name == "and":
                return A[0] if some else r
            if name == "xor":
                raise _Unknown("xor")
            if name == "is_some_and":
                return some and self.truth(ap(A[0], [x]))
            if name == "is_none_or":
                return (not some) or self.truth(ap(A[0], [x]))
            if name == "map_or":
                return ap(A[1], [x]) if some else A[0]
            if name == "map_or_else":
                return ap(A[1], [x]) if some else ap(A[0], [])
            if name in ("ok_or", "ok_or_else"):
                return _Var("Ok", [x], "core::result::Result") if some else _Var("Err", [A[0] if name == "ok_or" else ap(A[0], [])], "core::result::Result")
            if name in ("iter", "into_iter", "iter_mut"):
                return _Iter([x] if some else [])
            if name == "flatten":
                return x if some else r
            if name == "unwrap_or_default":
                if some:
                    return x
                raise _Unknown("default value")
            if name == "take" and isinstance(recv, _Place):
                recv.set(_none())
                return r
            if name in ("take", "replace", "insert", "get_or_insert", "get_or_insert_with", "as_mut", "take_if"):
                raise _Unknown("in-place `Option::%s` on a value that is not a place" % name)
            if name == "zip":
                o = _d(A[0])
                if isinstance(o, _Var) and o.name in ("Some", "None"):
                    return _some((x, o.args[0])) if some and o.name == "Some" else _none()
            if name in _IDENTITY:
                return r
        if isinstance(r, _Var) and r.name in ("Ok", "Err"):
            ok = r.name == "Ok"
            if name in ("unwrap", "expect"):
                if not ok:
                    raise _Panic(name)
                return r.args[0]
            if name == "ok":
                return _some(r.args[0]) if ok else _none()
            if name == "is_ok":
                return ok
            if name == "is_err":
                return not ok
            if name == "map":
                return _Var("Ok", [ap(A[0], [r.args[0]])], r.adt) if ok else r
        if isinstance(r, _Var) and r.name in ("Left", "Right") and name in ("into_inner", "is_left", "is_right", "left", "right") and len(r.args) == 1:
            if name == "into_inner":
                return r.args[0]
            if name in ("is_left", "is_right"):
                return (r.name == "Left") == (name == "is_left")
            return _some(r.args[0]) if r.name.lower() == name else _none()
        if isinstance(r, _Var) and r.name in ("Left", "Right") and name in ("map", "map_left", "map_right", "either", "into_iter", "iter"):
            if name == "map":   # itertools::Either<T, T>::map
                return _Var(r.name, [ap(A[0], [r.args[0]])], r.adt)
            if name == "map_left":
                return _Var(r.name, [ap(A[0], [r.args[0]])], r.adt) if r.name == "Left" else r
            if name == "map_right":
                return _Var(r.name, [ap(A[0], [r.args[0]])], r.adt) if r.name == "Right" else r
            if name == "either":
                return ap(A[0] if r.name == "Left" else A[1], [r.args[0]])
            return _Iter(self.iterate(r))
        if isinstance(r, _Var) and r.name in ("Left", "Right"):
            # Either as an iterator: delegate to the wrapped iterator
            return self.method(name, callee, rd, r.args[0], A, node)
        if isinstance(r, (list, _Iter)):
            return self.seq_method(name, c, recv, r, A, node)
        if isinstance(r, _Map):
            d = r.d
            if name == "get":
                k = _key(A[0])
                return _some(d[k]) if self.member(d, k, True) else _none()
            if name == "get_mut":
                k = _key(A[0])
                return _some(_Place(d, k)) if self.member(d, k, True) else _none()
            if name == "contains_key":
                return self.member(d, _key(A[0]))
            if name == "insert":
                k = _key(A[0])
                old = _opt(d.get(k)) if self.member(d, k, True) else _none()
                d[k] = A[1]
                return old
            if name == "remove":
                k = _key(A[0])
                return _some(d.pop(k)) if self.member(d, k, True) else _none()
            if name == "entry":
                return ("entry", d, _key(A[0]))
            if name == "len":
                return len(d)
            if name == "is_empty":
                return not d
            if name in ("iter", "into_iter", "keys", "values", "into_keys", "into_values", "iter_mut", "values_mut", "drain"):
                if len(d) > 1:
                    raise _Unknown("iteration order of a hash map")
                if name in ("keys", "into_keys"):
                    return _Iter(list(d.keys()))
                if name in ("values", "into_values"):
                    return _Iter(list(d.values()))
                return _Iter([(k, v) for k, v in d.items()])
            if name in _IDENTITY:
                return r
        if isinstance(r, tuple) and len(r) == 3 and r[0] == "entry":
            _, d, k = r
            if name in ("or_insert", "or_insert_with", "or_insert_with_key"):
                if not self.member(d, k, True):
                    d[k] = A[0] if name == "or_insert" else ap(A[0], [] if name == "or_insert_with" else [k])
                return _Place(d, k)
            if name == "or_default":
                if not self.member(d, k, True):
                    t = str((node or {}).get("t", ""))
                    if "Vec<" in t.split("&mut ")[-1][:24]:
                        d[k] = []
                    else:
                        raise _Unknown("default value")
                return _Place(d, k)
            if name == "and_modify":
                if self.member(d, k, True):
                    ap(A[0], [_Place(d, k)])
                return r
        if isinstance(r, _Set):
            if name == "insert":
                k = _key(A[0])
                new = not self.member(r.d, k)
                r.d.add(k)
                return new
            if name == "contains":
                return self.member(r.d, _key(A[0]))
            if name == "remove":
                k = _key(A[0])
                had = self.member(r.d, k)
                r.d.discard(k)
                return had
            if name == "extend":
                for x in self.iterate(A[0]):
                    r.d.add(_key(x))
                return ()
            if name == "len":
                return len(r.d)
            if name == "is_empty":
                return not r.d
            if name in ("iter", "into_iter", "drain"):
                if len(r.d) > 1:
                    raise _Unknown("iteration order of a hash set")
                return _Iter(list(r.d))
            if name in _IDENTITY:
                return r
        if isinstance(r, str):
            if name in ("push_str", "push", "clear", "insert_str", "insert", "truncate", "pop", "remove", "retain", "drain", "extend", "make_ascii_lowercase",
                        "make_ascii_uppercase"):
                raise _Unknown("in-place `String::%s`" % name)
            if name == "len":
                return len(r)
            if name == "is_empty":
                return not r
            if name in ("starts_with", "ends_with", "contains") and isinstance(_d(A[0]), str):
                return {"starts_with": r.startswith, "ends_with": r.endswith, "contains": r.__contains__}[name](_d(A[0]))
        if name in _IDENTITY and not A:
            return r
        if name == "into" or name == "from":
            return r
        return self.unknown_call("%s (method `%s` on %r)" % (c, name, type(r).__name__), [recv] + A, node)

    def member(self, d, k, need_value=False):
        """k in d, where keys may be undetermined: exact for the very same value and for an empty collection, a fork otherwise"""
        if k in d:
            return True
        if not d or not (isinstance(k, _UKey) or any(isinstance(x, _UKey) for x in d)):
            return False
        if need_value:
            raise _Unknown("an undetermined key that may equal another key of the map")
        return bool(self.choose(2))

    def neg(self, e):
        e = _d(e)
        if isinstance(e, bool):
            return not e
        return e.x if isinstance(e, _Not) else _Not(e)

    def seq_method(self, name, c, recv, r, A, node):
        """methods of Vec / slices (`r` is a list) and of iterators (`r` is an _Iter).  Adaptors are lazy, exactly as in Rust: their
        closures run when an element is pulled, so short-circuiting consumers never evaluate them on later elements."""
        ap, tr, it = self.apply, self.truth, self.iterate
        is_list = isinstance(r, list)
        src = it(r)      # a list is snapshotted; an iterator is consumed in place

        def option(y, what):
            if isinstance(_d(y), _Opq):
                if not self.is_variant(_d(y), "Some", 1, _NONE_ADT):
                    self.assume(_d(y), _none())
            y = _d(y)
            if not (isinstance(y, _Var) and y.name in ("Some", "None")):
                raise _Unknown("%s result %r" % (what, y))
            return y

        # ---- conversions
        if name in ("iter", "into_iter", "copied", "fuse", "by_ref", "peekable", "into_boxed_slice", "into_vec", "as_slice", "as_ref", "borrow", "as_mut_slice",
                    "as_mut", "deref", "deref_mut", "into") and not A:
            if name in ("iter", "into_iter", "copied", "fuse", "peekable") or not is_list:
                return r if not is_list else _Iter(src)
            return r
        if name == "iter_mut" and is_list:
            return _Iter(_Place(r, i) for i in range(len(r)))
        if name == "drain" and is_list and not A:
            out = list(r)
            del r[:]
            return _Iter(out)
        if name == "cloned":
            return _Iter(_clone(x) for x in src)
        # ---- lazy adaptors
        if name == "map":
            return _Iter(ap(A[0], [x]) for x in src)
        if name == "inspect":
            def g_inspect():
                for x in src:
                    ap(A[0], [x])
                    yield x
            return _Iter(g_inspect())
        if name == "filter":
            return _Iter(x for x in src if tr(ap(A[0], [x])))
        if name == "filter_map":
            def g_fm():
                for x in src:
                    y = option(ap(A[0], [x]), "filter_map")
                    if y.name == "Some":
                        yield y.args[0]
            return _Iter(g_fm())
        if name == "map_while":
            def g_mw():
                for x in src:
                    y = option(ap(A[0], [x]), "map_while")
                    if y.name == "None":
                        return
                    yield y.args[0]
            return _Iter(g_mw())
        if name == "flat_map":
            return _Iter(y for x in src for y in it(ap(A[0], [x])))
        if name == "flatten":
            return _Iter(y for x in src for y in it(x))
        if name == "chain":
            other = it(A[0])
            return _Iter(itertools.chain(src, other))
        if name == "enumerate":
            return _Iter((i, x) for i, x in enumerate(src))
        if name == "zip":
            return _Iter(zip(src, it(A[0])))
        if name == "rev":
            return _Iter(reversed(list(src)))
        if name in ("skip", "take", "step_by") and isinstance(_d(A[0]), int):
            n = _d(A[0])
            return _Iter(itertools.islice(src, n, None) if name == "skip" else (itertools.islice(src, n) if name == "take" else itertools.islice(src, 0, None, n)))
        if name == "take_while":
            return _Iter(itertools.takewhile(lambda x: tr(ap(A[0], [x])), src))
        if name == "skip_while":
            return _Iter(itertools.dropwhile(lambda x: tr(ap(A[0], [x])), src))
        if name in ("unique", "dedup") and not A and not (name == "dedup" and is_list):
            def g_unique():
                seen = []
                for x in src:
                    dup = False
                    for y in (seen if name == "unique" else seen[-1:]):
                        dup = dup or self.truth(self.eq(x, y))
                    if not dup:
                        seen.append(x)
                        yield x
            return _Iter(g_unique())
        if name == "cartesian_product":
            other = list(it(A[0]))
            return _Iter((x, y) for x in src for y in other)
        if name == "multi_cartesian_product":
            parts = [list(it(p)) for p in src]
            if not parts:
                raise _Unknown("multi_cartesian_product of no iterators (differs between itertools versions)")
            return _Iter(list(p) for p in itertools.product(*parts))
        # ---- consumers
        if name in ("collect", "collect_vec"):
            t = str((node or {}).get("t", ""))
            if name == "collect_vec" or not t or t.startswith(("alloc::vec::Vec<", "Vec<", "alloc::boxed::Box<[")):
                return list(src)
            if t.startswith(("std::collections::hash::map::HashMap<", "alloc::collections::btree::map::BTreeMap<", "indexmap::map::IndexMap<")):
                m = _Map()
                for kv in src:
                    kv = _d(kv)
                    if not (isinstance(kv, tuple) and len(kv) == 2):
                        raise _Unknown("collect into a map")
                    m.d[_key(kv[0])] = kv[1]
                return m
            if t.startswith(("std::collections::hash::set::HashSet<", "alloc::collections::btree::set::BTreeSet<", "indexmap::set::IndexSet<")):
                s = _Set()
                for x in src:
                    s.d.add(_key(x))
                return s
            if t.startswith(("core::option::Option<alloc::vec::Vec<", "core::result::Result<alloc::vec::Vec<")):
                out = []
                for x in src:
                    x = _d(x)
                    if not (isinstance(x, _Var) and x.name in ("Some", "None", "Ok", "Err")):
                        raise _Unknown("collect into Option/Result")
                    if x.name in ("None", "Err"):
                        return x
                    out.append(x.args[0])
                return _Var("Some" if t.startswith("core::option") else "Ok", [out], t.split("<")[0])
            raise _Unknown("collect into %s" % t[:48])
        if name in ("find", "rfind"):
            for x in (src if name == "find" else reversed(list(src))):
                if tr(ap(A[0], [x])):
                    return _some(x)
            return _none()
        if name == "find_map":
            for x in src:
                y = option(ap(A[0], [x]), "find_map")
                if y.name == "Some":
                    return y
            return _none()
        if name == "any":
            for x in src:
                if tr(ap(A[0], [x])):
                    return True
            return False
        if name == "all":
            for x in src:
                if not tr(ap(A[0], [x])):
                    return False
            return True
        if name == "position":
            for i, x in enumerate(src):
                if tr(ap(A[0], [x])):
                    return _some(i)
            return _none()
        if name == "for_each":
            for x in src:
                ap(A[0], [x])
            return ()
        if name == "fold":
            acc = A[0]
            for x in src:
                acc = ap(A[1], [acc, x])
            return acc
        if name == "count":
            return sum(1 for _ in src)
        if name == "partition_map":
            le, ri = [], []
            for x in src:
                y = _d(ap(A[0], [x]))
                if isinstance(y, _Opq):
                    if not self.is_variant(y, "Left", 1, "either::Either"):
                        self.assume(y, _Var("Right", [y.kid("Right.0", "Right.0", [("variant", "either::Either", "Right")])], "either::Either"))
                    y = _d(y)
                if not (isinstance(y, _Var) and y.name in ("Left", "Right")):
                    raise _Unknown("partition_map")
                (le if y.name == "Left" else ri).append(y.args[0])
            return (le, ri)
        if name == "partition":
            a, b = [], []
            for x in src:
                (a if tr(ap(A[0], [x])) else b).append(x)
            return (a, b)
        if name == "unzip":
            a, b = [], []
            for x in src:
                x = _d(x)
                if not (isinstance(x, tuple) and len(x) == 2):
                    raise _Unknown("unzip")
                a.append(x[0])
                b.append(x[1])
            return (a, b)
        if not is_list:
            if name == "next":
                for x in src:
                    return _some(x)
                return _none()
            if name == "peek":
                if not r.buf:
                    for x in r.g:
                        r.buf.append(x)
                        break
                return _some(r.buf[0]) if r.buf else _none()
            if name == "last":
                out = _none()
                for x in src:
                    out = _some(x)
                return out
            if name == "nth" and isinstance(_d(A[0]), int):
                for x in itertools.islice(src, _d(A[0]), None):
                    return _some(x)
                return _none()
            raise _Unknown("no model for iterator method `%s`" % name)
        # ---- Vec / slice
        if name == "len":
            return len(r)
        if name == "is_empty":
            return not r
        if name == "contains":
            for x in r:
                if self.truth(self.eq(x, A[0])):
                    return True
            return False
        if name in ("first", "first_mut"):
            return _some(_Place(r, 0)) if r else _none()
        if name in ("last", "last_mut"):
            return _some(_Place(r, len(r) - 1)) if r else _none()
        if name in ("get", "get_mut") and isinstance(_d(A[0]), int):
            i = _d(A[0])
            return _some(_Place(r, i)) if 0 <= i < len(r) else _none()
        if name in ("push", "push_back"):
            r.append(A[0])
            return ()
        if name == "extend" or name == "extend_from_slice":
            r.extend(list(it(A[0])))
            return ()
        if name == "append":
            o = _d(A[0])
            if isinstance(o, list):
                r.extend(o)
                del o[:]
                return ()
        if name == "insert" and isinstance(_d(A[0]), int):
            if not 0 <= _d(A[0]) <= len(r):
                raise _Panic("insert")
            r.insert(_d(A[0]), A[1])
            return ()
        if name == "remove" and isinstance(_d(A[0]), int):
            if not 0 <= _d(A[0]) < len(r):
                raise _Panic("remove")
            return r.pop(_d(A[0]))
        if name in ("pop", "pop_back"):
            return _some(r.pop()) if r else _none()
        if name == "truncate" and isinstance(_d(A[0]), int):
            del r[_d(A[0]):]
            return ()
        if name == "clear":
            del r[:]
            return ()
        if name == "retain":
            r[:] = [x for x in list(r) if tr(ap(A[0], [x]))]
            return ()
        if name == "reverse":
            r.reverse()
            return ()
        if name == "dedup" and not A:
            out = []
            for x in r:
                e = self.truth(self.eq(x, out[-1])) if out else False
                if not e:
                    out.append(x)
            r[:] = out
            return ()
        if name == "swap_remove" and isinstance(_d(A[0]), int):
            i = _d(A[0])
            if not 0 <= i < len(r):
                raise _Panic("swap_remove")
            x = r[i]
            r[i] = r[-1]
            r.pop()
            return x
        if name == "split_first":
            return _some((r[0], r[1:])) if r else _none()
        if name == "split_last":
            return _some((r[-1], r[:-1])) if r else _none()
        if name in ("sort", "sort_unstable", "sort_by_key", "sort_unstable_by_key", "sort_by_cached_key"):
            keys = [_key(x) if name in ("sort", "sort_unstable") else _key(ap(A[0], [x])) for x in r]
            if len({type(k) for k in keys}) > 1:
                raise _Unknown("sort over keys of several kinds")
            r[:] = [x for _, x in sorted(zip(range(len(r)), r), key=lambda p: (keys[p[0]], p[0]))]
            return ()
        raise _Unknown("no model for method `%s` on a sequence" % name)

    # ------------------------------------------------------------------------------------------------------- patterns
    def pm(self, pat, val, env):
        """match `val` against `pat`, binding into env; raises _Unknown when the outcome depends on an undetermined value"""
        k = pat.get("k")
        if k == "Binding":
            env.v[pat["local"]] = val
            return self.pm(pat["sub"], val, env) if "sub" in pat else True
        if k == "Wild":
            return True
        if k in ("Ref", "Deref", "Box", "Guard"):
            return self.pm(pat["p"], val, env)
        v = _d(val)
        if k == "Or":
            for p in pat["ps"]:
                if self.pm(p, val, env):
                    return True
            return False
        if isinstance(v, _Opq):
            if k == "Tuple" and "ddpos" not in pat:
                v.ref = tuple(v.kid(i, "%s.%d" % (v.why, i), [("tuplefield", str(i))]) for i in range(len(pat["ps"])))
            elif k == "Struct" and pat.get("dk") != "Variant":
                adt = norm(pat.get("pat_adt") or pat.get("adt") or "")
                for f in pat["fields"]:
                    if not self.pm(f["p"], v.kid(("f", f["name"]), f["name"], [("field", adt, f["name"])]), env):
                        return False
                return True
            elif k in ("TupleStruct", "Struct") or (k == "PatExpr" and "lk" not in pat):
                d = norm(pat.get("ctor_of") or pat.get("def") or "")
                arity = len(pat["ps"]) if k == "TupleStruct" else (len(pat.get("fields", [])) if k == "Struct" and all(f["name"].isdigit() for f in pat["fields"]) else 0)
                if k == "Struct" and pat["fields"] and not all(f["name"].isdigit() for f in pat["fields"]):
                    raise _Unknown("struct-variant pattern on an undetermined value")
                if k == "TupleStruct" and "ddpos" in pat:
                    raise _Unknown("variant pattern with `..`")
                if not self.is_variant(v, d.split("::")[-1], arity, d.rsplit("::", 1)[0]):
                    return False
            elif k == "PatExpr":
                return self.truth(self.eq(v, _lit(pat)))
            else:
                raise _Unknown("pattern kind %s on an undetermined value" % k)
            v = _d(v)
        if isinstance(v, _Not) and k == "PatExpr" and "lk" in pat:
            return self.truth(self.eq(v, _lit(pat)))
        if k == "Tuple":
            if "ddpos" in pat or not isinstance(v, tuple) or len(v) != len(pat["ps"]):
                raise _Unknown("tuple pattern")
            ok = True
            for p, x in zip(pat["ps"], v):
                ok = self.pm(p, x, env) and ok
                if not ok:
                    return False
            return True
        if k == "TupleStruct":
            name = norm(pat.get("ctor_of") or pat.get("def") or "").split("::")[-1]
            if isinstance(v, _Var):
                if v.name != name:
                    return False
                if len(v.args) != len(pat["ps"]) or "ddpos" in pat:
                    raise _Unknown("variant arity")
                for p, x in zip(pat["ps"], v.args):
                    if not self.pm(p, x, env):
                        return False
                return True
            if isinstance(v, _Obj) and all(str(i) in v.f for i in range(len(pat["ps"]))):
                for i, p in enumerate(pat["ps"]):
                    if not self.pm(p, v.f[str(i)], env):
                        return False
                return True
            raise _Unknown("tuple-struct pattern on %r" % (v,))
        if k == "Struct":
            if pat.get("dk") == "Variant":
                name = norm(pat["def"]).split("::")[-1]
                if not isinstance(v, _Var):
                    raise _Unknown("variant pattern on %r" % (v,))
                if v.name != name:
                    return False
                for f in pat["fields"]:
                    if f["name"].isdigit() and int(f["name"]) < len(v.args):
                        if not self.pm(f["p"], v.args[int(f["name"])], env):
                            return False
                    elif len(v.args) == 1 and isinstance(_d(v.args[0]), _Obj) and f["name"] in _d(v.args[0]).f:
                        if not self.pm(f["p"], _d(v.args[0]).f[f["name"]], env):
                            return False
                    else:
                        raise _Unknown("variant field pattern")
                return True
            if isinstance(v, _Obj):
                for f in pat["fields"]:
                    if not self.pm(f["p"], v.f.get(f["name"], _Opq(f["name"])), env):
                        return False
                return True
            raise _Unknown("struct pattern on %r" % (v,))
        if k == "PatExpr":
            if "lk" in pat:
                return self.truth(self.eq(v, _lit(pat)))
            name = norm(pat.get("ctor_of") or pat.get("def") or "").split("::")[-1]
            if isinstance(v, _Var) and name:
                return v.name == name
            raise _Unknown("path pattern")
        raise _Unknown("pattern kind %s" % k)

    def _irrefutable(self, p):
        k = p.get("k")
        if k in ("Wild",):
            return True
        if k == "Binding":
            return "sub" not in p or self._irrefutable(p["sub"])
        if k in ("Ref", "Deref", "Box"):
            return self._irrefutable(p["p"])
        if k == "Tuple":
            return all(self._irrefutable(x) for x in p["ps"])
        return False

    # ---------------------------------------------------------------------------------------------------- expressions
    def ev(self, n, env):
        self.steps += 1
        if self.steps > self.budget:
            raise _Unknown("step budget")
        k = n.get("k")
        h = getattr(self, "e_" + k, None)
        if h is None:
            raise _Unknown("no model for node kind %s" % k)
        v = h(n, env)
        for _ in range(n.get("oderef") or 0):
            v = self.deref(v)
        return v

    def deref(self, v):
        """one overloaded `Deref::deref` step: workspace impls are run, std smart pointers are transparent"""
        x = _d(v)
        if isinstance(x, _Obj):
            for tr in ("core::ops::deref::Deref", "core::ops::deref::DerefMut"):
                for g in self.P.impls.get((tr, "deref" if tr.endswith("Deref") else "deref_mut"), []):
                    if g.self_adt == x.adt and not g.derived:
                        return self.call(g.path, [v])
        if isinstance(x, _Var) and (x.adt or "").endswith("borrow::Cow") and len(x.args) == 1:
            return x.args[0]
        return v

    def e_BlockExpr(self, n, env):
        return self.e_Block(n["b"], env)

    def e_Block(self, n, env):
        try:
            for s in n.get("stmts", []):
                self.ev(s, env)
            return self.ev(n["tail"], env) if "tail" in n else ()
        except _Brk as b:
            if n.get("label") and b.label == n["label"]:      # `'a: { .. break 'a v .. }`
                return b.v
            raise

    def e_Stmt(self, n, env):
        self.ev(n["e"], env)
        return ()

    def e_Item(self, n, env):
        return ()

    def e_Let(self, n, env):
        if "init" not in n:
            return ()
        v = self.ev(n["init"], env)
        if not self.pm(n["pat"], v, env):
            if "els" in n:
                self.ev(n["els"], env)
                raise _Unknown("`else` of let-else does not diverge")
            raise _Unknown("refutable let")
        return ()

    def e_LetExpr(self, n, env):
        return self.pm(n["pat"], self.ev(n["init"], env), env)

    def e_Lit(self, n, env):
        return _lit(n)

    def e_Path(self, n, env):
        if "local" in n:
            return env.get(n["local"])
        dk = n.get("dk", "")
        p = norm(n.get("rd") or n.get("def") or "")
        if dk.startswith("Ctor"):
            if "Const" in dk:
                if "Struct" in dk:
                    return _Obj(norm(n["def"]), {})
                d = norm(n.get("ctor_of") or n["def"])
                return _Var(d.split("::")[-1], [], d.rsplit("::", 1)[0])
            return _Fn(norm(n.get("ctor_of") or n["def"]), ctor=dk)
        if dk in ("Fn", "AssocFn"):
            return _Fn(p)
        return _Opq(p)

    def e_Field(self, n, env):
        b = _d(self.ev(n["e"], env))
        f = n["field"]
        if isinstance(b, _Obj):
            return b.f[f] if f in b.f else _Opq(f)
        if isinstance(b, tuple) and f.isdigit() and int(f) < len(b):
            return b[int(f)]
        if isinstance(b, _Opq):
            adt = norm(n.get("adt") or "")
            return b.kid(("f", f), f, [("field", adt, f)] if adt else [("tuplefield", f)])
        raise _Unknown("field `%s` of %r" % (f, b))

    def e_AddrOf(self, n, env):
        e = n["e"]
        if e.get("k") == "Index":
            box, i = _d(self.ev(e["e"], env)), _d(self.ev(e["idx"], env))
            if isinstance(box, list) and isinstance(i, int):
                if not 0 <= i < len(box):
                    raise _Panic("index")
                return _Place(box, i)
        if e.get("k") == "Field" and n.get("mut"):
            b = _d(self.ev(e["e"], env))
            if isinstance(b, _Obj) and e["field"] in b.f:
                return _Place(b.f, e["field"])
        if e.get("k") == "Path" and "local" in e and n.get("mut"):
            # `&mut local`: mutable containers are shared by identity; scalars / options need a slot
            v = env.get(e["local"])
            if isinstance(_d(v), (list, _Map, _Set, _Obj, _Clo, _Opq, _Iter)) or isinstance(v, _Place):
                return v
            holder = env
            while holder is not None and e["local"] not in holder.v:
                holder = holder.parent
            if holder is not None:
                return _Place(holder.v, e["local"])
        return self.ev(e, env)

    def e_DropTemps(self, n, env):
        return self.ev(n["e"], env)

    e_Use = e_Cast = e_Type = e_DropTemps

    def e_Unary(self, n, env):
        v = self.ev(n["e"], env)
        op = n.get("op")
        if op == "Deref":
            if n.get("callee"):
                return self.deref(v)
            return v if not isinstance(v, _Place) or isinstance(v.get(), (list, _Map, _Set, _Obj)) else v.get()
        v = _d(v)
        if op == "Not" and isinstance(v, (_Opq, _Not, bool)):
            return self.neg(v)
        if isinstance(v, _Opq):
            return self.opq(op, v)
        if op == "Not" and isinstance(v, bool):
            return not v
        if op == "Neg" and isinstance(v, int):
            return -v
        raise _Unknown("unary %s on %r" % (op, v))

    def e_Binary(self, n, env):
        op = n.get("op")
        if op in ("&&", "||"):
            l = self.truth(self.ev(n["l"], env))
            if (op == "&&" and not l) or (op == "||" and l):
                return l
            return self.ev(n["r"], env)
        l, r = self.ev(n["l"], env), self.ev(n["r"], env)
        if op in ("==", "!="):
            c = norm(n.get("rd") or n.get("callee") or "")
            lv = _d(l)
            if not (c in self.P.fns and not self.P.fns[c].derived) and isinstance(lv, (_Obj, _Var)) and lv.adt:
                hits = [g for g in self.P.impls.get(("core::cmp::PartialEq", "eq"), []) if g.self_adt == lv.adt and not g.derived]
                c = hits[0].path if len(hits) == 1 else c
            if c in self.P.fns and not self.P.fns[c].derived and not isinstance(lv, (_Opq, _Not)):
                e = self.call(c, [l, r])
            else:
                e = self.eq(l, r)
            return e if op == "==" else self.neg(e)
        l, r = _d(l), _d(r)
        if isinstance(l, (_Opq, _Not)) or isinstance(r, (_Opq, _Not)):
            if op in ("^",) and isinstance(r, bool):
                return self.neg(l) if r else l
            if op in ("^",) and isinstance(l, bool):
                return self.neg(r) if l else r
            return self.opq(op, l, r)
        if isinstance(l, bool) and isinstance(r, bool) and op in ("^", "&", "|"):
            return {"^": l != r, "&": l and r, "|": l or r}[op]
        if isinstance(l, int) and isinstance(r, int) and not isinstance(l, bool):
            if op in ("+", "-", "*", "<", "<=", ">", ">="):
                return {"+": l + r, "-": l - r, "*": l * r, "<": l < r, "<=": l <= r, ">": l > r, ">=": l >= r}[op]
        raise _Unknown("binary %s" % op)

    def e_Tup(self, n, env):
        return tuple(self.ev(e, env) for e in n["es"])

    def e_Array(self, n, env):
        return [self.ev(e, env) for e in n["es"]]

    def e_Struct(self, n, env):
        if "rest" in n:
            raise _Unknown("struct pattern as expression")
        f = {}
        if "base" in n and n["base"] is not None and isinstance(n["base"], dict) and n["base"].get("k"):
            b = _d(self.ev(n["base"], env))
            if not isinstance(b, _Obj):
                raise _Unknown("struct base")
            f.update(b.f)
        for x in n["fields"]:
            f[x["name"]] = self.ev(x["e"], env)
        adt = norm(n.get("adt") or "")
        if n.get("dk") == "Variant" or (n.get("variant") and norm(n["variant"]) != adt):
            v = norm(n.get("variant") or n.get("def"))
            return _Var(v.split("::")[-1], [_Obj(v, f)], adt)
        return _Obj(adt, f)

    def e_Closure(self, n, env):
        return _Clo(n, env)

    def e_Call(self, n, env):
        f = n.get("f", {})
        dk = n.get("callee_dk") or f.get("dk") or ""
        if f.get("k") == "Path" and "local" not in f and dk.startswith("Ctor"):
            return self.ctor(n.get("callee") or f.get("def"), dk, [self.ev(a, env) for a in n["args"]])
        if not (f.get("k") == "Path" and "local" not in f and f.get("dk") in ("Fn", "AssocFn")):
            fv = self.ev(f, env)
            return self.apply(fv, [self.ev(a, env) for a in n["args"]])
        callee, rd = norm(n.get("callee") or f.get("def")), norm(f.get("rd"))
        if callee.startswith(_PANIC_FNS):
            raise _Panic(callee)
        return self.fncall(callee, rd, [self.ev(a, env) for a in n["args"]], n)

    def e_MethodCall(self, n, env):
        recv = self.ev(n["recv"], env)
        args = [self.ev(a, env) for a in n["args"]]
        return self.method(n["method"], norm(n.get("callee")), norm(n.get("rd")), recv, args, n)

    def e_If(self, n, env):
        if self.truth(self.ev(n["cond"], env)):
            return self.ev(n["then"], env)
        return self.ev(n["else"], env) if "else" in n else ()

    def e_Match(self, n, env):
        if n.get("src") == "ForLoopDesugar":
            return self.for_loop(n, env)
        v = self.ev(n["scrut"], env)
        for arm in n["arms"]:
            if self.pm(arm["pat"], v, env):
                if "guard" in arm and not self.truth(self.ev(arm["guard"], env)):
                    continue
                return self.ev(arm["body"], env)
        raise _Infeasible()      # matches are exhaustive: the assumptions of this path exclude every arm

    def for_loop(self, n, env):
        sc = n["scrut"]
        if not (sc.get("k") == "Call" and len(sc.get("args", [])) == 1):
            raise _Unknown("for-loop shape")
        seq = self.iterate(self.ev(sc["args"][0], env))     # pulled lazily: `break` leaves the rest unevaluated
        inner = [x for x in subnodes(n["arms"][0]["body"]) if x.get("k") == "Match" and x.get("src") == "ForLoopDesugar"]
        if not inner:
            raise _Unknown("for-loop shape")
        some = [a for a in inner[0]["arms"] if norm(a["pat"].get("def") or "").endswith("Option::Some")]
        if len(some) != 1 or len(some[0]["pat"].get("fields", [])) != 1:
            raise _Unknown("for-loop shape")
        pat, body = some[0]["pat"]["fields"][0]["p"], some[0]["body"]
        label = next((x.get("label") for x in subnodes(n["arms"][0]["body"]) if x.get("k") == "Loop"), None)
        for x in seq:
            if not self.pm(pat, x, env):
                raise _Unknown("for-loop pattern")
            try:
                self.ev(body, env)
            except _Cont as c:
                if c.label not in (None, label):
                    raise
                continue
            except _Brk as b:
                if b.label not in (None, label):
                    raise
                break
        return ()

    def e_Loop(self, n, env):
        rounds = 0
        while True:
            rounds += 1
            if rounds > 64:
                raise _Unknown("loop does not terminate on the abstract input")
            self.steps += 1
            if self.steps > self.budget:
                raise _Unknown("step budget")
            try:
                self.e_Block(n["body"], env) if n["body"].get("k") == "Block" else self.ev(n["body"], env)
            except _Cont as c:
                if c.label not in (None, n.get("label")):
                    raise
                continue
            except _Brk as b:
                if b.label not in (None, n.get("label")):
                    raise
                return b.v

    def e_Break(self, n, env):
        raise _Brk(self.ev(n["e"], env) if "e" in n else (), n.get("label"))

    def e_Continue(self, n, env):
        raise _Cont(n.get("label"))

    def e_Ret(self, n, env):
        v = self.ev(n["e"], env) if "e" in n else ()
        if self.frames and self.frames[-1][0] == "fn" and len(self.iter_stack) > self.frames[-1][1]:
            # leaving the function from inside the traversal of an undetermined sequence: the remaining elements are not looked at
            self.event("ret-in-iter", [m[0] for m in self.iter_stack[self.frames[-1][1]:]], v, self.stack[-1] if self.stack else None)
        raise _Ret(v)

    e_InlRet = e_Ret

    def e_Assign(self, n, env):
        v = self.ev(n["r"], env)
        l = n["l"]
        if l.get("k") == "Path" and "local" in l:
            cur = env.get(l["local"])
            env.set(l["local"], v)
            return ()
        if l.get("k") == "Unary" and l.get("op") == "Deref":
            t = self.ev(l["e"], env)
            if isinstance(t, _Place):
                t.set(v)
                return ()
        if l.get("k") == "Field":
            b = _d(self.ev(l["e"], env))
            if isinstance(b, _Obj):
                b.f[l["field"]] = v
                return ()
        if l.get("k") == "Index":
            p = self.e_AddrOf({"e": l, "mut": True}, env)
            if isinstance(p, _Place):
                p.set(v)
                return ()
        raise _Unknown("assignment target")

    def e_AssignOp(self, n, env):
        op = (n.get("op") or "").rstrip("=")
        cur = self.ev(n["l"], env)
        v = self.e_Binary({"op": op, "l": {"k": "_Val", "v": cur}, "r": n["r"]}, env)
        if isinstance(_d(v), (_Opq, _Not)) and not isinstance(_d(cur), (bool, _Opq, _Not)):
            raise _Unknown("compound assignment of an undetermined value")
        l = n["l"]
        if l.get("k") == "Path" and "local" in l:
            if isinstance(cur, _Place):
                cur.set(v)
            else:
                env.set(l["local"], v)
            return ()
        if l.get("k") == "Unary" and l.get("op") == "Deref":
            t = self.ev(l["e"], env)
            if isinstance(t, _Place):
                t.set(v)
                return ()
        if l.get("k") == "Field":
            b = _d(self.ev(l["e"], env))
            if isinstance(b, _Obj):
                b.f[l["field"]] = v
                return ()
        raise _Unknown("compound assignment target")

    def e__Val(self, n, env):
        return n["v"]

    def e_Index(self, n, env):
        p = self.e_AddrOf({"e": n, "mut": False}, env)
        if isinstance(p, _Place):
            return p.get()
        box = _d(self.ev(n["e"], env))
        if isinstance(box, _Map):
            k = _key(self.ev(n["idx"], env))
            if k not in box.d:
                raise _Panic("index")
            return box.d[k]
        if isinstance(box, _Opq):
            return _Opq("index")
        raise _Unknown("index")


RULES = [("R02-a", r02a), ("R02-b", r02b), ("R02-c", r02c), ("R02-d", r02d), ("R02-e", r02e), ("R02-f", r02f)]
EXPLANATION = (
    "The mechanisms C02 anchors, each a necessary condition decided from the typed HIR without executing anything. Provenance instances "
    "hold for all inputs; `table:` instances read a finite decision table out of the code by abstract evaluation over variant tags, booleans, "
    "the string literals of the code and undetermined payloads (forking on every undetermined condition) and compare it with the table the "
    "GraphQL spec prescribes; `paths:` instances are properties of every abstract path. (R02-a) nullability: a type is nullable unless "
    "wrapped in Non-Null, list elements are decided afresh, wrappers are carried 1:1 into the selection tree, leaves and nested selections "
    "use the schema field's type; (R02-b) the __typename literal is the branch's concrete object type (unaliased and aliased), and the "
    "special case is keyed by field name rather than response key; (R02-c) result leaves and branches refer to the OperationOutput "
    "namespace; (R02-d) object declarations list __typename plus every field; (R02-e) the 7-cell merge table of same-key fields, "
    "branches paired by object type (never by position, without using the other side up), right-only branches appended under a "
    "type-name test, fast_equal sound; (R02-f) the type-condition filter relates each kind of condition to the branch's object and "
    "guards every fragment site, the @skip/@include table and its scan over all directives, the variable enumeration reaches every "
    "selection and every directive, possible types per parent kind. Not decided: that the emitted union equals the per-selection-set "
    "denotation for every schema and document.")
ASSUMPTIONS = ["TypeScript semantics of the emitted utility type __SelectionSet (not analysed)", "GraphQL spec §3.12 nullability, §5.5.2 fragment applicability",
               "the abstract evaluator's models of std (Option, iterators, Vec, itertools products) are exact or raise: anything without a model is UNDECIDED"]


def main(tier):
    return harness.run_property("C02", RULES, "other", EXPLANATION, ASSUMPTIONS, tier)
