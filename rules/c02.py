"""C02 — Generated result types admit nothing no execution could return (the anchored mechanisms)."""
import harness
from facts import (norm, call_name, short, subnodes, lit_value, matches_on, arm_variants, field_reads, peel_ty, lit_table,
                   matches_on_type)
from prov import Prov, has_field, has_call
from templates import variant_table, first_match, enclosing_contexts, recursion_discipline
from tsrules import nulltable_bottom_up, nulltable_top_down, namespace_targets, all_elements

PR = "nitrogql_printer::"
OT = PR + "operation_type_printer::"
TS_T = "graphql_type_system::r#type::Type"
A = "nitrogql_ast::"
TSD = "graphql_type_system::definitions::"


def r02a(P, R):
    impl = P.fn(OT + "selection_tree::to_ts::map_to_tstype_impl")
    wrap = P.fn(OT + "selection_tree::to_ts::map_to_tstype")
    nulltable_bottom_up(P, R, "R02-a", impl, wrap, "Type")
    g = P.fn(OT + "selection_tree::to_ts::generate_selection_tree_type_impl")
    nulltable_top_down(P, R, "R02-a", g, "SelectionTree", "is_non_null", True, ("List", "Object"))
    # entry starts nullable
    e = P.fn(OT + "selection_tree::to_ts::generate_selection_tree_type")
    calls = [c for c in e.walk() if c.get("k") == "Call" and call_name(c) == g.path]
    ok = len(calls) == 1 and lit_value(calls[0]["args"][2]) is False
    R.check("R02-a", "nulltable:entry", ok, "the root starts as nullable (only a NonNull wrapper removes `| null`)", "entry flag is not `false`", loc=e.loc())
    # Type -> SelectionTree keeps wrappers 1:1
    t = P.fn(OT + "type_printer::type_to_selection_tree")
    for m in matches_on(t, "Type"):
        tab = variant_table(m)
        want = {"Named": "Object", "List": "List", "NonNull": "NonNull"}
        for k, w in want.items():
            arm = tab.get(k)
            got = [norm(x.get("def", "")).split("::")[-1] for x in subnodes(arm["body"]) if x.get("k") == "Path" and "SelectionTree::" in norm(x.get("def", ""))] if arm else []
            R.check("R02-a", "wrappers:" + k, got[:1] == [w], "%s -> SelectionTree::%s" % (k, w), "Type::%s is turned into SelectionTree::%s" % (k, got[:1]), loc=t.loc())
    # nested object fields: wrapper of the field type is used (field_def.type passed)
    gf = P.fn(OT + "type_printer::get_fields_for_selection_set")
    pv = Prov(gf)
    calls = [c for c in gf.walk() if c.get("k") == "Call" and (call_name(c) or "").endswith("type_printer::get_type_for_selection_set")]
    R.floor("R02-a", "nested selection typing", len(calls), 1)
    for c in calls:
        ok = any(x[0] == "field" and x[2] == "type" and x[1] == TSD + "Field" for x in pv.atoms(c["args"][2]))
        R.check("R02-a", "nested-field-type", ok, "a nested selection is typed with the schema type of its field (wrappers included)",
                "nested selections are not typed from the field definition's type", loc=gf.loc())
    leafs = [n for n in gf.walk() if n.get("k") == "Struct" and "rest" not in n and norm(n.get("adt", "")).endswith("SelectionTreeLeaf")]
    R.floor("R02-a", "leaf constructions", len(leafs), 2)
    ok = any(any(x[0] == "field" and x[2] == "type" and x[1] == TSD + "Field" for x in pv.atoms([f for f in l["fields"] if f["name"] == "type"][0]["e"])) for l in leafs)
    R.check("R02-a", "leaf-field-type", ok, "a leaf carries exactly its schema field type", "leaf types do not come from the field definition", loc=gf.loc())


def r02b(P, R):
    f = P.fn(OT + "selection_tree::to_ts::field_to_type")
    pv = Prov(f)
    lits = [c for c in f.walk() if c.get("k") == "Call" and norm(c.get("callee", "")).endswith("TSType::StringLiteral")]
    R.floor("R02-b", "__typename literal site", len(lits), 1)
    for c in lits:
        R.check("R02-b", "typename-literal-source", ("param", "parent_type_name") in pv.atoms(c["args"][0]),
                "the __typename literal is the branch's object type name", "the __typename literal is not the branch's object type", loc=f.loc())
    g = P.fn(OT + "selection_tree::to_ts::generate_selection_tree_type_impl")
    pvg = Prov(g)
    calls = [c for c in g.walk() if c.get("k") == "Call" and call_name(c) == f.path]
    R.floor("R02-b", "field_to_type calls", len(calls), 2)
    BR = OT + "selection_tree::SelectionTreeBranch"
    for i, c in enumerate(calls):
        R.check("R02-b", "typename-branch:%d" % i, has_field(pvg.atoms(c["args"][2]), BR, "type_name"), "parent name = branch.type_name",
                "field_to_type is not given branch.type_name", loc=g.loc())
    go = P.fn(OT + "type_printer::get_object_type_for_selection_set")
    pvo = Prov(go)
    brs = [n for n in go.walk() if n.get("k") == "Struct" and "rest" not in n and norm(n.get("adt", "")) == BR]
    R.floor("R02-b", "branch constructions", len(brs), 1)
    for b in brs:
        e = [x for x in b["fields"] if x["name"] == "type_name"][0]["e"]
        a = pvo.atoms(e)
        ok = has_field(a, OT + "branching::BranchingCondition", "parent_obj") and has_field(a, TSD + "ObjectDefinition", "name")
        R.check("R02-b", "branch-name-source", ok, "branch.type_name = the concrete object type of the branching condition",
                "branch.type_name is not the branching condition's object type", loc=go.loc())
    # which leaf is `__typename` must be decided by the *field name*, not by the response key (alias)
    gf = P.fn(OT + "type_printer::get_fields_for_selection_set")
    pvf = Prov(gf)
    leaf_adt = OT + "selection_tree::SelectionTreeLeaf"
    name_atoms = set()
    for l in gf.walk():
        if l.get("k") == "Struct" and "rest" not in l and norm(l.get("adt", "")) == leaf_adt:
            name_atoms |= pvf.atoms([x for x in l["fields"] if x["name"] == "name"][0]["e"])
    # (after the fix) the leaf carries an `is_typename` flag: it must be true exactly under `field name == "__typename"`
    acc = gf.nodes()
    for i, (l, _) in enumerate(acc):
        if l.get("k") == "Struct" and "rest" not in l and norm(l.get("adt", "")) == leaf_adt:
            flag = [x for x in l["fields"] if x["name"] == "is_typename"]
            if not flag:
                continue
            v = lit_value(flag[0]["e"])
            guards = [c for c in enclosing_contexts(gf, i) if c[0] == "if-then" and any(lit_value(y) == "__typename" for y in subnodes(c[1]["cond"]))]
            if v is True:
                ok = bool(guards) and all(has_field(pvf.atoms(g[1]["cond"]), A + "selection_set::Field", "name")
                                          and not has_field(pvf.atoms(g[1]["cond"]), A + "selection_set::Field", "alias") for g in guards)
                R.check("R02-b", "typename-flag:true", ok, "is_typename is set under `field.name == \"__typename\"` (alias not consulted)",
                        "a leaf is marked as the __typename meta field on a path not guarded by the *field name* being `__typename`", loc=gf.loc())
            else:
                R.check("R02-b", "typename-flag:false", not guards and v is False, "ordinary leaves are not marked",
                        "an ordinary leaf is marked as __typename", loc=gf.loc())
    conds = [x for x in f.walk() if x.get("k") == "Binary" and x.get("op") == "==" and lit_value(x["r"]) == "__typename"]
    keyed_by_leaf_name = any(has_field(pv.atoms(c["l"]), leaf_adt, "name") for c in conds)
    alias_flows = has_field(name_atoms, A + "selection_set::Field", "alias")
    R.check("R02-b", "typename-keyed-by-field-name", not (keyed_by_leaf_name and alias_flows),
            "the __typename special case is keyed by the field name",
            "field_to_type recognises `__typename` by the leaf's *response key* (SelectionTreeLeaf.name, which is the alias when there is one): "
            "`t: __typename` is typed as the plain String scalar (admits strings no execution returns) and `__typename: name` gets the "
            "object-name literal", loc=f.loc())


def r02c(P, R):
    for name, floor in (("generate_selection_tree_type_impl", 1), ("field_to_type", 1)):
        f = P.fn(OT + "selection_tree::to_ts::" + name)
        namespace_targets(P, R, "R02-c", f, "OperationOutput", floor)


def r02d(P, R):
    f = P.fn("<" + A + "type_system::ObjectTypeDefinition as " + PR + "schema_type_printer::type_printer::TypePrinter>::print_type")
    all_elements(P, R, "R02-d", f, A + "type_system::ObjectTypeDefinition", "fields", "object fields (a missing key is dropped by Extract<keyof Orig, keyof Obj>)")
    pv = Prov(f)
    lits = [x.get("v") for x in f.walk() if x.get("k") == "Lit" and x.get("lk") == "str"]
    R.check("R02-d", "typename-key", "__typename" in lits, "object declarations list __typename", "object declarations do not list __typename", loc=f.loc())
    sl = [c for c in f.walk() if c.get("k") == "Call" and norm(c.get("callee", "")).endswith("TSType::StringLiteral")]
    ok = bool(sl) and has_field(pv.atoms(sl[0]["args"][0]), A + "type_system::ObjectTypeDefinition", "name")
    R.check("R02-d", "typename-value", ok, "__typename: \"<object name>\"", "__typename literal is not the object's name", loc=f.loc())


def _src_nodes(pv, e):
    """all nodes of `e` and, transitively, of the initialisers of the locals it mentions"""
    out, todo, seen = [], [e], set()
    while todo:
        n = todo.pop()
        for y in subnodes(n):
            out.append(y)
            if y.get("k") == "Path" and "local" in y and y["local"] not in seen:
                seen.add(y["local"])
                todo.extend(src for src, _ in pv.src.get(y["local"], []) if src is not None)
    return out


def r02e(P, R):
    """merging of same-key fields: a field skipped in one occurrence but selected in another is present"""
    f = P.fn(OT + "deep_merge::merge_fields")
    ms = [m for m in f.walk() if m.get("k") == "Match" and m.get("src") == "Normal" and m["scrut"].get("k") == "Tup" and not m.get("x")]
    R.floor("R02-e", "merge table", len(ms), 1)
    m = ms[0]
    pv = Prov(f)
    kinds = ("Empty", "Leaf", "Object")

    def result(arm):
        ctor = [norm(x.get("def", "")).split("::")[-1] for x in subnodes(arm["body"]) if x.get("k") == "Path" and "SelectionTreeField::" in norm(x.get("def", ""))
                and x.get("dk", "").startswith("Ctor")]
        side = {x[1] for x in pv.atoms(arm["body"]) if x[0] == "param"}
        panics = any((x.get("x") or "").startswith("$crate::panic") or "panic" in (x.get("x") or "") for x in subnodes(arm["body"]))
        return (ctor[0] if ctor else None), side, panics
    want = {("Empty", "Empty"): ("Empty", None), ("Leaf", "Leaf"): ("Leaf", None), ("Object", "Object"): ("Object", {"left", "right"}),
            ("Leaf", "Empty"): ("Leaf", {"left"}), ("Empty", "Leaf"): ("Leaf", {"right"}),
            ("Object", "Empty"): ("Object", {"left"}), ("Empty", "Object"): ("Object", {"right"})}
    for (l, r), (wk, wside) in sorted(want.items()):
        idx = first_match(m, (l, r))
        got = result(m["arms"][idx]) if idx is not None else (None, set(), False)
        ok = got[0] == wk and not got[2] and (wside is None or got[1] == wside)
        R.check("R02-e", "merge:(%s, %s)" % (l, r), ok, "-> %s" % wk,
                "merging a %s occurrence with a %s occurrence of the same response key yields %s from %s (expected %s%s): %s"
                % (l, r, got[0], sorted(got[1]), wk, (" from " + str(sorted(wside))) if wside else "",
                   "a field that is selected in one of the occurrences becomes `?: never`" if got[0] == "Empty" else "wrong side kept"), loc=f.loc())
    # deep_merge keeps the first position of a key and merges later occurrences into it
    d = P.fn(OT + "deep_merge::deep_merge_selection_tree")
    ok = any((call_name(c) or "") == f.path for c in d.walk() if c.get("k") == "Call")
    R.check("R02-e", "merge-used", ok, "duplicate keys are merged through merge_fields", "deep_merge_selection_tree does not merge duplicates through merge_fields", loc=d.loc())
    n = recursion_discipline(P, R, "R02-e", [P.fn(OT + "deep_merge::merge_selection_trees")])
    # branch pairing: the partner of a left branch is looked up by type name over the whole right side, never by position
    g = P.fn(OT + "deep_merge::merge_selection_trees")
    gpv = Prov(g)
    BR = OT + "selection_tree::SelectionTreeBranch"
    partner = [m for m in g.walk() if m.get("k") == "Match" and not m.get("x") and m.get("src") == "Normal"
               and "Option<" in str(m["scrut"].get("t", "")) and "SelectionTreeBranch" in str(m["scrut"].get("t", ""))
               and not (call_name(m["scrut"]) or "").endswith("Iterator::next")]
    R.floor("R02-e", "partner-branch lookups in merge_selection_trees", len(partner), 1)
    POSITIONAL = ("<[T]>::get", "<[T]>::first", "<[T]>::last", "Iterator::nth", "Iterator::zip", "Iterator::enumerate", "Index::index", "Vec<T, A>::pop")
    for m in partner:
        a = gpv.atoms(m["scrut"])
        calls = {x[1] for x in gpv.data_atoms(m["scrut"]) if x[0] == "call"}
        pos = sorted(c for c in calls if any(c.endswith(p) for p in POSITIONAL))
        indexed = any(x.get("k") == "Index" for x in _src_nodes(gpv, m["scrut"]))
        by_key = has_call(a, "find") and has_field(a, BR, "type_name")
        R.check("R02-e", "branch-pairing", by_key and not pos and not indexed,
                "the right-hand partner of a branch is found by `type_name` equality over all right branches",
                "merge_selection_trees pairs branches %s (calls: %s): when one side has several branches per object type (one per "
                "@skip/@include assignment) a branch is merged with the wrong partner or none, and loses the other occurrence's fields"
                % ("by position" if pos or indexed else "without comparing type_name", pos or sorted(short(c) for c in calls)), loc=g.loc())
    # leftover right branches are appended unless a branch of the same type is already present
    anys = [c for c in g.walk() if c.get("k") == "MethodCall" and c.get("method") == "any"]
    ok = any(has_field(gpv.atoms(c), BR, "type_name") for c in anys)
    from tsrules import fast_equal_sound
    fast_equal_sound(P, R, "R02-e")
    R.check("R02-e", "branch-leftover", ok, "right-only branches are kept (presence tested by type_name)",
            "merge_selection_trees does not test right-only branches by type_name before appending them", loc=g.loc())


def r02f(P, R):
    """only possible (type, variables) branches: type-condition filter and skip/include tables"""
    f = P.fn(OT + "type_printer::check_fragment_condition")
    pv = Prov(f)
    for m in matches_on(f, "TypeDefinition"):
        tab = variant_table(m)
        need = {"Object": [(TSD + "ObjectDefinition", "name")], "Interface": [(TSD + "ObjectDefinition", "interfaces"), (TSD + "InterfaceDefinition", "name")],
                "Union": [(TSD + "UnionDefinition", "possible_types"), (TSD + "ObjectDefinition", "name")]}
        for k, fields in sorted(need.items()):
            arm = tab.get(k)
            a = pv.atoms(arm["body"]) if arm else set()
            ok = arm is not None and ("param", "object_def") in a and all(has_field(a, ad, fl) for ad, fl in fields)
            R.check("R02-f", "type-condition:" + k, ok, "a %s condition is compared with the branch's object type" % k,
                    "check_fragment_condition does not relate a %s type condition to the branch's concrete object type: fragments on that "
                    "kind are applied to every branch (keys appear in types of objects that never have them)" % k, loc=f.loc())
        for k in ("Scalar", "Enum", "InputObject"):
            arm = tab.get(k)
            R.check("R02-f", "type-condition:" + k, arm is not None and lit_value(arm["body"]) is False, "never applies", "%s conditions apply" % k, loc=f.loc())
    gf = P.fn(OT + "type_printer::get_fields_for_selection_set")
    # both named spreads and conditioned inline fragments are filtered by check_fragment_condition
    calls = [c for c in gf.walk() if c.get("k") == "Call" and call_name(c) == f.path]
    R.check("R02-f", "type-condition:sites", len(calls) == 2, "fragment spreads and conditioned inline fragments are filtered",
            "%d call(s) to check_fragment_condition (expected 2)" % len(calls), loc=gf.loc())
    pvg = Prov(gf)
    for i, c in enumerate(calls):
        R.check("R02-f", "type-condition:arg:%d" % i, has_field(pvg.atoms(c["args"][1]), OT + "branching::BranchingCondition", "parent_obj"),
                "compared against the branch's object", "the filter is not given the branch's object", loc=gf.loc())
    # skip / include table
    s = P.fn(OT + "type_printer::check_skip_directive")
    ms = matches_on_type(s, "str")
    R.floor("R02-f", "skip/include match", len(ms), 1)
    for m in ms:
        rows = lit_table(m)
        for lits, guard, catch, arm in rows:
            for l in lits:
                ifs = [x for x in subnodes(arm["body"]) if x.get("k") == "If"]
                negs = [any(y.get("k") == "Unary" and y.get("op") == "Not" for y in subnodes(i["cond"])) for i in ifs]
                want = (l == "include")
                R.check("R02-f", "skip-table:@" + l, len(ifs) == 2 and all(n == want for n in negs),
                        "@%s omits the field when its condition is %s" % (l, "false" if want else "true"),
                        "the @%s row of check_skip_directive tests %s (expected both the variable and the literal case %s)"
                        % (l, negs, "negated" if want else "not negated"), loc=s.loc())
                rets = [x for x in subnodes(arm["body"]) if x.get("k") == "Ret" and lit_value(x.get("e", {})) is True]
                R.check("R02-f", "skip-table:@%s:returns" % l, len(rets) == 2, "both cases return `skipped`", "@%s does not return true in both cases" % l, loc=s.loc())
    # every boolean variable is enumerated with both values
    g = P.fn(OT + "type_printer::generate_branching_conditions")
    bools = sorted(set(x.get("v") for x in g.walk() if x.get("k") == "Lit" and x.get("lk") == "bool"))
    R.check("R02-f", "variables-both-values", bools == [False, True], "each boolean variable is branched on false and true",
            "branching enumerates %s for boolean variables" % bools, loc=g.loc())
    for m in matches_on(g, "TypeDefinition"):
        tab = variant_table(m)
        pvb = Prov(g)
        ok = "Object" in tab and "Interface" in tab and "Union" in tab
        ia = pvb.atoms(tab["Interface"]["body"]) if "Interface" in tab else set()
        ua = pvb.atoms(tab["Union"]["body"]) if "Union" in tab else set()
        R.check("R02-f", "possible-types", ok and has_call(ia, "utils::interface_implementers") and has_field(ua, TSD + "UnionDefinition", "possible_types"),
                "branches = the object itself / implementers of the interface / members of the union",
                "generate_branching_conditions does not enumerate implementers / union members", loc=g.loc())


RULES = [("R02-a", r02a), ("R02-b", r02b), ("R02-c", r02c), ("R02-d", r02d), ("R02-e", r02e), ("R02-f", r02f)]
EXPLANATION = (
    "The mechanisms C02 anchors, each a necessary condition decided for all inputs: (R02-a) nullability tables of the output-type "
    "builders — a type is nullable unless wrapped in Non-Null, list elements are decided afresh, wrappers are carried 1:1 into the "
    "selection tree, leaves and nested selections use the schema field's type; (R02-b) the __typename literal is the branch's "
    "concrete object type, and the special case is keyed by field name rather than response key; (R02-c) result leaves and branches "
    "refer to the OperationOutput namespace; (R02-d) object declarations list __typename plus every field; (R02-e) the merge table "
    "of same-key fields evaluated with first-match semantics (a field selected in any occurrence is present, sides kept correctly); "
    "(R02-f) the type-condition filter relates each kind of condition to the branch's object, @skip/@include rows, both values of "
    "each boolean variable, possible types per parent kind. Not decided: that the emitted union equals the per-selection-set "
    "denotation.")
ASSUMPTIONS = ["TypeScript semantics of the emitted utility type __SelectionSet (not analysed)", "GraphQL spec §3.12 nullability, §5.5.2 fragment applicability"]


def main(tier):
    return harness.run_property("C02", RULES, "other", EXPLANATION, ASSUMPTIONS, tier)
