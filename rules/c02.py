"""C02 — Generated result types admit nothing no execution could return (the anchored mechanisms).

Two kinds of instances:

* *structural* ones (provenance / tables read off the typed HIR).  They look through helper functions (`_inl`: virtual inlining of
  every same-crate callee that is not itself an anchor of this property) and are three-valued: VIOLATED only on positive evidence
  (an atom that is *absent* from an over-approximated provenance set, a constant of the wrong value), UNDECIDED when the shape that
  would carry the evidence is not found.
* *scenario* ones (`run:` in the message).  The anchored entry points — `get_type_for_selection_set`, `generate_selection_tree_type`,
  `deep_merge_selection_tree`, all `pub` — are executed by a small interpreter of the typed HIR (`_Interp`, bottom of this file) on
  partially determined inputs: a fixed small schema, a GraphQL selection written as text, everything else (positions, options)
  undetermined.  The result is compared with what the GraphQL spec prescribes for that input (`_Oracle`: CollectFields with type
  conditions, @skip/@include, same-key merging; nullability by wrapper).  A differing result is a concrete witness, hence positive
  evidence, and it does not depend on how the code is spelled (loop / iterator chain, match / if-let / let-else, helpers, tuple /
  struct, Vec+find / HashMap).  Whatever the interpreter has no exact model for makes the instance UNDECIDED, never an alarm.
"""
import itertools
import re

import harness
from facts import (norm, call_name, short, subnodes, lit_value, matches_on, AnchorMissing)
from prov import Prov, has_field, has_call
from templates import (variant_table, enclosing_contexts, recursion_discipline, inlined, method_chain)

PR = "nitrogql_printer::"
OT = PR + "operation_type_printer::"
A = "nitrogql_ast::"
TS = "graphql_type_system::"
TSD = TS + "definitions::"
ST = OT + "selection_tree::"
BC = OT + "branching::BranchingCondition"

# functions this property (and C01) anchors: a callee that is *not* in this list is a helper and is looked through
ANCHORS = [OT + "type_printer::" + n for n in (
    "get_type_for_selection_set", "type_to_selection_tree", "generate_branching_conditions", "get_boolean_variables",
    "get_object_type_for_selection_set", "get_fields_for_selection_set", "check_skip_directive", "check_fragment_condition")] + [
    OT + "deep_merge::" + n for n in ("deep_merge_selection_tree", "merge_fields", "merge_selection_trees")] + [
    OT + "selection_tree::to_ts::" + n for n in ("generate_selection_tree_type", "generate_selection_tree_type_impl", "field_to_type",
                                               "map_to_tstype", "map_to_tstype_impl")] + [
    OT + "selection_set_visitor::visit_fields_in_selection_set", OT + "selection_set_visitor::visit_fields_in_selection_set_impl",
    PR + "utils::interface_implementers", PR + "ts_types::ts_types_util::ts_union", PR + "ts_types::fast_equal::fast_equal"]
_PRED = {}
# adaptors / in-place operations that drop elements whatever their arguments (a predicate-driven `filter` is not in this list: whether
# it drops anything depends on the predicate)
TRUNCATING = {"skip", "skip_while", "take", "take_while", "step_by", "map_while", "nth", "last", "truncate", "drain", "remove", "pop", "clear",
              "swap_remove", "split_off", "dedup", "dedup_by", "dedup_by_key", "unique_by", "peekable_skip"}


def _inl(P, f):
    """`f` with the bodies of its helper callees attached (templates.inlined), anchors of the property excluded"""
    if id(P) not in _PRED:
        paths = set()
        for a in ANCHORS:
            try:
                g = P.fn(a, required=False)
            except AnchorMissing:
                g = None
            if g is not None:
                paths.add(g.path)
        _PRED[id(P)] = lambda g, paths=paths: g.path not in paths
    return inlined(P, f, pred=_PRED[id(P)])


def _sections(P, R, rule, *parts):
    """each part has its own anchors: one that cannot be resolved leaves only that part undecided"""
    for part in parts:
        try:
            part(P, R)
        except AnchorMissing as e:
            R.undecided(rule, "anchor:" + part.__name__.lstrip("_"), "kind=anchor-missing: %s (this part of the rule is not evaluated on this shape of the code)" % e)


def _tri(R, rule, key, verdict, ok="", bad="", und="", loc=None):
    """verdict: True -> HOLDS, False -> VIOLATED, None -> UNDECIDED"""
    if verdict is True:
        R.holds(rule, key, ok, loc)
    elif verdict is False:
        R.violated(rule, key, bad or ok, loc)
    else:
        R.undecided(rule, key, und or ("not decided on this shape of the code: " + ok), loc)


# =================================================================================================================== R02-a
def r02a(P, R):
    _sections(P, R, "R02-a", _a_leaf_nullability, _a_tree_nullability, _a_field_kinds, _a_wrappers)


LEAF_TYPES = ("String", "String!", "[String]", "[String!]", "[String]!", "[String!]!", "[[String]!]", "[[String!]]!")


def _a_leaf_nullability(P, R):
    """leaf field of GraphQL type T -> TypeScript type: `| null` exactly where T has no Non-Null wrapper, at every list depth"""
    S = _scn(P)
    f = S.to_ts
    fields = {"f%d" % i: ("leaf", _ty(t), False) for i, t in enumerate(LEAF_TYPES)}
    tree = ("NonNull", ("Object", frozenset({("User", frozenset(fields.items()), frozenset())})))
    st, got = S.run_ts(tree)
    for i, t in enumerate(LEAF_TYPES):
        key = "nulltable:" + t
        want = _o_ts_leaf(_ty(t))
        if st != "ok":
            _scenario_failed(R, "R02-a", key, st, got, "the TypeScript type of a leaf of type %s" % t, f)
            continue
        have = _ts_field(_any_target(got), "f%d" % i)
        want = _any_target(want)
        _tri(R, "R02-a", key, None if have is None else have == (want, False),
             "run: a leaf of type %s is typed %s" % (t, _show_ts(want)),
             "run: %s types a leaf field of GraphQL type %s as %s, the spec table gives %s (a type is nullable unless wrapped in Non-Null, list "
             "elements are decided afresh): %s" % (f.path, t, _show_ts(have[0]) if have else "?", _show_ts(want), _null_diff(have[0] if have else None, want)),
             "run: the field f%d was not found in the produced object type" % i, loc=f.loc())


def _a_tree_nullability(P, R):
    S = _scn(P)
    f = S.to_ts
    br = frozenset({("User", frozenset({("id", ("leaf", _ty("String!"), False))}), frozenset())})
    for t in ("User", "User!", "[User]", "[User!]", "[User]!", "[User!]!", "[[User]!]"):
        tree = _wrap_tree(_ty(t), ("Object", br))
        st, got = S.run_ts(tree)
        key = "nulltable:selection:" + t
        if st != "ok":
            _scenario_failed(R, "R02-a", key, st, got, "the TypeScript type of an object selection of type %s" % t, f)
            continue
        got, want = _any_target(got), _any_target(_o_ts_tree(tree))
        _tri(R, "R02-a", key, got == want, "run: an object selection of type %s is typed %s" % (t, _show_ts(want)),
             "run: %s types an object selection of GraphQL type %s as %s, the spec table gives %s: %s"
             % (f.path, t, _show_ts(got), _show_ts(want), _null_diff(got, want)), loc=f.loc())


def _a_field_kinds(P, R):
    """the three kinds of tree fields and the two key spaces (unaliased / aliased) arrive in the TypeScript type where they belong"""
    S = _scn(P)
    f = S.to_ts
    leaf = ("leaf", _ty("String"), False)
    inner = ("List", ("Object", frozenset({("Bot", frozenset({("id", ("leaf", _ty("String!"), False)), ("gone", ("empty",))}), frozenset())})))
    tree = ("NonNull", ("Object", frozenset({
        ("User", frozenset({("kept", leaf), ("omitted", ("empty",)), ("nested", ("obj", inner))}), frozenset({("renamed", leaf), ("dropped", ("empty",))})),
        ("Bot", frozenset({("kept", leaf)}), frozenset())})))
    st, got = S.run_ts(tree)
    if st != "ok":
        _scenario_failed(R, "R02-a", "to-ts:field-kinds", st, got, "the TypeScript type of a selection with omitted, leaf and object fields", f)
        return
    got, want = _any_target(got), _any_target(_o_ts_tree(tree))
    _tri(R, "R02-a", "to-ts:field-kinds", got == want,
         "run: an omitted field is `key?: never`, a leaf its scalar type, an object field the type of its selection; unaliased and aliased keys stay apart",
         "run: %s types a selection with omitted / leaf / object fields as %s; expected %s (an omitted field is `key?: never`, selected fields "
         "are required, unaliased keys go to the second and aliased keys to the third argument of __SelectionSet)" % (f.path, _show_ts(got), _show_ts(want)), loc=f.loc())


def _a_wrappers(P, R):
    """Type -> SelectionTree keeps the wrappers 1:1; leaves and nested selections carry the schema type of their field"""
    S = _scn(P)
    for t in ("User", "User!", "[User]", "[User!]!", "[[User]!]"):
        _scenario(R, "R02-a", "wrappers:" + t, S, t, "{ id }", "List / Non-Null wrappers of the parent type are carried into the selection tree one to one")
    _scenario(R, "R02-a", "leaf-field-type", S, "User", "{ id name tags matrix }", "a leaf carries exactly the schema type of its field (wrappers included)")
    _scenario(R, "R02-a", "nested-field-type", S, "User", "{ friends { id } best { id } owner: pet { __typename } }",
              "a nested selection is typed with the schema type of its field (wrappers included)")


# =================================================================================================================== R02-b
def r02b(P, R):
    _sections(P, R, "R02-b", _b_run, _b_literal_source, _b_branch_name, _b_flag)


def _b_run(P, R):
    S = _scn(P)
    _scenario(R, "R02-b", "typename-flag:run", S, "Node", "{ __typename t: __typename n: id }",
              "the `__typename` meta field is recognised by its field name, with or without an alias, and nothing else is")
    # to_ts: the literal is the branch's object type
    br = frozenset({(o, frozenset({("__typename", ("leaf", None, True))}), frozenset({("t", ("leaf", None, True)), ("n", ("leaf", _ty("String"), False))}))
                    for o in ("User", "Bot")})
    tree = ("NonNull", ("Object", br))
    st, got = S.run_ts(tree)
    if st != "ok":
        _scenario_failed(R, "R02-b", "typename-literal:run", st, got, "the type of `__typename` in each branch", S.to_ts)
    else:
        got, want = _any_target(got), _any_target(_o_ts_tree(tree))
        _tri(R, "R02-b", "typename-literal:run", got == want, "run: `__typename` is the string literal of the branch's own object type",
             "run: %s types the branches User | Bot of `{ __typename t: __typename n: id }` as %s, expected %s: the `__typename` literal must be the "
             "branch's object type name and only flagged leaves get it" % (S.to_ts.path, _show_ts(got), _show_ts(want)), loc=S.to_ts.loc())


def _b_literal_source(P, R):
    f = _inl(P, P.fn(OT + "selection_tree::to_ts::field_to_type"))
    pv = Prov(f)
    lits = [c for c in f.walk() if c.get("k") == "Call" and norm(c.get("callee", "")).endswith("TSType::StringLiteral")]
    R.floor("R02-b", "__typename literal site", len(lits), 1)
    for c in lits:
        if "parent_type_name" not in pv.params.values() or len(c["args"]) != 1:
            R.undecided("R02-b", "typename-literal-source", "field_to_type no longer has the parameter `parent_type_name` (the run instance "
                        "typename-literal:run decides the behaviour)", loc=f.loc())
            continue
        a = pv.deep_atoms(c["args"][0])
        R.check("R02-b", "typename-literal-source", ("param", "parent_type_name") in a or has_field(a, ST + "SelectionTreeBranch", "type_name"),
                "the __typename literal is the branch's object type name", "the __typename literal is not the branch's object type", loc=f.loc())
    g = _inl(P, P.fn(OT + "selection_tree::to_ts::generate_selection_tree_type_impl"))
    pvg = Prov(g)
    target = P.fn(OT + "selection_tree::to_ts::field_to_type").path
    calls = [c for c in g.walk() if c.get("k") == "Call" and call_name(c) == target]
    R.floor("R02-b", "field_to_type calls", len(calls), 2)
    BR = ST + "SelectionTreeBranch"
    for i, c in enumerate(calls):
        if len(c["args"]) != 3:
            R.undecided("R02-b", "typename-branch:%d" % i, "field_to_type is called with %d arguments (3 on the reference tree)" % len(c["args"]), loc=g.loc())
            continue
        R.check("R02-b", "typename-branch:%d" % i, has_field(pvg.deep_atoms(c["args"][2]), BR, "type_name"), "parent name = branch.type_name",
                "field_to_type is not given branch.type_name", loc=g.loc())


def _b_branch_name(P, R):
    go = _inl(P, P.fn(OT + "type_printer::get_object_type_for_selection_set"))
    pvo = Prov(go)
    BR = ST + "SelectionTreeBranch"
    brs = [n for n in go.walk() if n.get("k") == "Struct" and "rest" not in n and norm(n.get("adt", "")) == BR]
    R.floor("R02-b", "branch constructions", len(brs), 1)
    for b in brs:
        e = [x for x in b["fields"] if x["name"] == "type_name"]
        if not e:
            R.undecided("R02-b", "branch-name-source", "the branch literal has no `type_name` field", loc=go.loc())
            continue
        a = pvo.deep_atoms(e[0]["e"])
        ok = has_field(a, BC, "parent_obj") and has_field(a, TSD + "ObjectDefinition", "name")
        R.check("R02-b", "branch-name-source", ok, "branch.type_name = the concrete object type of the branching condition",
                "branch.type_name is not the branching condition's object type", loc=go.loc())


def _b_flag(P, R):
    """which leaf is `__typename` must be decided by the *field name*, not by the response key (alias)"""
    f = _inl(P, P.fn(OT + "selection_tree::to_ts::field_to_type"))
    pv = Prov(f)
    gf = _inl(P, P.fn(OT + "type_printer::get_fields_for_selection_set"))
    pvf = Prov(gf)
    leaf_adt = ST + "SelectionTreeLeaf"
    name_atoms = set()
    for l in gf.walk():
        if l.get("k") == "Struct" and "rest" not in l and norm(l.get("adt", "")) == leaf_adt:
            for x in l["fields"]:
                if x["name"] == "name":
                    name_atoms |= pvf.atoms(x["e"])
    acc = gf.nodes()
    for i, (l, _) in enumerate(acc):
        if l.get("k") == "Struct" and "rest" not in l and norm(l.get("adt", "")) == leaf_adt:
            flag = [x for x in l["fields"] if x["name"] == "is_typename"]
            if not flag:
                continue
            v = lit_value(flag[0]["e"])
            guards = [c for c in enclosing_contexts(gf, i) if c[0] == "if-then" and any(lit_value(y) == "__typename" for y in subnodes(c[1]["cond"]))]
            if v is True:
                if not guards:
                    R.undecided("R02-b", "typename-flag:true", "a leaf is flagged `is_typename: true` outside an `if .. == \"__typename\"` (the run "
                                "instance typename-flag:run decides the behaviour)", loc=gf.loc())
                    continue
                ok = all(has_field(pvf.atoms(g[1]["cond"]), A + "selection_set::Field", "name")
                         and not has_field(pvf.atoms(g[1]["cond"]), A + "selection_set::Field", "alias") for g in guards)
                R.check("R02-b", "typename-flag:true", ok, "is_typename is set under `field.name == \"__typename\"` (alias not consulted)",
                        "a leaf is marked as the __typename meta field on a path not guarded by the *field name* being `__typename`", loc=gf.loc())
            elif v is False:
                R.check("R02-b", "typename-flag:false", not guards, "ordinary leaves are not marked",
                        "an ordinary leaf is built under the `== \"__typename\"` test but not marked", loc=gf.loc())
    conds = [x for x in f.walk() if x.get("k") == "Binary" and x.get("op") == "==" and lit_value(x["r"]) == "__typename"]
    keyed_by_leaf_name = any(has_field(pv.atoms(c["l"]), leaf_adt, "name") for c in conds)
    alias_flows = has_field(name_atoms, A + "selection_set::Field", "alias")
    R.check("R02-b", "typename-keyed-by-field-name", not (keyed_by_leaf_name and alias_flows),
            "the __typename special case is keyed by the field name",
            "field_to_type recognises `__typename` by the leaf's *response key* (SelectionTreeLeaf.name, which is the alias when there is one): "
            "`t: __typename` is typed as the plain String scalar (admits strings no execution returns) and `__typename: name` gets the "
            "object-name literal", loc=f.loc())


# =================================================================================================================== R02-c
def r02c(P, R):
    _sections(P, R, "R02-c", _c_targets, _c_run)


def _c_targets(P, R):
    for name, floor in (("generate_selection_tree_type_impl", 1), ("field_to_type", 1)):
        f = _inl(P, P.fn(OT + "selection_tree::to_ts::" + name))
        _namespace_targets(P, R, "R02-c", f, "OperationOutput", floor)


def _namespace_targets(P, R, rule, fn, want_target, floor):
    """every TSType::NamespaceMember3 built in `fn` (helpers included) carries TypeTarget::<want_target>"""
    n = 0
    pv = Prov(fn)
    for c in fn.walk():
        if c.get("k") == "Call" and norm(c.get("callee", "")).endswith("TSType::NamespaceMember3") and len(c["args"]) == 3:
            n += 1
            a = pv.deep_atoms(c["args"][1])
            targets = {x[1].split("::")[-1] for x in a if x[0] == "def" and "type_target::TypeTarget::" in x[1]}
            key = "namespace:%s#%d" % (short(fn.path), n)
            if not targets:
                R.undecided(rule, key, "the namespace of a schema reference in %s is not a TypeTarget constant (the run instance decides it)" % fn.path, loc=fn.loc())
                continue
            R.check(rule, key, targets == {want_target}, "refers to the %s namespace" % want_target,
                    "%s builds a schema reference into namespace %s; this position must use %s" % (fn.path, sorted(targets), want_target), loc=fn.loc())
    R.floor(rule, "namespace references in " + short(fn.path), n, floor)


def _c_run(P, R):
    S = _scn(P)
    tree = _o_tree_for(S, "Node", "{ id ... on User { best { id } } }")
    st, got = S.run_ts(tree)
    if st != "ok":
        _scenario_failed(R, "R02-c", "namespace:run", st, got, "the namespaces referred to by a result type", S.to_ts)
        return
    targets = sorted(_ts_targets(got))
    _tri(R, "R02-c", "namespace:run", targets == ["OperationOutput"], "run: every schema reference of a result type is in the OperationOutput namespace",
         "run: %s refers to namespace(s) %s in a result type; results are typed by OperationOutput only" % (S.to_ts.path, targets), loc=S.to_ts.loc())


# =================================================================================================================== R02-d
def r02d(P, R):
    f = P.fn("<" + A + "type_system::ObjectTypeDefinition as " + PR + "schema_type_printer::type_printer::TypePrinter>::print_type")
    fi = _inl(P, f)
    _all_elements(P, R, "R02-d", fi, A + "type_system::ObjectTypeDefinition", "fields", "object fields (a missing key is dropped by Extract<keyof Orig, keyof Obj>)")
    pv = Prov(fi)
    lits = [x.get("v") for x in fi.walk() if x.get("k") == "Lit" and x.get("lk") == "str"]
    _tri(R, "R02-d", "typename-key", True if "__typename" in lits else None, "object declarations list __typename",
         und="no `__typename` literal in %s or its helpers: where the key is emitted is not recognised" % f.path, loc=f.loc())
    sl = [c for c in fi.walk() if c.get("k") == "Call" and norm(c.get("callee", "")).endswith("TSType::StringLiteral")]
    if not sl:
        R.undecided("R02-d", "typename-value", "no string-literal type is built in %s: the __typename member is not recognised" % f.path, loc=f.loc())
    else:
        ok = any(has_field(pv.deep_atoms(c["args"][0]), A + "type_system::ObjectTypeDefinition", "name") for c in sl)
        R.check("R02-d", "typename-value", ok, "__typename: \"<object name>\"", "__typename literal is not the object's name", loc=f.loc())


def _all_elements(P, R, rule, fn, adt, field, what):
    """the collection `adt.field` is consumed completely: no truncating adaptor on the chain that starts at it"""
    found = 0
    key = "all:%s.%s@%s" % (adt.split("::")[-1], field, short(fn.path))
    for c in fn.walk():
        if c.get("k") != "MethodCall":
            continue
        base, chain = method_chain(c)
        if base.get("k") == "Field" and norm(base.get("adt")) == adt and base["field"] == field:
            names = [x["method"] for x in chain]
            found += 1
            bad = [m for m in names if m in TRUNCATING]
            if bad:
                R.violated(rule, key, "%s applies %s to %s: some %s are dropped from the declaration" % (fn.path, bad, field, what), loc=fn.loc())
                return
            maybe = [m for m in names if m in ("filter", "filter_map", "retain")]
            if maybe:
                R.undecided(rule, key, "%s applies %s to %s: whether an element can be dropped is not decided" % (fn.path, maybe, field), loc=fn.loc())
                return
    loops = [n for n in fn.walk() if n.get("k") == "Match" and n.get("src") == "ForLoopDesugar"
             and any(x.get("k") == "Field" and norm(x.get("adt")) == adt and x["field"] == field for x in subnodes(n["scrut"]))]
    if found or loops:
        R.holds(rule, key, "every element of `%s` is emitted (%s)" % (field, what), loc=fn.loc())
    else:
        R.undecided(rule, key, "kind=anchor-missing: no iteration over `%s.%s` found in %s or its helpers" % (adt.split("::")[-1], field, fn.path), loc=fn.loc())


# =================================================================================================================== R02-e
def r02e(P, R):
    """merging of same-key fields: a field skipped in one occurrence but selected in another is present"""
    _sections(P, R, "R02-e", _e_table, _e_position, _e_branches, _e_pipeline, _e_recursion, _e_fast_equal)


_MERGE_WANT = {("Empty", "Empty"): ("Empty", None), ("Leaf", "Leaf"): ("Leaf", None), ("Object", "Object"): ("Object", "both"),
               ("Leaf", "Empty"): ("Leaf", "left"), ("Empty", "Leaf"): ("Leaf", "right"),
               ("Object", "Empty"): ("Object", "left"), ("Empty", "Object"): ("Object", "right")}


def _e_table(P, R):
    """the merge table, read off by running the public entry on two occurrences of one response key"""
    S = _scn(P)
    f = S.merge

    def mk(kind, side):
        if kind == "Empty":
            return _v_field("k", ("empty",))
        if kind == "Leaf":
            return _v_field("k", ("leaf", _ty("T" + side), False))
        return _v_field("k", ("obj", ("NonNull", ("Object", frozenset({("A", frozenset({(side.lower(), ("leaf", _ty("String"), False))}), frozenset())})))))
    for (l, r), (wk, wside) in sorted(_MERGE_WANT.items()):
        key = "merge:(%s, %s)" % (l, r)
        st, got = S.run_merge([mk(l, "L"), mk(r, "R")])
        if st != "ok":
            _scenario_failed(R, "R02-e", key, st, got, "merging a %s occurrence with a %s occurrence of one response key" % (l, r), f)
            continue
        if len(got) != 1 or got[0][0] != "k":
            R.violated("R02-e", key, "run: %s turns two occurrences of the response key `k` (%s, %s) into %s: duplicates are not merged into "
                       "one field" % (f.path, l, r, [_show_field(x) for x in got]), loc=f.loc())
            continue
        fld = got[0][1]
        kind = {"empty": "Empty", "leaf": "Leaf", "obj": "Object"}[fld[0]]
        side = None
        if kind == "Leaf":
            side = {"TL": "left", "TR": "right"}.get(fld[1][1])
        elif kind == "Object":
            keys = {k for b in _branches_of(fld[1]) for k, _ in b[1]}
            side = {frozenset("l"): "left", frozenset("r"): "right", frozenset("lr"): "both"}.get(frozenset(keys), "neither")
        ok = kind == wk and (wside is None or side == wside)
        R.check("R02-e", key, ok, "run: -> %s%s" % (wk, (" of the %s occurrence" % wside) if wside in ("left", "right") else ""),
                "run: merging a %s occurrence with a %s occurrence of the same response key yields %s%s (expected %s%s): %s"
                % (l, r, kind, (" from " + side) if side else "", wk, (" from " + wside) if wside else "",
                   "a field that is selected in one of the occurrences becomes `?: never`" if kind == "Empty" else "the wrong occurrence is kept"), loc=f.loc())


def _e_position(P, R):
    """duplicates are merged into the first position, distinct keys are all kept"""
    S = _scn(P)
    f = S.merge
    leaf = lambda k, t="String": _v_field(k, ("leaf", _ty(t), False))
    st, got = S.run_merge([leaf("x", "T1"), _v_field("y", ("empty",)), leaf("z"), leaf("y", "T2"), _v_field("x", ("empty",))])
    if st != "ok":
        _scenario_failed(R, "R02-e", "merge-used", st, got, "de-duplication of response keys", f)
        return
    want = [("x", ("leaf", _ty("T1"), False)), ("y", ("leaf", _ty("T2"), False)), ("z", ("leaf", _ty("String"), False))]
    R.check("R02-e", "merge-used", sorted(got) == sorted(want), "run: duplicate keys are merged through the merge table, distinct keys are kept",
            "run: %s([x: T1, y: empty, z, y: T2, x: empty]) = %s; expected one field per key with x: T1, y: T2, z" % (f.path, [_show_field(x) for x in got]), loc=f.loc())


def _e_branches(P, R):
    """branches of two occurrences of an object field are paired by object type, never by position; branches present on one side only are kept"""
    S = _scn(P)
    f = S.merge
    lf = lambda k: (k, ("leaf", _ty("String"), False))
    L = ("NonNull", ("List", ("Object", (("A", frozenset({lf("a1")}), frozenset({lf("p1")})), ("B", frozenset({lf("b1")}), frozenset())))))
    Rt = ("NonNull", ("List", ("Object", (("B", frozenset({lf("b2")}), frozenset()), ("C", frozenset({lf("c2")}), frozenset()),
                                          ("A", frozenset({lf("a2"), lf("a1")}), frozenset({lf("p2")}))))))
    st, got = S.run_merge([_v_field("k", ("obj", L)), _v_field("m", ("leaf", _ty("String"), False)), _v_field("k", ("obj", Rt))])
    for key in ("branch-pairing", "branch-leftover", "merge-wrappers"):
        if st != "ok":
            _scenario_failed(R, "R02-e", key, st, got, "merging two occurrences of an object field whose branches come in different orders", f)
    if st != "ok":
        return
    k = [x[1] for x in got if x[0] == "k"]
    if len(k) != 1 or k[0][0] != "obj":
        R.violated("R02-e", "branch-pairing", "run: two object occurrences of one key are not merged into one object field: %s" % [_show_field(x) for x in got], loc=f.loc())
        return
    tree = k[0][1]
    wr = []
    t = tree
    while t[0] in ("NonNull", "List"):
        wr.append(t[0])
        t = t[1]
    R.check("R02-e", "merge-wrappers", wr == ["NonNull", "List"], "run: the wrappers of the merged selection are those of the occurrences",
            "run: merging two `NonNull(List(Object))` selections yields wrappers %s" % wr, loc=f.loc())
    bs = {b[0]: b for b in _branches_of(tree)}
    names = sorted(b[0] for b in _branches_of(tree))
    want = {"A": ({"a1", "a2"}, {"p1", "p2"}), "B": ({"b1", "b2"}, set())}
    bad = []
    for tn, (un, al) in sorted(want.items()):
        b = bs.get(tn)
        have = ({k for k, _ in b[1]}, {k for k, _ in b[2]}) if b else None
        if have != (un, al):
            bad.append("%s has %s, expected unaliased %s / aliased %s" % (tn, "fields %s / %s" % (sorted(have[0]), sorted(have[1])) if have else "no branch", sorted(un), sorted(al)))
    R.check("R02-e", "branch-pairing", not bad and names.count("A") == 1 and names.count("B") == 1,
            "run: the partner of a branch is the other side's branch of the same object type, wherever it stands",
            "run: %s merges the branches [A, B] with [B, C, A] wrongly (%s; branch names: %s): branches are paired by position or without comparing "
            "type_name — when one side has several branches per object type (one per @skip/@include assignment) a branch is merged with the "
            "wrong partner or none, and loses the other occurrence's fields" % (f.path, "; ".join(bad) or "duplicated branch", names), loc=f.loc())
    c = bs.get("C")
    R.check("R02-e", "branch-leftover", c is not None and {k for k, _ in c[1]} == {"c2"} and names.count("C") == 1,
            "run: right-only branches are kept, once",
            "run: the branch C, present only in the second occurrence, %s in the merged selection (branches: %s)"
            % ("is missing" if c is None else "is changed or duplicated", names), loc=f.loc())


def _e_pipeline(P, R):
    S = _scn(P)
    _scenario(R, "R02-e", "merge:same-key-leaves", S, "User",
              "{ id x: id @skip(if: true) x: id  y: id y: id @skip(if: true)  z: id @skip(if: true) z: id @include(if: false) ... on Node { id } ... on Named { name } }",
              "a response key selected in any occurrence is present; one that is skipped in all of them is `?: never`")
    _scenario(R, "R02-e", "merge:same-key-objects", S, "User",
              "{ best { id @skip(if: $a) } best { n: id ... on Bot { model } } best @skip(if: true) { zz: id } friends { id } friends { name } }",
              "sub-selections of several occurrences of an object field are merged branch by branch")


def _e_recursion(P, R):
    recursion_discipline(P, R, "R02-e", [P.fn(OT + "deep_merge::merge_selection_trees")])


def _e_fast_equal(P, R):
    _fast_equal_sound(P, R, "R02-e")


def _fast_equal_sound(P, R, rule):
    """`fast_equal(a, b) == true` must imply the two TypeScript types are the same type: it licenses `dedup_by(fast_equal)` in
    ts_union / ts_intersection, where a false `true` silently removes a member (a variable, a branch). Per arm: both patterns name the
    same variant, every bound component takes part in the result, and object members are compared on key, type, readonly and optional
    if they are compared at all."""
    f0 = P.fn("nitrogql_printer::ts_types::fast_equal::fast_equal")
    f = _inl(P, f0)
    ms = [m for m in f.walk() if m.get("k") == "Match" and not m.get("x") and m["scrut"].get("k") == "Tup"]
    R.floor(rule, "fast_equal table", len(ms), 1)
    if not ms:
        return
    OF = "nitrogql_printer::ts_types::ObjectField"
    n = 0
    for arm in ms[0]["arms"]:
        pat, body = arm["pat"], arm["body"]
        while body.get("k") == "BlockExpr" and not body["b"].get("stmts") and body["b"].get("tail"):
            body = body["b"]["tail"]
        v = lit_value(body)
        if v is False and not arm.get("guard"):
            continue
        n += 1
        if pat.get("k") != "Tuple" or len(pat.get("ps", [])) != 2:
            if v is True:
                R.violated(rule, "fast-equal:catch-all", "fast_equal answers `true` for a catch-all pattern: unrelated types compare equal", loc=f.loc())
            else:
                R.undecided(rule, "fast-equal:catch-all", "fast_equal computes its answer under a catch-all pattern; the comparison is not recognised", loc=f.loc())
            continue
        l, r = pat["ps"]
        lv, rv = norm(l.get("ctor_of") or l.get("def") or ""), norm(r.get("ctor_of") or r.get("def") or "")
        name = lv.split("::")[-1] or "?"
        if not lv or not rv:
            R.undecided(rule, "fast-equal:%s" % name, "an arm of fast_equal that can answer true does not name a variant on both sides", loc=f.loc())
            continue
        if lv != rv:
            R.violated(rule, "fast-equal:%s" % name, "fast_equal can answer true for two different variants (%s vs %s)" % (lv, rv), loc=f.loc())
            continue
        binds = [b for b in subnodes(pat) if b.get("k") == "Binding"]
        used = {y.get("local") for y in subnodes(body) if y.get("k") == "Path" and "local" in y}
        wild = [w for w in subnodes(pat) if w.get("k") == "Wild"]
        unused = [b["name"] for b in binds if b["local"] not in used]
        ok = not unused and not (wild and v is not False)
        reads = {y["field"] for y in subnodes(body) if y.get("k") == "Field" and norm(y.get("adt", "")) == OF}
        need = {"key", "type", "readonly", "optional"}
        if reads and not need <= reads:
            ok = False
            why = "object members are compared on %s only (missing %s): two objects with different %s are `equal`" % (sorted(reads), sorted(need - reads), sorted(need - reads))
        else:
            why = "components %s do not take part in the comparison" % (unused or "behind `_`")
        R.check(rule, "fast-equal:%s" % name, ok, "%s: all components compared" % name, "fast_equal(%s, %s): %s, so dedup_by(fast_equal) can drop a "
                "member that is not a duplicate" % (name, name, why), loc=f.loc())
    R.floor(rule, "fast_equal arms that can answer true", n, 10)


# =================================================================================================================== R02-f
def r02f(P, R):
    """only possible (type, variables) branches: type-condition filter and skip/include tables"""
    _sections(P, R, "R02-f", _f_condition_table, _f_condition_runs, _f_skip_runs, _f_variable_runs, _f_possible_types)


def _f_condition_table(P, R):
    f0 = P.fn(OT + "type_printer::check_fragment_condition")
    f = _inl(P, f0)
    pv = Prov(f)
    ms = matches_on(f, "TypeDefinition")
    if not ms:
        R.undecided("R02-f", "type-condition:table", "no `match` over TypeDefinition in %s or its helpers (the run instances type-condition:*:run "
                    "decide the behaviour)" % f0.path, loc=f0.loc())
    for m in ms[:1]:
        tab = variant_table(m)
        need = {"Object": [(TSD + "ObjectDefinition", "name")], "Interface": [(TSD + "ObjectDefinition", "interfaces"), (TSD + "InterfaceDefinition", "name")],
                "Union": [(TSD + "UnionDefinition", "possible_types"), (TSD + "ObjectDefinition", "name")]}
        for k, fields in sorted(need.items()):
            arm = tab.get(k) or tab.get("_")
            if arm is None:
                R.undecided("R02-f", "type-condition:" + k, "no arm for %s conditions found" % k, loc=f0.loc())
                continue
            if "object_def" not in pv.params.values():
                R.undecided("R02-f", "type-condition:" + k, "check_fragment_condition no longer has the parameter `object_def` (the run instances decide)", loc=f0.loc())
                continue
            a = pv.deep_atoms(arm["body"])
            ok = ("param", "object_def") in a and all(has_field(a, ad, fl) for ad, fl in fields)
            R.check("R02-f", "type-condition:" + k, ok, "a %s condition is compared with the branch's object type" % k,
                    "check_fragment_condition does not relate a %s type condition to the branch's concrete object type: fragments on that "
                    "kind are applied to every branch (keys appear in types of objects that never have them)" % k, loc=f0.loc())
        for k in ("Scalar", "Enum", "InputObject"):
            arm = tab.get(k) or tab.get("_")
            v = lit_value(arm["body"]) if arm is not None else None
            _tri(R, "R02-f", "type-condition:" + k, True if v is False else (False if v is True else None), "never applies", "%s conditions apply" % k,
                 "what a %s condition evaluates to is not a literal" % k, loc=f0.loc())
    gf = _inl(P, P.fn(OT + "type_printer::get_fields_for_selection_set"))
    calls = [c for c in gf.walk() if c.get("k") == "Call" and call_name(c) == f0.path]
    R.floor("R02-f", "type-condition filter calls", len(calls), 1)
    pvg = Prov(gf)
    for i, c in enumerate(calls):
        if len(c["args"]) != len(f0.params):
            continue
        objs = [a for a, p in zip(c["args"], f0.params) if "ObjectDefinition" in str(p.get("t", ""))]
        if len(objs) != 1:
            R.undecided("R02-f", "type-condition:arg:%d" % i, "which argument of check_fragment_condition is the branch's object is not recognised", loc=gf.loc())
            continue
        R.check("R02-f", "type-condition:arg:%d" % i, has_field(pvg.deep_atoms(objs[0]), BC, "parent_obj"),
                "compared against the branch's object", "the filter is not given the branch's object", loc=gf.loc())


def _f_condition_runs(P, R):
    S = _scn(P)
    _scenario(R, "R02-f", "type-condition:Object:run", S, "Node", "{ id ... on User { name } ... on Org { o: id } }",
              "a fragment on an object type contributes to the branch of that object only")
    _scenario(R, "R02-f", "type-condition:Interface:run", S, "Thing", "{ ... on Node { id } ... on Named { n: name } }",
              "a fragment on an interface contributes to the branches of its implementers only (every interface of an object counts)")
    _scenario(R, "R02-f", "type-condition:Union:run", S, "Node", "{ ... on Actor { ... on Node { a: id } } ... on Thing { ... on Node { t: id } } }",
              "a fragment on a union contributes to the branches of its members only (every member counts)")
    _scenario(R, "R02-f", "type-condition:sites", S, "Node", "{ ...OnBot ...OnNamed ...OnBotId ... { x: id } ... on Node { ... on Bot { y: id } ...OnNamed u: id } }",
              "fragment spreads and conditioned inline fragments are filtered by their type condition, at every nesting depth; an inline "
              "fragment without condition always applies")


def _f_skip_runs(P, R):
    S = _scn(P)
    _scenario(R, "R02-f", "skip-table:@skip", S, "User", "{ a: id @skip(if: $v) b: id @include(if: $v) c: id @skip(if: true) d: id @skip(if: false) }",
              "@skip omits the field exactly when its condition (variable or literal) is true")
    _scenario(R, "R02-f", "skip-table:@include", S, "User", "{ a: id @skip(if: $v) b: id @include(if: $v) e: id @include(if: true) f: id @include(if: false) }",
              "@include omits the field exactly when its condition (variable or literal) is false")
    _scenario(R, "R02-f", "skip-table:several-directives", S, "User",
              "{ x: id @skip(if: $a) @include(if: $b) y: id @include(if: $b) @skip(if: $a) z: id @skip(if: false) w: id @skip(if: false) @include(if: false) }",
              "every @skip/@include of a selection counts, whatever its position among the directives")
    _scenario(R, "R02-f", "skip-table:fragments", S, "Node",
              "{ ... @skip(if: $a) { p: id } ...OnBot @include(if: $b) ... on User @include(if: false) { q: id } ... on Named @skip(if: false) { r: id } }",
              "a skipped fragment turns every field it contributes into `?: never`, a kept one leaves them alone")


def _f_variable_runs(P, R, rule="R02-f"):
    S = _scn(P)
    _scenario(R, rule, "variables-both-values", S, "User", "{ a: id @skip(if: $v) b: id @include(if: $w) c: id @skip(if: $v) }",
              "each boolean variable is branched on false and true, all combinations of several variables are present")
    _scenario(R, rule, "variables-all-directives", S, "User",
              "{ p: id @skip(if: $a) @include(if: $b) q: id @skip(if: $a) @skip(if: $b) r: id @include(if: $a) @skip(if: $c) y: id z: id @include(if: $d) }",
              "every @skip/@include of every selection is inspected: a variable used only by a later directive or a later selection is branched on")
    _scenario(R, rule, "variables-both-directives", S, "User", "{ a: id @skip(if: $s) b: id }", "variables of @skip are branched on")
    _scenario(R, rule, "variables-both-directives:include", S, "User", "{ a: id @include(if: $i) b: id }", "variables of @include are branched on")
    _scenario(R, rule, "visitor-every-selection", S, "Node",
              "{ id ... on User @include(if: $d) { n: name @skip(if: $e) } ...OnNamedIf @skip(if: $g) ... { ... on Bot { m: model @include(if: $k) } } }",
              "the variable enumeration sees fragment spreads, inline fragments and the selections inside them")
    _scenario(R, rule, "variables-nested-level", S, "User", "{ id best { id @skip(if: $n) } }",
              "a variable used only inside the selection set of a field branches that field's own selection, not the enclosing one")


def _f_possible_types(P, R):
    S = _scn(P)
    _scenario(R, "R02-f", "possible-types:Object:run", S, "User", "{ id }", "an object parent has exactly its own branch")
    _scenario(R, "R02-f", "possible-types:Interface:run", S, "Node", "{ id }", "an interface parent has one branch per implementing object, no other")
    _scenario(R, "R02-f", "possible-types:Union:run", S, "Thing", "{ __typename }", "a union parent has one branch per member, no other")
    g0 = P.fn(OT + "type_printer::generate_branching_conditions")
    g = _inl(P, g0)
    ms = matches_on(g, "TypeDefinition")
    if not ms:
        R.undecided("R02-f", "possible-types", "no `match` over TypeDefinition in %s or its helpers (the run instances possible-types:*:run decide "
                    "the behaviour)" % g0.path, loc=g0.loc())
    for m in ms[:1]:
        tab = variant_table(m)
        pvb = Prov(g)
        ia = pvb.deep_atoms((tab.get("Interface") or tab.get("_") or {"body": None})["body"])
        ua = pvb.deep_atoms((tab.get("Union") or tab.get("_") or {"body": None})["body"])
        ok = (has_call(ia, "utils::interface_implementers") or has_field(ia, TSD + "ObjectDefinition", "interfaces")) and has_field(ua, TSD + "UnionDefinition", "possible_types")
        R.check("R02-f", "possible-types", ok, "branches = the object itself / implementers of the interface / members of the union",
                "generate_branching_conditions does not enumerate implementers / union members", loc=g0.loc())



# ================================================================================================================ scenarios
# the schema every scenario runs against (GraphQL SDL in comments; order of declaration is the schema's type order)
_SCHEMA = [
    ("String", "scalar"),
    ("Node", "interface", [("id", "String!")]),                                                # interface Node { id: String! }
    ("User", "object", [("id", "String!"), ("name", "String"), ("tags", "[String!]"), ("matrix", "[[String]!]"), ("friends", "[User!]!"),
                        ("best", "Node"), ("pet", "Actor")], ["Node", "Named"]),                # type User implements Node & Named
    ("Named", "interface", [("name", "String")]),                                               # interface Named { name: String }
    ("Bot", "object", [("id", "String!"), ("model", "String"), ("owner", "User!")], ["Node"]),  # type Bot implements Node
    ("Actor", "union", ["User", "Bot"]),                                                        # union Actor = User | Bot
    ("Org", "object", [("id", "String!"), ("name", "String")], ["Named", "Node"]),              # type Org implements Named & Node
    ("Page", "object", [("id", "String!"), ("title", "String")], []),                           # type Page
    ("Thing", "union", ["Page", "Org", "User"]),                                                # union Thing = Page | Org | User
]
_FRAGMENTS = {"OnBot": ("Bot", "{ model }"), "OnBotId": ("Bot", "{ bid: id }"), "OnNamed": ("Named", "{ name }"), "OnNamedIf": ("Named", "{ name @include(if: $h) }")}
_TOK = re.compile(r"\.\.\.|[{}():@$!\[\]]|[A-Za-z_][A-Za-z0-9_]*")


def _ty(text):
    """'[User!]!' -> ("NonNull", ("List", ("NonNull", ("Named", "User"))))"""
    toks = _TOK.findall(text)
    pos = [0]

    def rec():
        if toks[pos[0]] == "[":
            pos[0] += 1
            t = ("List", rec())
            pos[0] += 1
        else:
            t = ("Named", toks[pos[0]])
            pos[0] += 1
        if pos[0] < len(toks) and toks[pos[0]] == "!":
            pos[0] += 1
            t = ("NonNull", t)
        return t
    return rec()


def _show_ty(t):
    if t is None:
        return "-"
    return t[1] if t[0] == "Named" else ("[%s]" % _show_ty(t[1]) if t[0] == "List" else _show_ty(t[1]) + "!")


def _gql(text):
    """selection set text -> [("field", alias, name, dirs, sub|None) | ("spread", name, dirs) | ("inline", cond|None, dirs, sub)];
    dirs = [(name, None | ("var", v) | ("lit", bool))]"""
    toks = _TOK.findall(text)
    pos = [0]

    def peek():
        return toks[pos[0]] if pos[0] < len(toks) else None

    def nxt():
        pos[0] += 1
        return toks[pos[0] - 1]

    def directives():
        out = []
        while peek() == "@":
            nxt()
            name, v = nxt(), None
            if peek() == "(":
                nxt(); nxt(); nxt()   # ( if :
                if peek() == "$":
                    nxt()
                    v = ("var", nxt())
                else:
                    v = ("lit", nxt() == "true")
                nxt()
            out.append((name, v))
        return out

    def selset():
        nxt()
        out = []
        while peek() != "}":
            if peek() == "...":
                nxt()
                if peek() == "on":
                    nxt()
                    cond = nxt()
                    d = directives()
                    out.append(("inline", cond, d, selset()))
                elif peek() in ("@", "{"):
                    d = directives()
                    out.append(("inline", None, d, selset()))
                else:
                    name = nxt()
                    out.append(("spread", name, directives()))
            else:
                name, alias = nxt(), None
                if peek() == ":":
                    nxt()
                    alias, name = name, nxt()
                d = directives()
                out.append(("field", alias, name, d, selset() if peek() == "{" else None))
        nxt()
        return out
    return selset()


class _Oracle:
    """GraphQL spec semantics of a selection set on the scenario schema: one branch per possible object and per assignment of the boolean
    variables of the selection set's own level (CollectFields: §6.3.2; fragment applicability: §5.5.2; @skip/@include: §3.13)"""

    def __init__(self):
        self.defs = {d[0]: d for d in _SCHEMA}
        self.frags = {k: (c, _gql(t)) for k, (c, t) in _FRAGMENTS.items()}

    def possible(self, name):
        d = self.defs[name]
        if d[1] == "object":
            return [name]
        if d[1] == "interface":
            return [x[0] for x in _SCHEMA if x[1] == "object" and name in x[3]]
        if d[1] == "union":
            return list(d[2])
        return []

    def applies(self, obj, cond):
        return obj in self.possible(cond)

    def skipped(self, dirs, env):
        for n, v in dirs:
            if n in ("skip", "include") and v is not None:
                val = env[v[1]] if v[0] == "var" else v[1]
                if val == (n == "skip"):
                    return True
        return False

    def variables(self, sels, seen=None, out=None):
        seen = set() if seen is None else seen
        out = [] if out is None else out
        for s in sels:
            dirs = s[3] if s[0] == "field" else s[2]
            for n, v in dirs:
                if n in ("skip", "include") and v is not None and v[0] == "var" and v[1] not in out:
                    out.append(v[1])
            if s[0] == "inline":
                self.variables(s[3], seen, out)
            elif s[0] == "spread" and s[1] not in seen:
                seen.add(s[1])
                self.variables(self.frags[s[1]][1], seen, out)
        return out

    def collect(self, obj, sels, env):
        out = []
        for s in sels:
            if s[0] == "field":
                _, alias, name, dirs, sub = s
                if self.skipped(dirs, env):
                    f = ("empty",)
                elif name == "__typename":
                    f = ("leaf", None, True)
                else:
                    ft = _ty(dict(self.defs[obj][2])[name])
                    f = ("leaf", ft, False) if sub is None else ("sub", ft, sub)
                out.append((alias or name, alias is not None, f))
            else:
                cond, dirs, sub = (s[1], s[2], s[3]) if s[0] == "inline" else (self.frags[s[1]][0], s[2], self.frags[s[1]][1])
                if cond is None or self.applies(obj, cond):
                    fs = self.collect(obj, sub, env)
                    if self.skipped(dirs, env):
                        fs = [(k, a, ("empty",)) for k, a, _ in fs]
                    out.extend(fs)
        return out

    def tree(self, ty, sels):
        if ty[0] != "Named":
            return (ty[0], self.tree(ty[1], sels))
        vs = self.variables(sels)
        branches = set()
        for o in self.possible(ty[1]):
            for asg in itertools.product((False, True), repeat=len(vs)):
                occ = {}
                for k, a, f in self.collect(o, sels, dict(zip(vs, asg))):
                    occ.setdefault((a, k), []).append(f)
                un, al = {}, {}
                for (a, k), fs in occ.items():
                    live = [f for f in fs if f != ("empty",)]
                    if not live:
                        v = ("empty",)
                    elif live[0][0] == "leaf":
                        v = live[0]
                    else:
                        v = ("obj", self.tree(live[0][1], [x for f in live if f[0] == "sub" for x in f[2]]))
                    (al if a else un)[k] = v
                branches.add((o, frozenset(un.items()), frozenset(al.items())))
        return ("Object", frozenset(branches))


def _wrap_tree(ty, obj):
    return obj if ty[0] == "Named" else (ty[0], _wrap_tree(ty[1], obj))


def _branches_of(tree):
    while tree[0] in ("NonNull", "List"):
        tree = tree[1]
    return list(tree[1])


def _o_tree_for(S, parent, text):
    return S.oracle.tree(_ty(parent), _gql(text))


# --- TypeScript side of the oracle (canonical forms: unions are flattened sets)
def _u(*ms):
    out = set()
    for m in ms:
        if m[0] == "union":
            out |= m[1]
        else:
            out.add(m)
    return next(iter(out)) if len(out) == 1 else ("union", frozenset(out))


_NULL = ("null",)


def _o_ts_leaf(ty, nn=False):
    if ty[0] == "NonNull":
        return _o_ts_leaf(ty[1], True)
    t = ("ref", "OperationOutput", ty[1]) if ty[0] == "Named" else ("array", _o_ts_leaf(ty[1]))
    return t if nn else _u(t, _NULL)


def _o_ts_tree(tree, nn=False):
    if tree[0] == "NonNull":
        return _o_ts_tree(tree[1], True)
    if tree[0] == "List":
        t = ("array", _o_ts_tree(tree[1]))
    else:
        ms = [("selset", ("ref", "OperationOutput", b[0]), _o_ts_obj(b[1], b[0]), _o_ts_obj(b[2], b[0])) for b in tree[1]]
        t = _u(*ms) if ms else ("never",)
    return t if nn else _u(t, _NULL)


def _o_ts_obj(fields, tn):
    out = set()
    for k, f in fields:
        if f[0] == "empty":
            out.add((k, (("never",), True)))
        elif f[0] == "leaf":
            out.add((k, ((("lit", tn) if f[2] else _o_ts_leaf(f[1])), False)))
        else:
            out.add((k, (_o_ts_tree(f[1]), False)))
    return ("object", frozenset(out))


def _nulls(t):
    """number of `null` members anywhere in a canonical TypeScript type"""
    if t == _NULL:
        return 1
    if isinstance(t, (tuple, frozenset)):
        return sum(_nulls(x) for x in t)
    return 0


def _null_diff(have, want):
    a, b = _nulls(have), _nulls(want)
    return "`| null` is lost" if a < b else ("`| null` is invented" if a > b else "the types differ in more than nullability")


def _any_target(t):
    """the same type with the namespace of every schema reference blanked (R02-c decides namespaces)"""
    if isinstance(t, frozenset):
        return frozenset(_any_target(x) for x in t)
    if isinstance(t, tuple):
        if t and t[0] == "ref":
            return ("ref", "*", t[2])
        return tuple(_any_target(x) for x in t)
    return t


def _ts_targets(t, out=None):
    out = set() if out is None else out
    if isinstance(t, (tuple, frozenset)):
        if isinstance(t, tuple) and t and t[0] == "ref":
            out.add(t[1])
        for x in t:
            _ts_targets(x, out)
    return out


def _ts_field(ts, key):
    """(type, optional) of `key` in the unaliased object of the single branch `ts`"""
    if isinstance(ts, tuple) and ts and ts[0] == "selset":
        for k, v in ts[2][1]:
            if k == key:
                return v
    return None


def _show_ts(t):
    if not isinstance(t, tuple) or not t:
        return repr(t)
    k = t[0]
    if k == "null":
        return "null"
    if k == "never":
        return "never"
    if k == "ref":
        return "%s.%s" % (t[1], t[2])
    if k == "lit":
        return '"%s"' % t[1]
    if k == "array":
        return "(%s)[]" % _show_ts(t[1])
    if k == "union":
        return " | ".join(sorted((_show_ts(x) for x in t[1]), key=lambda s: (s == "null", s)))
    if k == "object":
        return "{ %s }" % "; ".join("%s%s: %s" % (a, "?" if o else "", _show_ts(b)) for a, (b, o) in sorted(t[1], key=lambda x: x[0]))
    if k == "selset":
        return "__SelectionSet<%s, %s, %s>" % (_show_ts(t[1]), _show_ts(t[2]), _show_ts(t[3]))
    return str(t)


def _show_field(kf):
    k, f = kf
    if f[0] == "empty":
        return "%s: (omitted)" % k
    if f[0] == "leaf":
        return "%s: %s" % (k, "__typename" if f[2] else _show_ty(f[1]))
    return "%s %s" % (k, _show_tree(f[1]))


def _show_branch(b):
    return "%s { %s }" % (b[0], " ".join(sorted(_show_field(x) for x in b[1]) + sorted("(alias) " + _show_field(x) for x in b[2])))


def _show_tree(t):
    if t[0] in ("NonNull", "List"):
        return "%s(%s)" % (t[0], _show_tree(t[1]))
    return "[" + ", ".join(sorted(_show_branch(b) for b in t[1])) + "]"


def _diff_tree(got, want, path=""):
    """first difference between two canonical trees, in words"""
    if got[0] != want[0]:
        return "%swrapper %s where %s is expected" % (path, got[0], want[0])
    if got[0] in ("NonNull", "List"):
        return _diff_tree(got[1], want[1], path)
    g, w = set(got[1]), set(want[1])
    if g == w:
        return None
    missing, extra = sorted(w - g, key=repr), sorted(g - w, key=repr)
    # a nested difference is more telling than the enclosing branch
    for m in missing:
        for e in extra:
            if m[0] == e[0] and {k for k, _ in m[1]} == {k for k, _ in e[1]} and {k for k, _ in m[2]} == {k for k, _ in e[2]}:
                for (k, fm), (_, fe) in zip(sorted(m[1] | m[2], key=lambda x: x[0]), sorted(e[1] | e[2], key=lambda x: x[0])):
                    if fm != fe and fm[0] == "obj" and fe[0] == "obj":
                        d = _diff_tree(fe[1], fm[1], "%sin `%s` of %s: " % (path, k, m[0]))
                        if d:
                            return d
    msg = []
    if missing:
        msg.append("missing branch%s %s" % ("es" if len(missing) > 1 else "", "; ".join(_show_branch(b) for b in missing[:3])))
    if extra:
        msg.append("impossible branch%s %s" % ("es" if len(extra) > 1 else "", "; ".join(_show_branch(b) for b in extra[:3])))
    return path + ", ".join(msg)


# --- interpreter values of the scenario inputs, and canonical forms of its results
def _pos():
    return _Opq("pos")


def _v_ident(s):
    return _Obj(A + "base::Ident", {"name": s, "position": _pos()})


def _v_node(x):
    return _Obj(TS + "node::Node", {"inner": x, "original_node": _pos()})


def _v_type(t):
    if t[0] == "Named":
        return _Var("Named", [_Obj(TS + "type::NamedType", {"name": _v_node(t[1])})], TS + "type::Type")
    return _Var(t[0], [_Obj(TS + "type::%sType" % t[0], {"inner": _v_type(t[1])})], TS + "type::Type")


def _v_directive(name, v):
    args = _none()
    if v is not None:
        val = (_Var("Variable", [_Obj(A + "variable::Variable", {"name": v[1], "position": _pos()})], A + "value::Value") if v[0] == "var" else
               _Var("BooleanValue", [_Obj(A + "value::BooleanValue", {"position": _pos(), "keyword": "true" if v[1] else "false", "value": v[1]})], A + "value::Value"))
        args = _some(_Obj(A + "value::Arguments", {"position": _pos(), "arguments": [(_v_ident("if"), val)]}))
    return _Obj(A + "directive::Directive", {"position": _pos(), "name": _v_ident(name), "arguments": args})


def _v_selset(sels):
    out = []
    SEL = A + "selection_set::"
    for s in sels:
        if s[0] == "field":
            _, alias, name, dirs, sub = s
            out.append(_Var("Field", [_Obj(SEL + "Field", {"alias": _none() if alias is None else _some(_v_ident(alias)), "name": _v_ident(name), "arguments": _none(),
                                                           "directives": [_v_directive(*d) for d in dirs],
                                                           "selection_set": _none() if sub is None else _some(_v_selset(sub))})], SEL + "Selection"))
        elif s[0] == "spread":
            out.append(_Var("FragmentSpread", [_Obj(SEL + "FragmentSpread", {"position": _pos(), "fragment_name": _v_ident(s[1]),
                                                                             "directives": [_v_directive(*d) for d in s[2]]})], SEL + "Selection"))
        else:
            out.append(_Var("InlineFragment", [_Obj(SEL + "InlineFragment", {"position": _pos(), "type_condition": _none() if s[1] is None else _some(_v_ident(s[1])),
                                                                             "directives": [_v_directive(*d) for d in s[2]], "selection_set": _v_selset(s[3])})], SEL + "Selection"))
    return _Obj(SEL + "SelectionSet", {"position": _pos(), "selections": out})


def _v_schema():
    m, names = _Map(), []
    for d in _SCHEMA:
        name, kind = d[0], d[1]
        common = {"name": _v_node(name), "description": _none()}
        fdef = lambda fs: [_Obj(TSD + "Field", {"name": _v_node(a), "description": _none(), "type": _v_type(_ty(b)), "arguments": [], "deprecation": _none()}) for a, b in fs]
        if kind == "scalar":
            v = _Var("Scalar", [_Obj(TSD + "ScalarDefinition", common)], TSD + "TypeDefinition")
        elif kind == "object":
            v = _Var("Object", [_Obj(TSD + "ObjectDefinition", dict(common, fields=fdef(d[2]), interfaces=[_v_node(i) for i in d[3]]))], TSD + "TypeDefinition")
        elif kind == "interface":
            v = _Var("Interface", [_Obj(TSD + "InterfaceDefinition", dict(common, fields=fdef(d[2]), interfaces=[]))], TSD + "TypeDefinition")
        else:
            v = _Var("Union", [_Obj(TSD + "UnionDefinition", dict(common, possible_types=[_v_node(x) for x in d[2]]))], TSD + "TypeDefinition")
        m.d[name] = _v_node(v)
        names.append(name)
    return m, names


def _v_schema_obj(P):
    """the Schema value: its fields are crate-private, so they are filled by role (type), not by name"""
    m, names = _v_schema()
    adt = P.adt(TS + "schema::Schema")
    f = {}
    for name, ty in adt.field_types().items():
        if "HashMap<" in ty[:48] and "TypeDefinition<" in ty:
            f[name] = m
        elif "HashMap<" in ty[:48]:
            f[name] = _Map()
        elif ty.startswith("alloc::vec::Vec<") and "Node<" not in ty and "Definition" not in ty:
            f[name] = list(names)      # the order-keeping name lists (only names with a definition are ever looked up)
        elif ty.startswith("core::option::Option<"):
            f[name] = _none()
        else:
            f[name] = _Opq(name)
    if not any(v is m for v in f.values()):
        raise _Unknown("scenario input: no field of Schema holds the type definitions")
    return _Obj(adt.path, f)


def _v_field(key, f):
    """canonical field -> SelectionTreeField value"""
    if f[0] == "empty":
        return _Var("Empty", [_Obj(ST + "SelectionTreeEmptyLeaf", {"name": key})], ST + "SelectionTreeField")
    if f[0] == "leaf":
        return _Var("Leaf", [_Obj(ST + "SelectionTreeLeaf", {"name": key, "type": _v_type(f[1] or ("Named", "String")), "is_typename": f[2]})], ST + "SelectionTreeField")
    return _Var("Object", [_Obj(ST + "SelectionTreeObject", {"name": key, "selection": _v_tree(f[1])})], ST + "SelectionTreeField")


def _v_tree(t):
    if t[0] in ("NonNull", "List"):
        return _Var(t[0], [_v_tree(t[1])], ST + "SelectionTree")
    bs = t[1] if isinstance(t[1], (tuple, list)) else sorted(t[1], key=repr)
    return _Var("Object", [[_Obj(ST + "SelectionTreeBranch", {"type_name": b[0], "unaliased_fields": [_v_field(k, f) for k, f in sorted(b[1], key=repr)],
                                                                "aliased_fields": [_v_field(k, f) for k, f in sorted(b[2], key=repr)]}) for b in bs]], ST + "SelectionTree")


def _validate(P, v, seen=None):
    """scenario inputs are written against the ADTs of the reference tree: a field or variant that no longer exists makes the scenario
    undecided (never a verdict); fields the scenario does not determine are filled with undetermined values"""
    seen = set() if seen is None else seen
    if id(v) in seen:
        return
    seen.add(id(v))
    if isinstance(v, _Obj):
        adt = P.adts.get(v.adt)
        if adt is not None and adt.kind == "Struct":
            names = adt.fields()
            for k in v.f:
                if k not in names:
                    raise _Unknown("scenario input: %s has no field `%s` any more" % (v.adt, k))
            for k in names:
                v.f.setdefault(k, _Opq(k))
        for x in list(v.f.values()):
            _validate(P, x, seen)
    elif isinstance(v, _Var):
        adt = P.adts.get(v.adt) if v.adt else None
        if adt is not None and adt.kind == "Enum":
            if v.name not in adt.variant_names() or len(adt.fields(v.name)) != len(v.args):
                raise _Unknown("scenario input: %s has no variant `%s` of %d field(s) any more" % (v.adt, v.name, len(v.args)))
        for x in v.args:
            _validate(P, x, seen)
    elif isinstance(v, (list, tuple)):
        for x in v:
            _validate(P, x, seen)
    elif isinstance(v, _Map):
        for x in v.d.values():
            _validate(P, x, seen)


class _Shape(Exception):
    """a result value that is not (determinately) of the expected ADT shape: the scenario is undecided"""


class _Malformed(Exception):
    """a determinate result that no consumer can use"""


def _s(v):
    v = _d(v)
    if isinstance(v, _Obj) and set(v.f) >= {"inner", "original_node"}:
        return _s(v.f["inner"])
    if isinstance(v, _Obj) and "name" in v.f and len(v.f) <= 2:   # ObjectKey {name, pos}
        return _s(v.f["name"])
    if not isinstance(v, str):
        raise _Shape("a string was expected, got %r" % (v,))
    return v


def _c_type(v):
    v = _d(v)
    if not isinstance(v, _Var) or len(v.args) != 1:
        raise _Shape("not a Type: %r" % (v,))
    x = _d(v.args[0])
    if v.name == "Named":
        return ("Named", _s(x.f["name"]) if isinstance(x, _Obj) else _s(x))
    if v.name in ("List", "NonNull"):
        return (v.name, _c_type(x.f["inner"] if isinstance(x, _Obj) and "inner" in x.f else x))
    raise _Shape("not a Type: %r" % (v,))


def _c_field(v):
    v = _d(v)
    if not isinstance(v, _Var) or len(v.args) != 1 or not isinstance(_d(v.args[0]), _Obj):
        raise _Shape("not a SelectionTreeField: %r" % (v,))
    x = _d(v.args[0]).f
    key = _s(x.get("name"))
    if v.name == "Empty":
        return key, ("empty",)
    if v.name == "Leaf":
        tn = _d(x.get("is_typename"))
        if not isinstance(tn, bool):
            raise _Shape("is_typename undetermined")
        return key, ("leaf", None if tn else _c_type(x.get("type")), tn)
    if v.name == "Object":
        return key, ("obj", _c_tree(x.get("selection")))
    raise _Shape("not a SelectionTreeField: %r" % (v,))


def _c_tree(v):
    v = _d(v)
    if not isinstance(v, _Var) or len(v.args) != 1:
        raise _Shape("not a SelectionTree: %r" % (v,))
    if v.name in ("NonNull", "List"):
        return (v.name, _c_tree(v.args[0]))
    bs = _d(v.args[0])
    if v.name != "Object" or not isinstance(bs, list):
        raise _Shape("not a SelectionTree: %r" % (v,))
    out = []
    for b in bs:
        b = _d(b)
        if not isinstance(b, _Obj):
            raise _Shape("not a branch: %r" % (b,))
        un, al = [_c_field(x) for x in _d(b.f.get("unaliased_fields"))], [_c_field(x) for x in _d(b.f.get("aliased_fields"))]
        if len({k for k, _ in un}) != len(un) or len({k for k, _ in al}) != len(al):
            raise _Malformed("a branch lists one response key twice: %s" % sorted(k for k, _ in un + al))
        out.append((_s(b.f.get("type_name")), frozenset(un), frozenset(al)))
    return ("Object", tuple(out))


def _c_ts(v):
    v = _d(v)
    if not isinstance(v, _Var):
        raise _Shape("not a TSType: %r" % (v,))
    n, a = v.name, v.args
    if n == "Null":
        return _NULL
    if n == "Never":
        return ("never",)
    if n == "Union":
        ms = [_c_ts(x) for x in _d(a[0])]
        return _u(*ms) if ms else ("never",)
    if n in ("Array", "ReadonlyArray"):
        return ("array", _c_ts(a[0]))
    if n == "StringLiteral":
        return ("lit", _s(a[0]))
    if n == "NamespaceMember3":
        t = _d(a[1])
        # the target is the TypeTarget constant itself (through Display) or its `__`-prefixed spelling (as_str)
        return ("ref", (t.name if isinstance(t, _Var) else _s(t)).lstrip("_"), _s(a[2]))
    if n == "NamespaceMember":
        return ("member", _s(a[1]))
    if n == "Object":
        out = set()
        for f in _d(a[0]):
            f = _d(f)
            opt = _d(f.f.get("optional"))
            if not isinstance(opt, bool):
                raise _Shape("optional undetermined")
            out.add((_s(f.f.get("key")), (_c_ts(f.f.get("type")), opt)))
        return ("object", frozenset(out))
    if n == "TypeFunc":
        fn, args = _c_ts(a[0]), [_c_ts(x) for x in _d(a[1])]
        if fn == ("member", "__SelectionSet") and len(args) == 3:
            return ("selset", args[0], args[1], args[2])
        return ("typefunc", fn, tuple(args))
    return ("other", n)


class _Scn:
    """the scenario inputs for one Program, and the three entry points they are run through"""

    def __init__(self, P):
        self.P = P
        self.oracle = _Oracle()
        self._anchors = {}

    def _fn(self, name):
        if name not in self._anchors:
            try:
                self._anchors[name] = self.P.fn(name)
            except AnchorMissing as e:
                self._anchors[name] = e
        if isinstance(self._anchors[name], AnchorMissing):
            raise self._anchors[name]
        return self._anchors[name]

    gen = property(lambda self: self._fn(OT + "type_printer::get_type_for_selection_set"))
    to_ts = property(lambda self: self._fn(OT + "selection_tree::to_ts::generate_selection_tree_type"))
    merge = property(lambda self: self._fn(OT + "deep_merge::deep_merge_selection_tree"))

    def _args(self, f, table):
        out = []
        for t in f.sig_inputs:
            hits = [v for key, v in table if key in t]
            out.append(hits[0] if hits else _Opq(t))
        return out

    def _run(self, f, table):
        try:
            args = self._args(f, table)
            _validate(self.P, args)
        except _Unknown as e:
            return "unknown", str(e)
        return _run(self.P, f.path, args)

    def run_tree(self, parent, text):
        try:
            return self._run_tree(parent, text)
        except (_Unknown, AnchorMissing) as e:
            return "unknown", str(e)

    def _run_tree(self, parent, text):
        fm = _Map()
        for name, (cond, sels) in self.oracle.frags.items():
            fm.d[name] = _Obj(A + "operation::FragmentDefinition", {"position": _pos(), "name": _v_ident(name), "type_condition": _v_ident(cond),
                                                                     "directives": [], "selection_set": _v_selset(sels)})
        ctx = _Obj(OT + "type_printer::QueryTypePrinterContext", {"options": _Opq("options"), "schema": _v_schema_obj(self.P), "fragment_definitions": fm})
        f = self.gen
        st, v = self._run(f, [("QueryTypePrinterContext", ctx), ("SelectionSet", _v_selset(_gql(text))), ("type::Type<", _v_type(_ty(parent)))])
        return self._canon(st, v, _c_tree)

    def run_ts(self, tree):
        f = self.to_ts
        ctx = _Obj(OT + "selection_tree::to_ts::GenerateSelectionTreeTypeContext", {"schema_root_namespace": "Schema"})
        st, v = self._run(f, [("GenerateSelectionTreeTypeContext", ctx), ("SelectionTree<", _v_tree(tree))])
        return self._canon(st, v, _c_ts)

    def run_merge(self, fields):
        f = self.merge
        if len(f.params) != 1:
            return "unknown", "%s takes %d parameters" % (f.path, len(f.params))
        st, v = self._run(f, [("", list(fields))])
        return self._canon(st, v, lambda x: [_c_field(y) for y in _d(x)])

    @staticmethod
    def _canon(st, v, conv):
        if st != "ok":
            return st, v
        try:
            return "ok", conv(v)
        except _Malformed as e:
            return "shape", str(e)
        except _Shape as e:
            return "unknown", "undetermined result: " + str(e)
        except (AttributeError, TypeError, KeyError, IndexError) as e:
            return "unknown", "result of unexpected shape (%r)" % (e,)


_SCN = {}


def _scn(P):
    if id(P) not in _SCN:
        _SCN[id(P)] = _Scn(P)
    return _SCN[id(P)]


def _scenario_failed(R, rule, key, st, why, what, f):
    """the run did not produce a comparable result"""
    if st == "panic":
        R.violated(rule, key, "run: %s panics (%s) while computing %s on a valid document: no type is generated at all" % (f.path, why, what), loc=f.loc())
    elif st == "shape":
        R.violated(rule, key, "run: %s returns a malformed result for %s: %s" % (f.path, what, why), loc=f.loc())
    else:
        R.undecided(rule, key, "run: the abstract execution of %s does not decide %s (%s)" % (f.path, what, why), loc=f.loc())


def _scenario(R, rule, key, S, parent, text, what):
    """run the generator on `text` selected on a value of type `parent`; the produced set of branches must equal the spec's"""
    f = S.gen
    st, got = S.run_tree(parent, text)
    doc = "`%s` on %s" % (" ".join(text.split()), parent)
    if st != "ok":
        _scenario_failed(R, rule, key, st, got, "the branches of %s" % doc, f)
        return
    want = _o_tree_for(S, parent, text)
    d = _diff_tree(_as_set(got), want)
    R.check(rule, key, d is None, "run: %s (%s)" % (what, doc),
            "run: %s — but for %s the generator (%s) produces %s" % (what, doc, f.path, d), loc=f.loc())


def _as_set(tree):
    if tree[0] in ("NonNull", "List"):
        return (tree[0], _as_set(tree[1]))
    return ("Object", frozenset((b[0], frozenset((k, (f if f[0] != "obj" else ("obj", _as_set(f[1])))) for k, f in b[1]),
                                 frozenset((k, (f if f[0] != "obj" else ("obj", _as_set(f[1])))) for k, f in b[2])) for b in tree[1]))


# ------------------------------------------------------------------------------------------------ concrete scenarios
# A small interpreter of the typed HIR (the Rust subset the anchored functions are written in).  A rule builds a concrete input
# (a directive list, two selection trees, ...) out of the ADTs the property anchors, runs the anchored function on it and compares
# the result with what the GraphQL spec requires for that input.  Whatever the interpreter has no exact model for raises _Unknown
# and the instance is UNDECIDED; a wrong result is positive evidence (a concrete witness), independent of how the code is spelled
# (loop / iterator chain, match / if-let / let-else, helper functions, Vec+find / HashMap, ...).
class _Unknown(Exception):
    pass


class _Panic(Exception):
    pass


class _Ret(Exception):
    def __init__(self, v):
        self.v = v


class _Brk(Exception):
    def __init__(self, v=(), label=None):
        self.v, self.label = v, label


class _Cont(Exception):
    def __init__(self, label=None):
        self.label = label


class _Opq:
    """a value the scenario does not determine"""
    def __init__(self, why=""):
        self.why = why

    def __repr__(self):
        return "?%s" % self.why


class _Var:
    """enum variant value (Option/Result/Either and workspace enums)"""
    def __init__(self, name, args=(), adt=None):
        self.name, self.args, self.adt = name, list(args), adt

    def __repr__(self):
        return "%s%s" % (self.name, tuple(self.args) if self.args else "")


class _Obj:
    """struct value"""
    def __init__(self, adt, f):
        self.adt, self.f = adt, dict(f)

    def __repr__(self):
        return "%s%r" % ((self.adt or "").split("::")[-1], self.f)


class _Clo:
    def __init__(self, node, env):
        self.node, self.env = node, env


class _Fn:
    def __init__(self, path, ctor=None):
        self.path, self.ctor = path, ctor


class _Place:
    """`&mut` to a slot of a list / map"""
    def __init__(self, box, key):
        self.box, self.key = box, key

    def get(self):
        return self.box[self.key]

    def set(self, v):
        self.box[self.key] = v


class _Iter:
    """a Rust iterator: single pass and lazy (backed by a Python generator)"""
    def __init__(self, gen):
        self.g, self.buf = iter(gen), []

    def __iter__(self):
        return self

    def __next__(self):
        if self.buf:
            return self.buf.pop(0)
        return next(self.g)


class _Map:
    def __init__(self):
        self.d = {}


class _Set:
    def __init__(self):
        self.d = set()


class _Env:
    def __init__(self, parent=None):
        self.v, self.parent = {}, parent

    def get(self, lid):
        e = self
        while e is not None:
            if lid in e.v:
                return e.v[lid]
            e = e.parent
        return _Opq("unbound")

    def set(self, lid, val):
        e = self
        while e is not None:
            if lid in e.v:
                e.v[lid] = val
                return
            e = e.parent
        self.v[lid] = val


def _some(v):
    return _Var("Some", [v], "core::option::Option")


_NONE_ADT = "core::option::Option"


def _none():
    return _Var("None", [], _NONE_ADT)


def _opt(v):
    return _none() if v is None else _some(v)


def _d(v):
    while isinstance(v, _Place):
        v = v.get()
    return v


def _key(v):
    v = _d(v)
    if isinstance(v, (str, int, bool)):
        return v
    if isinstance(v, tuple):
        return tuple(_key(x) for x in v)
    raise _Unknown("unhashable key %r" % (v,))


def _eq(a, b):
    """structural equality; None when it depends on an undetermined value"""
    a, b = _d(a), _d(b)
    if isinstance(a, _Opq) or isinstance(b, _Opq):
        return None
    if isinstance(a, (tuple, list)) and isinstance(b, (tuple, list)):
        if len(a) != len(b):
            return False
        res = True
        for x, y in zip(a, b):
            r = _eq(x, y)
            if r is False:
                return False
            if r is None:
                res = None
        return res
    if isinstance(a, _Var) and isinstance(b, _Var):
        if a.name != b.name:
            return False
        return _eq(a.args, b.args)
    if isinstance(a, _Obj) and isinstance(b, _Obj):
        if a.adt != b.adt or set(a.f) != set(b.f):
            return False
        return _eq([a.f[k] for k in sorted(a.f)], [b.f[k] for k in sorted(a.f)])
    if type(a) is not type(b) and not (isinstance(a, (int, bool)) and isinstance(b, (int, bool))):
        return None     # values of different kinds: a user-defined PartialEq may relate them
    if isinstance(a, (str, int, bool)):
        return a == b
    return None


def _lit(n):
    """value of a literal expression / pattern (integers are dumped as decimal text)"""
    lk, v = n.get("lk"), n.get("v")
    if lk in ("str", "bool", "char"):
        return v
    if lk == "int":
        try:
            v = int(str(v).split("_")[0].rstrip("iu")) if not isinstance(v, int) else v
        except ValueError:
            m = re.match(r"-?\d+", str(v))
            if not m:
                return _Opq("int literal")
            v = int(m.group(0))
        return -v if n.get("neg") else v
    return _Opq("lit")


_IDENTITY = {"to_string", "into", "as_str", "as_ref", "as_mut", "borrow", "borrow_mut", "deref", "deref_mut", "as_deref", "as_slice",
             "as_mut_slice", "copied", "peekable", "fuse", "into_boxed_str", "into_vec", "into_boxed_slice", "from", "to_str", "into_owned"}
_CLONES = {"clone", "cloned", "to_owned", "to_vec"}


def _clone(v):
    """`Clone::clone`: containers and structs are copied (a later mutation of the copy must not show in the original)"""
    v = _d(v)
    if isinstance(v, list):
        return [_clone(x) for x in v]
    if isinstance(v, tuple):
        return tuple(_clone(x) for x in v)
    if isinstance(v, _Obj):
        return _Obj(v.adt, {k: _clone(x) for k, x in v.f.items()})
    if isinstance(v, _Var):
        return _Var(v.name, [_clone(x) for x in v.args], v.adt)
    if isinstance(v, _Map):
        m = _Map()
        m.d = {k: _clone(x) for k, x in v.d.items()}
        return m
    if isinstance(v, _Set):
        t = _Set()
        t.d = set(v.d)
        return t
    if isinstance(v, _Iter):
        raise _Unknown("clone of an iterator")
    return v
_PANIC_FNS = ("core::panicking::", "std::panicking::", "core::option::expect_failed", "core::result::unwrap_failed", "std::rt::begin_panic")


class _Interp:
    def __init__(self, P, stubs=None, budget=400000, depth=64):
        self.P, self.stubs, self.steps, self.budget, self.maxdepth = P, stubs or {}, 0, budget, depth
        self.depth = 0

    # ---------------------------------------------------------------------------------------------------------- calls
    def call(self, path, args):
        """run workspace function `path` on argument values"""
        if path in self.stubs:
            return self.stubs[path](*args)
        f = self.P.fns.get(path)
        if f is None or f.derived:
            raise _Unknown("no body for %s" % path)
        if self.depth >= self.maxdepth:
            raise _Unknown("call depth")
        env = _Env()
        if len(f.params) != len(args):
            raise _Unknown("arity of %s" % path)
        for p, a in zip(f.params, args):
            if not self.pm(p, a, env):
                raise _Unknown("parameter pattern of %s" % path)
        self.depth += 1
        try:
            return self.ev(f.body, env)
        except _Ret as r:
            return r.v
        finally:
            self.depth -= 1

    def apply(self, fv, args):
        fv = _d(fv)
        if isinstance(fv, _Clo):
            env = _Env(fv.env)
            ps = fv.node["params"]
            if len(ps) != len(args):
                raise _Unknown("closure arity")
            for p, a in zip(ps, args):
                if not self.pm(p, a, env):
                    raise _Unknown("closure parameter pattern")
            self.depth += 1
            try:
                if self.depth > self.maxdepth:
                    raise _Unknown("call depth")
                return self.ev(fv.node["body"], env)
            except _Ret as r:
                return r.v
            finally:
                self.depth -= 1
        if isinstance(fv, _Fn):
            if fv.ctor:
                return self.ctor(fv.path, fv.ctor, args)
            return self.fncall(fv.path, None, args, None)
        raise _Unknown("call of %r" % (fv,))

    def ctor(self, path, dk, args):
        p = norm(path)
        if "Struct" in dk:
            return _Obj(p, {str(i): a for i, a in enumerate(args)})
        return _Var(p.split("::")[-1], args, p.rsplit("::", 1)[0])

    def fncall(self, callee, rd, args, node):
        """a path call: workspace function, trait method with a workspace impl, or a modelled std function"""
        for p in (rd, callee):
            if p and (p in self.stubs or (p in self.P.fns and not self.P.fns[p].derived and self.P.fns[p].kind in ("Fn", "AssocFn"))):
                return self.call(p, args)
        c = callee or ""
        if c.startswith(_PANIC_FNS):
            raise _Panic(c)
        last = c.split("::")[-1]
        if c.endswith(("Vec::new", "Vec::with_capacity", "VecDeque::new")):
            return []
        if c.endswith("String::new"):
            return ""
        if c.endswith(("HashMap::new", "HashMap::with_capacity", "BTreeMap::new", "IndexMap::new")):
            return _Map()
        if c.endswith(("HashSet::new", "HashSet::with_capacity", "BTreeSet::new")):
            return _Set()
        if c.endswith("mem::replace") and len(args) == 2 and isinstance(args[0], _Place):
            old = args[0].get()
            args[0].set(args[1])
            return old
        if c.endswith("mem::take") and len(args) == 1 and isinstance(args[0], _Place) and isinstance(args[0].get(), list):
            old = args[0].get()
            args[0].set([])
            return old
        if c.endswith("iter::sources::once::once") or c.endswith("iter::once"):
            return _Iter([args[0]])
        if c.endswith("iter::sources::empty::empty"):
            return _Iter([])
        if c.endswith("Box::new") or c.endswith("convert::identity") or c.endswith(("Rc::new", "Arc::new")):
            return args[0]
        if c.endswith("IntoIterator::into_iter") and len(args) == 1:
            return _Iter(self.iterate(args[0]))
        if c.endswith("Try::branch") and len(args) == 1:
            v = _d(args[0])
            if isinstance(v, _Var) and v.name in ("Some", "Ok"):
                return _Var("Continue", [v.args[0]], "core::ops::ControlFlow")
            if isinstance(v, _Var) and v.name in ("None", "Err"):
                return _Var("Break", [v], "core::ops::ControlFlow")
            raise _Unknown("`?` on %r" % (v,))
        if c.endswith("FromResidual::from_residual") and len(args) == 1:
            return args[0]
        if c.endswith("write_box_via_move") and len(args) == 2:
            return args[1]      # `vec![a, b]`
        if c.endswith("vec::from_elem") and len(args) == 2 and isinstance(_d(args[1]), int):
            return [args[0]] * _d(args[1])
        if c.endswith("slice::into_vec") or c.endswith("<[T]>::into_vec") or c.endswith("box_new") or c.endswith("box_assume_init_into_vec_unsafe"):
            return args[0]
        if "::" in c and args and (c.split("::")[-2][:1].isupper() or c.startswith("<")):
            # `Trait::method(recv, ..)` / `Type::method(recv, ..)` spelled as a path call
            return self.method(last, c, rd, args[0], args[1:], node)
        return self.unknown_call(c, args, node)

    def unknown_call(self, c, args, node=None):
        """a callee without body or model: its result is undetermined — unless it may have an effect the scenario depends on (it gets a
        container, an iterator, a closure or a `&mut` to determined state), in which case nothing is known any more"""
        for a in args:
            if isinstance(_d(a), (list, _Map, _Set, _Clo, _Iter)) or isinstance(a, _Place):
                raise _Unknown("no model for %s" % c)
        determined = any(not isinstance(_d(a), _Opq) for a in args)
        if node is not None and determined:
            if str(node.get("recv_ty", "")).startswith("&mut"):
                raise _Unknown("no model for %s (mutable receiver)" % c)
            if any(isinstance(a, dict) and a.get("k") == "AddrOf" and a.get("mut") for a in node.get("args", [])):
                raise _Unknown("no model for %s (`&mut` argument)" % c)
        return _Opq(c)

    # ------------------------------------------------------------------------------------------------------- iteration
    def iterate(self, v):
        """a Python iterator over the elements `v` yields as a Rust IntoIterator (a list is snapshotted, an iterator is consumed)"""
        v = _d(v)
        if isinstance(v, _Iter):
            return v
        if isinstance(v, list):
            return iter(list(v))
        if isinstance(v, _Var):
            if v.name == "Some":
                return iter([v.args[0]])
            if v.name == "None":
                return iter([])
            if v.name in ("Left", "Right") and len(v.args) == 1:
                return self.iterate(v.args[0])
        if isinstance(v, _Obj):
            for g in self.P.impls.get(("core::iter::traits::collect::IntoIterator", "into_iter"), []):
                if g.self_adt == v.adt and not g.derived:
                    return self.iterate(self.call(g.path, [v]))
        if isinstance(v, (_Map, _Set)) and len(v.d) <= 1:
            return iter([(k, x) for k, x in v.d.items()] if isinstance(v, _Map) else list(v.d))
        raise _Unknown("iteration over %r" % (v,))

    def truth(self, v):
        v = _d(v)
        if v is True or v is False:
            return v
        raise _Unknown("branch on undetermined value %r" % (v,))

    # ---------------------------------------------------------------------------------------------------- method models
    def method(self, name, callee, rd, recv, args, node):
        P = self.P
        for p in (rd, callee):
            if p and (p in self.stubs or (p in P.fns and not P.fns[p].derived and P.fns[p].kind in ("Fn", "AssocFn"))):
                return self.call(p, [recv] + list(args))
        r = _d(recv)
        # trait method declared outside / inside the workspace with a workspace impl for the receiver's ADT
        if callee and "::" in callee and isinstance(r, (_Obj, _Var)) and r.adt and name not in ("from", "try_from", "into", "try_into", "from_iter", "default"):
            tr, m = callee.rsplit("::", 1)
            hits = [g for g in P.impls.get((tr, m), []) if g.self_adt == r.adt and not g.derived]
            if len(hits) >= 1 and (len(hits) == 1 or all(h.self_adt == r.adt for h in hits)):
                return self.call(hits[0].path, [recv] + list(args))
        c = callee or ""
        A = list(args)
        ap = self.apply
        if name in _CLONES and not A and not isinstance(r, _Opq) and not (name == "cloned" and isinstance(r, _Iter)):
            return _clone(r)
        if name == "to_string" and isinstance(r, (_Obj, _Var)) and not A:
            # Display of a smart pointer (Node<T>, NamedType<..>) is the Display of what it dereferences to
            x = r
            for _ in range(4):
                y = _d(self.deref(x))
                if y is x:
                    break
                x = y
            if isinstance(x, str) or (isinstance(x, _Var) and not x.args):
                return x
            raise _Unknown("to_string of %r" % (r,))
        if name in ("eq", "ne") and len(A) == 1:
            e = _eq(r, A[0])
            return _Opq("eq") if e is None else (e if name == "eq" else not e)
        if isinstance(r, _Opq):
            for a in A:
                if isinstance(_d(a), (list, _Map, _Set, _Iter)) or isinstance(a, _Place):
                    raise _Unknown("no model for %s on undetermined receiver" % name)
            return _Opq(name)
        if isinstance(r, bool):
            if name == "then":
                return _some(ap(A[0], [])) if r else _none()
            if name == "then_some":
                return _some(A[0]) if r else _none()
            if name == "not":
                return not r
        if isinstance(r, _Var) and r.name in ("Some", "None") and (r.adt or _NONE_ADT).endswith("Option"):
            some = r.name == "Some"
            x = r.args[0] if some else None
            if name in ("is_some", "is_none"):
                return some == (name == "is_some")
            if name in ("unwrap", "expect"):
                if not some:
                    raise _Panic(name)
                return x
            if name == "unwrap_or":
                return x if some else A[0]
            if name == "unwrap_or_else":
                return x if some else ap(A[0], [])
            if name == "map":
                return _some(ap(A[0], [x])) if some else r
            if name in ("and_then",):
                return ap(A[0], [x]) if some else r
            if name == "filter":
                return r if some and self.truth(ap(A[0], [x])) else _none()
            if name == "or":
                return r if some else A[0]
            if name == "or_else":
                return r if some else ap(A[0], [])
            if name == "and":
                return A[0] if some else r
            if name == "xor":
                raise _Unknown("xor")
            if name == "is_some_and":
                return some and self.truth(ap(A[0], [x]))
            if name == "is_none_or":
                return (not some) or self.truth(ap(A[0], [x]))
            if name == "map_or":
                return ap(A[1], [x]) if some else A[0]
            if name == "map_or_else":
                return ap(A[1], [x]) if some else ap(A[0], [])
            if name in ("ok_or", "ok_or_else"):
                return _Var("Ok", [x], "core::result::Result") if some else _Var("Err", [A[0] if name == "ok_or" else ap(A[0], [])], "core::result::Result")
            if name in ("iter", "into_iter", "iter_mut"):
                return _Iter([x] if some else [])
            if name == "flatten":
                return x if some else r
            if name == "unwrap_or_default":
                if some:
                    return x
                raise _Unknown("default value")
            if name == "take" and isinstance(recv, _Place):
                recv.set(_none())
                return r
            if name in ("take", "replace", "insert", "get_or_insert", "get_or_insert_with", "as_mut", "take_if"):
                raise _Unknown("in-place `Option::%s` on a value that is not a place" % name)
            if name == "zip":
                o = _d(A[0])
                if isinstance(o, _Var) and o.name in ("Some", "None"):
                    return _some((x, o.args[0])) if some and o.name == "Some" else _none()
            if name in _IDENTITY:
                return r
        if isinstance(r, _Var) and r.name in ("Ok", "Err"):
            ok = r.name == "Ok"
            if name in ("unwrap", "expect"):
                if not ok:
                    raise _Panic(name)
                return r.args[0]
            if name == "ok":
                return _some(r.args[0]) if ok else _none()
            if name == "is_ok":
                return ok
            if name == "is_err":
                return not ok
            if name == "map":
                return _Var("Ok", [ap(A[0], [r.args[0]])], r.adt) if ok else r
        if isinstance(r, _Var) and r.name in ("Left", "Right") and name in ("map", "map_left", "map_right", "either", "into_iter", "iter"):
            if name == "map":   # itertools::Either<T, T>::map
                return _Var(r.name, [ap(A[0], [r.args[0]])], r.adt)
            if name == "map_left":
                return _Var(r.name, [ap(A[0], [r.args[0]])], r.adt) if r.name == "Left" else r
            if name == "map_right":
                return _Var(r.name, [ap(A[0], [r.args[0]])], r.adt) if r.name == "Right" else r
            if name == "either":
                return ap(A[0] if r.name == "Left" else A[1], [r.args[0]])
            return _Iter(self.iterate(r))
        if isinstance(r, _Var) and r.name in ("Left", "Right"):
            # Either as an iterator: delegate to the wrapped iterator
            return self.method(name, callee, rd, r.args[0], A, node)
        if isinstance(r, (list, _Iter)):
            return self.seq_method(name, c, recv, r, A, node)
        if isinstance(r, _Map):
            d = r.d
            if name == "get":
                k = _key(A[0])
                return _some(d[k]) if k in d else _none()
            if name == "get_mut":
                k = _key(A[0])
                return _some(_Place(d, k)) if k in d else _none()
            if name == "contains_key":
                return _key(A[0]) in d
            if name == "insert":
                k = _key(A[0])
                old = _opt(d.get(k)) if k in d else _none()
                d[k] = A[1]
                return old
            if name == "remove":
                k = _key(A[0])
                return _some(d.pop(k)) if k in d else _none()
            if name == "entry":
                return ("entry", d, _key(A[0]))
            if name == "len":
                return len(d)
            if name == "is_empty":
                return not d
            if name in ("iter", "into_iter", "keys", "values", "into_keys", "into_values", "iter_mut", "values_mut", "drain"):
                if len(d) > 1:
                    raise _Unknown("iteration order of a hash map")
                if name in ("keys", "into_keys"):
                    return _Iter(list(d.keys()))
                if name in ("values", "into_values"):
                    return _Iter(list(d.values()))
                return _Iter([(k, v) for k, v in d.items()])
            if name in _IDENTITY:
                return r
        if isinstance(r, tuple) and len(r) == 3 and r[0] == "entry":
            _, d, k = r
            if name in ("or_insert", "or_insert_with", "or_insert_with_key"):
                if k not in d:
                    d[k] = A[0] if name == "or_insert" else ap(A[0], [] if name == "or_insert_with" else [k])
                return _Place(d, k)
            if name == "or_default":
                if k not in d:
                    t = str((node or {}).get("t", ""))
                    if "Vec<" in t.split("&mut ")[-1][:24]:
                        d[k] = []
                    else:
                        raise _Unknown("default value")
                return _Place(d, k)
            if name == "and_modify":
                if k in d:
                    ap(A[0], [_Place(d, k)])
                return r
        if isinstance(r, _Set):
            if name == "insert":
                k = _key(A[0])
                new = k not in r.d
                r.d.add(k)
                return new
            if name == "contains":
                return _key(A[0]) in r.d
            if name == "remove":
                k = _key(A[0])
                had = k in r.d
                r.d.discard(k)
                return had
            if name == "extend":
                for x in self.iterate(A[0]):
                    r.d.add(_key(x))
                return ()
            if name == "len":
                return len(r.d)
            if name == "is_empty":
                return not r.d
            if name in ("iter", "into_iter", "drain"):
                if len(r.d) > 1:
                    raise _Unknown("iteration order of a hash set")
                return _Iter(list(r.d))
            if name in _IDENTITY:
                return r
        if isinstance(r, str):
            if name in ("push_str", "push", "clear", "insert_str", "insert", "truncate", "pop", "remove", "retain", "drain", "extend", "make_ascii_lowercase",
                        "make_ascii_uppercase"):
                raise _Unknown("in-place `String::%s`" % name)
            if name == "len":
                return len(r)
            if name == "is_empty":
                return not r
            if name in ("starts_with", "ends_with", "contains") and isinstance(_d(A[0]), str):
                return {"starts_with": r.startswith, "ends_with": r.endswith, "contains": r.__contains__}[name](_d(A[0]))
        if name in _IDENTITY and not A:
            return r
        if name == "into" or name == "from":
            return r
        return self.unknown_call("%s (method `%s` on %r)" % (c, name, type(r).__name__), [recv] + A, node)

    def seq_method(self, name, c, recv, r, A, node):
        """methods of Vec / slices (`r` is a list) and of iterators (`r` is an _Iter).  Adaptors are lazy, exactly as in Rust: their
        closures run when an element is pulled, so short-circuiting consumers never evaluate them on later elements."""
        ap, tr, it = self.apply, self.truth, self.iterate
        is_list = isinstance(r, list)
        src = it(r)      # a list is snapshotted; an iterator is consumed in place

        def option(y, what):
            y = _d(y)
            if not (isinstance(y, _Var) and y.name in ("Some", "None")):
                raise _Unknown("%s result %r" % (what, y))
            return y

        # ---- conversions
        if name in ("iter", "into_iter", "copied", "fuse", "by_ref", "peekable", "into_boxed_slice", "into_vec", "as_slice", "as_ref", "borrow", "as_mut_slice",
                    "as_mut", "deref", "deref_mut", "into") and not A:
            if name in ("iter", "into_iter", "copied", "fuse", "peekable") or not is_list:
                return r if not is_list else _Iter(src)
            return r
        if name == "iter_mut" and is_list:
            return _Iter(_Place(r, i) for i in range(len(r)))
        if name == "drain" and is_list and not A:
            out = list(r)
            del r[:]
            return _Iter(out)
        if name == "cloned":
            return _Iter(_clone(x) for x in src)
        # ---- lazy adaptors
        if name == "map":
            return _Iter(ap(A[0], [x]) for x in src)
        if name == "inspect":
            def g_inspect():
                for x in src:
                    ap(A[0], [x])
                    yield x
            return _Iter(g_inspect())
        if name == "filter":
            return _Iter(x for x in src if tr(ap(A[0], [x])))
        if name == "filter_map":
            def g_fm():
                for x in src:
                    y = option(ap(A[0], [x]), "filter_map")
                    if y.name == "Some":
                        yield y.args[0]
            return _Iter(g_fm())
        if name == "map_while":
            def g_mw():
                for x in src:
                    y = option(ap(A[0], [x]), "map_while")
                    if y.name == "None":
                        return
                    yield y.args[0]
            return _Iter(g_mw())
        if name == "flat_map":
            return _Iter(y for x in src for y in it(ap(A[0], [x])))
        if name == "flatten":
            return _Iter(y for x in src for y in it(x))
        if name == "chain":
            other = it(A[0])
            return _Iter(itertools.chain(src, other))
        if name == "enumerate":
            return _Iter((i, x) for i, x in enumerate(src))
        if name == "zip":
            return _Iter(zip(src, it(A[0])))
        if name == "rev":
            return _Iter(reversed(list(src)))
        if name in ("skip", "take", "step_by") and isinstance(_d(A[0]), int):
            n = _d(A[0])
            return _Iter(itertools.islice(src, n, None) if name == "skip" else (itertools.islice(src, n) if name == "take" else itertools.islice(src, 0, None, n)))
        if name == "take_while":
            return _Iter(itertools.takewhile(lambda x: tr(ap(A[0], [x])), src))
        if name == "skip_while":
            return _Iter(itertools.dropwhile(lambda x: tr(ap(A[0], [x])), src))
        if name in ("unique", "dedup") and not A and not (name == "dedup" and is_list):
            def g_unique():
                seen = []
                for x in src:
                    dup = False
                    for y in (seen if name == "unique" else seen[-1:]):
                        e = _eq(x, y)
                        if e is None:
                            raise _Unknown("%s over undetermined elements" % name)
                        dup = dup or e
                    if not dup:
                        seen.append(x)
                        yield x
            return _Iter(g_unique())
        if name == "cartesian_product":
            other = list(it(A[0]))
            return _Iter((x, y) for x in src for y in other)
        if name == "multi_cartesian_product":
            parts = [list(it(p)) for p in src]
            if not parts:
                raise _Unknown("multi_cartesian_product of no iterators (differs between itertools versions)")
            return _Iter(list(p) for p in itertools.product(*parts))
        # ---- consumers
        if name in ("collect", "collect_vec"):
            t = str((node or {}).get("t", ""))
            if name == "collect_vec" or not t or t.startswith(("alloc::vec::Vec<", "Vec<", "alloc::boxed::Box<[")):
                return list(src)
            if t.startswith(("std::collections::hash::map::HashMap<", "alloc::collections::btree::map::BTreeMap<", "indexmap::map::IndexMap<")):
                m = _Map()
                for kv in src:
                    kv = _d(kv)
                    if not (isinstance(kv, tuple) and len(kv) == 2):
                        raise _Unknown("collect into a map")
                    m.d[_key(kv[0])] = kv[1]
                return m
            if t.startswith(("std::collections::hash::set::HashSet<", "alloc::collections::btree::set::BTreeSet<", "indexmap::set::IndexSet<")):
                s = _Set()
                for x in src:
                    s.d.add(_key(x))
                return s
            if t.startswith(("core::option::Option<alloc::vec::Vec<", "core::result::Result<alloc::vec::Vec<")):
                out = []
                for x in src:
                    x = _d(x)
                    if not (isinstance(x, _Var) and x.name in ("Some", "None", "Ok", "Err")):
                        raise _Unknown("collect into Option/Result")
                    if x.name in ("None", "Err"):
                        return x
                    out.append(x.args[0])
                return _Var("Some" if t.startswith("core::option") else "Ok", [out], t.split("<")[0])
            raise _Unknown("collect into %s" % t[:48])
        if name in ("find", "rfind"):
            for x in (src if name == "find" else reversed(list(src))):
                if tr(ap(A[0], [x])):
                    return _some(x)
            return _none()
        if name == "find_map":
            for x in src:
                y = option(ap(A[0], [x]), "find_map")
                if y.name == "Some":
                    return y
            return _none()
        if name == "any":
            for x in src:
                if tr(ap(A[0], [x])):
                    return True
            return False
        if name == "all":
            for x in src:
                if not tr(ap(A[0], [x])):
                    return False
            return True
        if name == "position":
            for i, x in enumerate(src):
                if tr(ap(A[0], [x])):
                    return _some(i)
            return _none()
        if name == "for_each":
            for x in src:
                ap(A[0], [x])
            return ()
        if name == "fold":
            acc = A[0]
            for x in src:
                acc = ap(A[1], [acc, x])
            return acc
        if name == "count":
            return sum(1 for _ in src)
        if name == "partition_map":
            le, ri = [], []
            for x in src:
                y = _d(ap(A[0], [x]))
                if not (isinstance(y, _Var) and y.name in ("Left", "Right")):
                    raise _Unknown("partition_map")
                (le if y.name == "Left" else ri).append(y.args[0])
            return (le, ri)
        if name == "partition":
            a, b = [], []
            for x in src:
                (a if tr(ap(A[0], [x])) else b).append(x)
            return (a, b)
        if name == "unzip":
            a, b = [], []
            for x in src:
                x = _d(x)
                if not (isinstance(x, tuple) and len(x) == 2):
                    raise _Unknown("unzip")
                a.append(x[0])
                b.append(x[1])
            return (a, b)
        if not is_list:
            if name == "next":
                for x in src:
                    return _some(x)
                return _none()
            if name == "peek":
                if not r.buf:
                    for x in r.g:
                        r.buf.append(x)
                        break
                return _some(r.buf[0]) if r.buf else _none()
            if name == "last":
                out = _none()
                for x in src:
                    out = _some(x)
                return out
            if name == "nth" and isinstance(_d(A[0]), int):
                for x in itertools.islice(src, _d(A[0]), None):
                    return _some(x)
                return _none()
            raise _Unknown("no model for iterator method `%s`" % name)
        # ---- Vec / slice
        if name == "len":
            return len(r)
        if name == "is_empty":
            return not r
        if name == "contains":
            for x in r:
                e = _eq(x, A[0])
                if e is None:
                    raise _Unknown("contains on undetermined element")
                if e:
                    return True
            return False
        if name in ("first", "first_mut"):
            return _some(_Place(r, 0)) if r else _none()
        if name in ("last", "last_mut"):
            return _some(_Place(r, len(r) - 1)) if r else _none()
        if name in ("get", "get_mut") and isinstance(_d(A[0]), int):
            i = _d(A[0])
            return _some(_Place(r, i)) if 0 <= i < len(r) else _none()
        if name in ("push", "push_back"):
            r.append(A[0])
            return ()
        if name == "extend" or name == "extend_from_slice":
            r.extend(list(it(A[0])))
            return ()
        if name == "append":
            o = _d(A[0])
            if isinstance(o, list):
                r.extend(o)
                del o[:]
                return ()
        if name == "insert" and isinstance(_d(A[0]), int):
            if not 0 <= _d(A[0]) <= len(r):
                raise _Panic("insert")
            r.insert(_d(A[0]), A[1])
            return ()
        if name == "remove" and isinstance(_d(A[0]), int):
            if not 0 <= _d(A[0]) < len(r):
                raise _Panic("remove")
            return r.pop(_d(A[0]))
        if name in ("pop", "pop_back"):
            return _some(r.pop()) if r else _none()
        if name == "truncate" and isinstance(_d(A[0]), int):
            del r[_d(A[0]):]
            return ()
        if name == "clear":
            del r[:]
            return ()
        if name == "retain":
            r[:] = [x for x in list(r) if tr(ap(A[0], [x]))]
            return ()
        if name == "reverse":
            r.reverse()
            return ()
        if name == "dedup" and not A:
            out = []
            for x in r:
                e = _eq(x, out[-1]) if out else False
                if e is None:
                    raise _Unknown("dedup over undetermined elements")
                if not e:
                    out.append(x)
            r[:] = out
            return ()
        if name == "swap_remove" and isinstance(_d(A[0]), int):
            i = _d(A[0])
            if not 0 <= i < len(r):
                raise _Panic("swap_remove")
            x = r[i]
            r[i] = r[-1]
            r.pop()
            return x
        if name == "split_first":
            return _some((r[0], r[1:])) if r else _none()
        if name == "split_last":
            return _some((r[-1], r[:-1])) if r else _none()
        if name in ("sort", "sort_unstable", "sort_by_key", "sort_unstable_by_key", "sort_by_cached_key"):
            keys = [_key(x) if name in ("sort", "sort_unstable") else _key(ap(A[0], [x])) for x in r]
            if len({type(k) for k in keys}) > 1:
                raise _Unknown("sort over keys of several kinds")
            r[:] = [x for _, x in sorted(zip(range(len(r)), r), key=lambda p: (keys[p[0]], p[0]))]
            return ()
        raise _Unknown("no model for method `%s` on a sequence" % name)

    # ------------------------------------------------------------------------------------------------------- patterns
    def pm(self, pat, val, env):
        """match `val` against `pat`, binding into env; raises _Unknown when the outcome depends on an undetermined value"""
        k = pat.get("k")
        if k == "Binding":
            env.v[pat["local"]] = val
            return self.pm(pat["sub"], val, env) if "sub" in pat else True
        if k == "Wild":
            return True
        if k in ("Ref", "Deref", "Box", "Guard"):
            return self.pm(pat["p"], val, env)
        v = _d(val)
        if k == "Or":
            for p in pat["ps"]:
                if self.pm(p, val, env):
                    return True
            return False
        if isinstance(v, _Opq):
            if k in ("Tuple",) and "ddpos" not in pat and all(self._irrefutable(p) for p in pat["ps"]):
                for p in pat["ps"]:
                    self.pm(p, _Opq(v.why), env)
                return True
            if k == "Struct" and pat.get("dk") != "Variant" and all(self._irrefutable(f["p"]) for f in pat["fields"]):
                for f in pat["fields"]:
                    self.pm(f["p"], _Opq(v.why), env)
                return True
            raise _Unknown("pattern on undetermined value")
        if k == "Tuple":
            if "ddpos" in pat or not isinstance(v, tuple) or len(v) != len(pat["ps"]):
                raise _Unknown("tuple pattern")
            ok = True
            for p, x in zip(pat["ps"], v):
                ok = self.pm(p, x, env) and ok
                if not ok:
                    return False
            return True
        if k == "TupleStruct":
            name = norm(pat.get("ctor_of") or pat.get("def") or "").split("::")[-1]
            if isinstance(v, _Var):
                if v.name != name:
                    return False
                if len(v.args) != len(pat["ps"]) or "ddpos" in pat:
                    raise _Unknown("variant arity")
                for p, x in zip(pat["ps"], v.args):
                    if not self.pm(p, x, env):
                        return False
                return True
            if isinstance(v, _Obj) and all(str(i) in v.f for i in range(len(pat["ps"]))):
                for i, p in enumerate(pat["ps"]):
                    if not self.pm(p, v.f[str(i)], env):
                        return False
                return True
            raise _Unknown("tuple-struct pattern on %r" % (v,))
        if k == "Struct":
            if pat.get("dk") == "Variant":
                name = norm(pat["def"]).split("::")[-1]
                if not isinstance(v, _Var):
                    raise _Unknown("variant pattern on %r" % (v,))
                if v.name != name:
                    return False
                for f in pat["fields"]:
                    if f["name"].isdigit() and int(f["name"]) < len(v.args):
                        if not self.pm(f["p"], v.args[int(f["name"])], env):
                            return False
                    elif len(v.args) == 1 and isinstance(_d(v.args[0]), _Obj) and f["name"] in _d(v.args[0]).f:
                        if not self.pm(f["p"], _d(v.args[0]).f[f["name"]], env):
                            return False
                    else:
                        raise _Unknown("variant field pattern")
                return True
            if isinstance(v, _Obj):
                for f in pat["fields"]:
                    if not self.pm(f["p"], v.f.get(f["name"], _Opq(f["name"])), env):
                        return False
                return True
            raise _Unknown("struct pattern on %r" % (v,))
        if k == "PatExpr":
            if "lk" in pat:
                e = _eq(v, _lit(pat))
                if e is None:
                    raise _Unknown("literal pattern on %r" % (v,))
                return e
            name = norm(pat.get("ctor_of") or pat.get("def") or "").split("::")[-1]
            if isinstance(v, _Var) and name:
                return v.name == name
            raise _Unknown("path pattern")
        raise _Unknown("pattern kind %s" % k)

    def _irrefutable(self, p):
        k = p.get("k")
        if k in ("Wild",):
            return True
        if k == "Binding":
            return "sub" not in p or self._irrefutable(p["sub"])
        if k in ("Ref", "Deref", "Box"):
            return self._irrefutable(p["p"])
        if k == "Tuple":
            return all(self._irrefutable(x) for x in p["ps"])
        return False

    # ---------------------------------------------------------------------------------------------------- expressions
    def ev(self, n, env):
        self.steps += 1
        if self.steps > self.budget:
            raise _Unknown("step budget")
        k = n.get("k")
        h = getattr(self, "e_" + k, None)
        if h is None:
            raise _Unknown("no model for node kind %s" % k)
        v = h(n, env)
        for _ in range(n.get("oderef") or 0):
            v = self.deref(v)
        return v

    def deref(self, v):
        """one overloaded `Deref::deref` step: workspace impls are run, std smart pointers are transparent"""
        x = _d(v)
        if isinstance(x, _Obj):
            for tr in ("core::ops::deref::Deref", "core::ops::deref::DerefMut"):
                for g in self.P.impls.get((tr, "deref" if tr.endswith("Deref") else "deref_mut"), []):
                    if g.self_adt == x.adt and not g.derived:
                        return self.call(g.path, [v])
        if isinstance(x, _Var) and (x.adt or "").endswith("borrow::Cow") and len(x.args) == 1:
            return x.args[0]
        return v

    def e_BlockExpr(self, n, env):
        return self.e_Block(n["b"], env)

    def e_Block(self, n, env):
        try:
            for s in n.get("stmts", []):
                self.ev(s, env)
            return self.ev(n["tail"], env) if "tail" in n else ()
        except _Brk as b:
            if n.get("label") and b.label == n["label"]:      # `'a: { .. break 'a v .. }`
                return b.v
            raise

    def e_Stmt(self, n, env):
        self.ev(n["e"], env)
        return ()

    def e_Item(self, n, env):
        return ()

    def e_Let(self, n, env):
        if "init" not in n:
            return ()
        v = self.ev(n["init"], env)
        if not self.pm(n["pat"], v, env):
            if "els" in n:
                self.ev(n["els"], env)
                raise _Unknown("`else` of let-else does not diverge")
            raise _Unknown("refutable let")
        return ()

    def e_LetExpr(self, n, env):
        return self.pm(n["pat"], self.ev(n["init"], env), env)

    def e_Lit(self, n, env):
        return _lit(n)

    def e_Path(self, n, env):
        if "local" in n:
            return env.get(n["local"])
        dk = n.get("dk", "")
        p = norm(n.get("rd") or n.get("def") or "")
        if dk.startswith("Ctor"):
            if "Const" in dk:
                if "Struct" in dk:
                    return _Obj(norm(n["def"]), {})
                d = norm(n.get("ctor_of") or n["def"])
                return _Var(d.split("::")[-1], [], d.rsplit("::", 1)[0])
            return _Fn(norm(n.get("ctor_of") or n["def"]), ctor=dk)
        if dk in ("Fn", "AssocFn"):
            return _Fn(p)
        return _Opq(p)

    def e_Field(self, n, env):
        b = _d(self.ev(n["e"], env))
        f = n["field"]
        if isinstance(b, _Obj):
            return b.f[f] if f in b.f else _Opq(f)
        if isinstance(b, tuple) and f.isdigit() and int(f) < len(b):
            return b[int(f)]
        if isinstance(b, _Opq):
            return _Opq(f)
        raise _Unknown("field `%s` of %r" % (f, b))

    def e_AddrOf(self, n, env):
        e = n["e"]
        if e.get("k") == "Index":
            box, i = _d(self.ev(e["e"], env)), _d(self.ev(e["idx"], env))
            if isinstance(box, list) and isinstance(i, int):
                if not 0 <= i < len(box):
                    raise _Panic("index")
                return _Place(box, i)
        if e.get("k") == "Field" and n.get("mut"):
            b = _d(self.ev(e["e"], env))
            if isinstance(b, _Obj) and e["field"] in b.f:
                return _Place(b.f, e["field"])
        if e.get("k") == "Path" and "local" in e and n.get("mut"):
            # `&mut local`: mutable containers are shared by identity; scalars / options need a slot
            v = env.get(e["local"])
            if isinstance(_d(v), (list, _Map, _Set, _Obj, _Clo, _Opq, _Iter)) or isinstance(v, _Place):
                return v
            holder = env
            while holder is not None and e["local"] not in holder.v:
                holder = holder.parent
            if holder is not None:
                return _Place(holder.v, e["local"])
        return self.ev(e, env)

    def e_DropTemps(self, n, env):
        return self.ev(n["e"], env)

    e_Use = e_Cast = e_Type = e_DropTemps

    def e_Unary(self, n, env):
        v = self.ev(n["e"], env)
        op = n.get("op")
        if op == "Deref":
            if n.get("callee"):
                return self.deref(v)
            return v if not isinstance(v, _Place) or isinstance(v.get(), (list, _Map, _Set, _Obj)) else v.get()
        v = _d(v)
        if isinstance(v, _Opq):
            return _Opq(op)
        if op == "Not" and isinstance(v, bool):
            return not v
        if op == "Neg" and isinstance(v, int):
            return -v
        raise _Unknown("unary %s on %r" % (op, v))

    def e_Binary(self, n, env):
        op = n.get("op")
        if op in ("&&", "||"):
            l = _d(self.ev(n["l"], env))
            if isinstance(l, bool):
                if (op == "&&" and not l) or (op == "||" and l):
                    return l
                return self.ev(n["r"], env)
            r = _d(self.ev(n["r"], env))
            if isinstance(r, bool) and ((op == "&&" and not r) or (op == "||" and r)):
                return r
            return _Opq(op)
        l, r = self.ev(n["l"], env), self.ev(n["r"], env)
        if op in ("==", "!="):
            c = norm(n.get("rd") or n.get("callee") or "")
            lv = _d(l)
            if not (c in self.P.fns and not self.P.fns[c].derived) and isinstance(lv, (_Obj, _Var)) and lv.adt:
                hits = [g for g in self.P.impls.get(("core::cmp::PartialEq", "eq"), []) if g.self_adt == lv.adt and not g.derived]
                c = hits[0].path if len(hits) == 1 else c
            if c in self.P.fns and not self.P.fns[c].derived:
                e = self.truth(self.call(c, [l, r]))
                return e if op == "==" else not e
            e = _eq(l, r)
            return _Opq(op) if e is None else (e if op == "==" else not e)
        l, r = _d(l), _d(r)
        if isinstance(l, _Opq) or isinstance(r, _Opq):
            return _Opq(op)
        if isinstance(l, bool) and isinstance(r, bool) and op in ("^", "&", "|"):
            return {"^": l != r, "&": l and r, "|": l or r}[op]
        if isinstance(l, int) and isinstance(r, int) and not isinstance(l, bool):
            if op in ("+", "-", "*", "<", "<=", ">", ">="):
                return {"+": l + r, "-": l - r, "*": l * r, "<": l < r, "<=": l <= r, ">": l > r, ">=": l >= r}[op]
        raise _Unknown("binary %s" % op)

    def e_Tup(self, n, env):
        return tuple(self.ev(e, env) for e in n["es"])

    def e_Array(self, n, env):
        return [self.ev(e, env) for e in n["es"]]

    def e_Struct(self, n, env):
        if "rest" in n:
            raise _Unknown("struct pattern as expression")
        f = {}
        if "base" in n and n["base"] is not None and isinstance(n["base"], dict) and n["base"].get("k"):
            b = _d(self.ev(n["base"], env))
            if not isinstance(b, _Obj):
                raise _Unknown("struct base")
            f.update(b.f)
        for x in n["fields"]:
            f[x["name"]] = self.ev(x["e"], env)
        adt = norm(n.get("adt") or "")
        if n.get("dk") == "Variant" or (n.get("variant") and norm(n["variant"]) != adt):
            v = norm(n.get("variant") or n.get("def"))
            return _Var(v.split("::")[-1], [_Obj(v, f)], adt)
        return _Obj(adt, f)

    def e_Closure(self, n, env):
        return _Clo(n, env)

    def e_Call(self, n, env):
        f = n.get("f", {})
        dk = n.get("callee_dk") or f.get("dk") or ""
        if f.get("k") == "Path" and "local" not in f and dk.startswith("Ctor"):
            return self.ctor(n.get("callee") or f.get("def"), dk, [self.ev(a, env) for a in n["args"]])
        if not (f.get("k") == "Path" and "local" not in f and f.get("dk") in ("Fn", "AssocFn")):
            fv = self.ev(f, env)
            return self.apply(fv, [self.ev(a, env) for a in n["args"]])
        callee, rd = norm(n.get("callee") or f.get("def")), norm(f.get("rd"))
        if callee.startswith(_PANIC_FNS):
            raise _Panic(callee)
        return self.fncall(callee, rd, [self.ev(a, env) for a in n["args"]], n)

    def e_MethodCall(self, n, env):
        recv = self.ev(n["recv"], env)
        args = [self.ev(a, env) for a in n["args"]]
        return self.method(n["method"], norm(n.get("callee")), norm(n.get("rd")), recv, args, n)

    def e_If(self, n, env):
        if self.truth(self.ev(n["cond"], env)):
            return self.ev(n["then"], env)
        return self.ev(n["else"], env) if "else" in n else ()

    def e_Match(self, n, env):
        if n.get("src") == "ForLoopDesugar":
            return self.for_loop(n, env)
        v = self.ev(n["scrut"], env)
        for arm in n["arms"]:
            if self.pm(arm["pat"], v, env):
                if "guard" in arm and not self.truth(self.ev(arm["guard"], env)):
                    continue
                return self.ev(arm["body"], env)
        raise _Unknown("no arm matches %r" % (_d(v),))

    def for_loop(self, n, env):
        sc = n["scrut"]
        if not (sc.get("k") == "Call" and len(sc.get("args", [])) == 1):
            raise _Unknown("for-loop shape")
        seq = self.iterate(self.ev(sc["args"][0], env))     # pulled lazily: `break` leaves the rest unevaluated
        inner = [x for x in subnodes(n["arms"][0]["body"]) if x.get("k") == "Match" and x.get("src") == "ForLoopDesugar"]
        if not inner:
            raise _Unknown("for-loop shape")
        some = [a for a in inner[0]["arms"] if norm(a["pat"].get("def") or "").endswith("Option::Some")]
        if len(some) != 1 or len(some[0]["pat"].get("fields", [])) != 1:
            raise _Unknown("for-loop shape")
        pat, body = some[0]["pat"]["fields"][0]["p"], some[0]["body"]
        label = next((x.get("label") for x in subnodes(n["arms"][0]["body"]) if x.get("k") == "Loop"), None)
        for x in seq:
            if not self.pm(pat, x, env):
                raise _Unknown("for-loop pattern")
            try:
                self.ev(body, env)
            except _Cont as c:
                if c.label not in (None, label):
                    raise
                continue
            except _Brk as b:
                if b.label not in (None, label):
                    raise
                break
        return ()

    def e_Loop(self, n, env):
        while True:
            self.steps += 1
            if self.steps > self.budget:
                raise _Unknown("step budget")
            try:
                self.e_Block(n["body"], env) if n["body"].get("k") == "Block" else self.ev(n["body"], env)
            except _Cont as c:
                if c.label not in (None, n.get("label")):
                    raise
                continue
            except _Brk as b:
                if b.label not in (None, n.get("label")):
                    raise
                return b.v

    def e_Break(self, n, env):
        raise _Brk(self.ev(n["e"], env) if "e" in n else (), n.get("label"))

    def e_Continue(self, n, env):
        raise _Cont(n.get("label"))

    def e_Ret(self, n, env):
        raise _Ret(self.ev(n["e"], env) if "e" in n else ())

    e_InlRet = e_Ret

    def e_Assign(self, n, env):
        v = self.ev(n["r"], env)
        l = n["l"]
        if l.get("k") == "Path" and "local" in l:
            cur = env.get(l["local"])
            env.set(l["local"], v)
            return ()
        if l.get("k") == "Unary" and l.get("op") == "Deref":
            t = self.ev(l["e"], env)
            if isinstance(t, _Place):
                t.set(v)
                return ()
        if l.get("k") == "Field":
            b = _d(self.ev(l["e"], env))
            if isinstance(b, _Obj):
                b.f[l["field"]] = v
                return ()
        if l.get("k") == "Index":
            p = self.e_AddrOf({"e": l, "mut": True}, env)
            if isinstance(p, _Place):
                p.set(v)
                return ()
        raise _Unknown("assignment target")

    def e_AssignOp(self, n, env):
        op = (n.get("op") or "").rstrip("=")
        cur = self.ev(n["l"], env)
        v = self.e_Binary({"op": op, "l": {"k": "_Val", "v": cur}, "r": n["r"]}, env)
        if isinstance(_d(v), _Opq):
            raise _Unknown("compound assignment of an undetermined value")
        l = n["l"]
        if l.get("k") == "Path" and "local" in l:
            if isinstance(cur, _Place):
                cur.set(v)
            else:
                env.set(l["local"], v)
            return ()
        if l.get("k") == "Unary" and l.get("op") == "Deref":
            t = self.ev(l["e"], env)
            if isinstance(t, _Place):
                t.set(v)
                return ()
        if l.get("k") == "Field":
            b = _d(self.ev(l["e"], env))
            if isinstance(b, _Obj):
                b.f[l["field"]] = v
                return ()
        raise _Unknown("compound assignment target")

    def e__Val(self, n, env):
        return n["v"]

    def e_Index(self, n, env):
        p = self.e_AddrOf({"e": n, "mut": False}, env)
        if isinstance(p, _Place):
            return p.get()
        box = _d(self.ev(n["e"], env))
        if isinstance(box, _Map):
            k = _key(self.ev(n["idx"], env))
            if k not in box.d:
                raise _Panic("index")
            return box.d[k]
        if isinstance(box, _Opq):
            return _Opq("index")
        raise _Unknown("index")


def _run(P, path, args, stubs=None):
    """-> ("ok", value) | ("panic", why) | ("unknown", why)"""
    ip = _Interp(P, stubs)
    try:
        return "ok", ip.call(path, args)
    except _Panic as e:
        return "panic", str(e)
    except _Unknown as e:
        return "unknown", str(e)
    except (_Brk, _Cont):
        return "unknown", "stray break/continue"
    except (KeyError, IndexError, TypeError, AttributeError, RecursionError) as e:
        return "unknown", "interpreter: %r" % (e,)


RULES = [("R02-a", r02a), ("R02-b", r02b), ("R02-c", r02c), ("R02-d", r02d), ("R02-e", r02e), ("R02-f", r02f)]
EXPLANATION = (
    "The mechanisms C02 anchors, each a necessary condition. Structural instances are decided for all inputs; instances marked `run:` "
    "are decided by abstract execution of the public entry points over the typed HIR on a fixed small schema and a GraphQL selection, "
    "everything else undetermined, compared with the GraphQL spec's result for that input (a differing result is a concrete witness). "
    "(R02-a) nullability: a type is nullable unless wrapped in Non-Null, list elements are decided afresh, wrappers are carried 1:1 into "
    "the selection tree, leaves and nested selections use the schema field's type; (R02-b) the __typename literal is the branch's "
    "concrete object type, and the special case is keyed by field name rather than response key; (R02-c) result leaves and branches "
    "refer to the OperationOutput namespace; (R02-d) object declarations list __typename plus every field; (R02-e) the merge table "
    "of same-key fields (a field selected in any occurrence is present, sides kept correctly), branches paired by object type, "
    "fast_equal sound; (R02-f) the type-condition filter relates each kind of condition to the branch's object at every fragment "
    "site, @skip/@include rows, both values of each boolean variable of every directive of every selection, possible types per "
    "parent kind. Not decided: that the emitted union equals the per-selection-set denotation for every schema and document.")
ASSUMPTIONS = ["TypeScript semantics of the emitted utility type __SelectionSet (not analysed)", "GraphQL spec §3.12 nullability, §5.5.2 fragment applicability",
               "the interpreter's models of std (Option, iterators, Vec, HashMap/HashSet, itertools products) are exact; anything else is UNDECIDED"]


def main(tier):
    return harness.run_property("C02", RULES, "other", EXPLANATION, ASSUMPTIONS, tier)
