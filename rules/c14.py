"""C14 — Declared exports match what the bundler loader exports at runtime."""
import harness
from facts import norm, call_name, short, subnodes, lit_value, field_reads, peel_ty
from prov import Prov, has_field, has_call
from emit import emission
from templates import enclosing_contexts

PR = "nitrogql_printer::"
VIS = PR + "operation_base_printer::visitor::OperationPrinterVisitor"
BASEOPT = PR + "operation_base_printer::options::OperationBasePrinterOptions"
CFG = "nitrogql_config_file::config::"

# option field -> config field it must be wired to (T10). `named_export_for_operation` is the negation of the same key.
BASE_WIRING = {
    "default_export_for_operation": ("GenerateExportConfig", "default_export_for_operation"),
    "named_export_for_operation": ("GenerateExportConfig", "default_export_for_operation"),
    "export_input_type": ("GenerateExportConfig", "variables_type"),
    "export_result_type": ("GenerateExportConfig", "operation_result_type"),
    "capitalize_operation_names": ("GenerateNameConfig", "capitalize_operation_names"),
    "query_variable_suffix": ("GenerateNameConfig", "query_variable_suffix"),
    "mutation_variable_suffix": ("GenerateNameConfig", "mutation_variable_suffix"),
    "subscription_variable_suffix": ("GenerateNameConfig", "subscription_variable_suffix"),
    "fragment_variable_suffix": ("GenerateNameConfig", "fragment_variable_suffix"),
}

def visitors(P):
    """{method name: function} for the two implementors of the visitor trait; a method an implementor does not override is the
    trait's default body (shared by both sides)"""
    impls = P.trait_impls(VIS)
    js = {f.name: f for f in impls if "operation_js_printer" in f.path}
    ts = {f.name: f for f in impls if "operation_type_printer" in f.path}
    for f in P.fns.values():
        if f.path.startswith(VIS + "::") and f.kind == "AssocFn" and not f.impl_trait and "::{closure" not in f.path:
            js.setdefault(f.name, f)
            ts.setdefault(f.name, f)
    return js, ts


def wiring_of(P, fn, opt_adt, pred=None):
    """{option field: set of (config adt, field)} from a from_config function: struct literal fields and
    clone_into(&config.., &mut result.field) calls and assignments `result.f = ..` — seen with same-crate helpers inlined and
    with the return summaries of workspace callees (a positive "derives from" requirement), so that a helper that fetches a
    sub-config or fills part of the options does not hide the dependency"""
    from templates import inlined
    _P[0] = P
    fn = inlined(P, fn, pred=pred) if pred else inlined(P, fn)
    pv = Prov(fn)
    out = {}
    for i, (n, _par) in enumerate(fn.nodes()):
        if n.get("k") == "Struct" and "rest" not in n and norm(n.get("adt")) == opt_adt:
            for f in n["fields"]:
                out.setdefault(f["name"], set()).update(_cfg_fields(pv.deep_atoms(f["e"])))
        elif n.get("k") == "Call" and (call_name(n) or "").endswith("clone_into") and len(n["args"]) == 2:
            dst = n["args"][1]
            while dst.get("k") in ("AddrOf", "Unary"):
                dst = dst["e"]
            if dst.get("k") == "Field" and norm(dst.get("adt")) == opt_adt:
                out.setdefault(dst["field"], set()).update(_cfg_fields(pv.deep_atoms(n["args"][0])))
        elif n.get("k") == "Assign" and n["l"].get("k") == "Field" and norm(n["l"].get("adt")) == opt_adt:
            # include the conditions guarding the assignment
            out.setdefault(n["l"]["field"], set()).update(_cfg_fields(pv.deep_atoms(n["r"])))
            out[n["l"]["field"]].add(("<assigned>", "<assigned>"))
            for c in enclosing_contexts(fn, i):
                if c[0] in ("if-then", "if-else"):
                    out[n["l"]["field"]].update(_cfg_fields(pv.deep_atoms(c[1]["cond"])))
        elif n.get("k") == "MethodCall" and n["recv"].get("k") == "Field" and norm(n["recv"].get("adt")) == opt_adt \
                and n["method"] in ("extend", "insert", "push", "clone_from"):
            out.setdefault(n["recv"]["field"], set()).update(_cfg_fields(pv.deep_atoms(n["args"])))
    return out


_P = [None]
_PREDS = []


def sections(R, rule, *parts):
    """run the independent parts of a rule; an anchor that cannot be resolved leaves only that part UNDECIDED"""
    from facts import AnchorMissing
    for name, fn in parts:
        try:
            fn()
        except AnchorMissing as e:
            R.undecided(rule, "anchor:" + name, "kind=anchor-missing: %s (this part of the rule cannot be evaluated on this shape of the code)" % e)


def require_fields(P, *pairs):
    """the (ADT, field) names a rule refers to are anchors: if one no longer exists (renamed field, restructured type) the rule
    cannot be evaluated -> AnchorMissing (UNDECIDED), never a verdict about code that merely spells the field differently"""
    from facts import AnchorMissing
    for adt, field in pairs:
        a = P.adt(adt)
        names = set(a.fields()) if a.kind == "Struct" else {f["name"] for v in a.variants for f in v["fields"]}
        if field not in names:
            raise AnchorMissing("field `%s` of `%s` not found" % (field, adt))


def stable_pred(fn):
    """templates.inlined caches by id(pred): keep every predicate alive so that an id is never reused by another predicate"""
    _PREDS.append(fn)
    return fn


def _cfg_fields(atoms):
    """config leaf fields among atoms (fields whose own type is another config struct are path steps, not leaves)"""
    out = set()
    for a in atoms:
        if a[0] == "field" and a[1].startswith(CFG):
            adt = _P[0].adts.get(a[1])
            ty = adt.field_types().get(a[2], "") if adt and adt.kind == "Struct" else ""
            if ty.startswith(CFG) and not ty.startswith(CFG + "GenerateMode"):
                continue
            out.add((a[1].split("::")[-1], a[2]))
    return out


CONFIG_T = "nitrogql_config_file::config::Config"


def cfg_ctors(P, adt):
    """the constructors of an options struct by role: functions from `&Config` to the struct, whether an inherent `from_config`,
    a `From<&Config>` impl or a thin wrapper around either"""
    return [f for f in P.fns.values() if _usable(f) and [peel_ty(t).strip().split("<")[0] for t in f.sig_inputs] == [CONFIG_T]
            and _adt_of_type(P, f.sig_output) == adt]


def builds_from_config(P, pv, e, adt):
    """does expression `e` contain a call that turns the config into `adt` — one of its constructors, or a `From`/`Into` conversion
    whose result type is `adt` — applied to (something derived from) a `&Config` parameter"""
    ctors = {f.path for f in cfg_ctors(P, adt)}
    cfg_params = {name for lid, name in pv.params.items()}
    for n in subnodes(e):
        if n.get("k") not in ("Call", "MethodCall") or _adt_of_type(P, n.get("t")) != adt:
            continue
        c = call_name(n) or ""
        conv = norm(n.get("callee") or "") in ("core::convert::Into::into", "core::convert::From::from")
        if c in ctors or conv:
            args = ([n["recv"]] if n.get("k") == "MethodCall" else []) + n["args"]
            if any(_adt_of_type(P, a.get("t")) == CONFIG_T and any(x[0] == "param" and x[1] in cfg_params for x in pv.atoms(a)) for a in args):
                return True
    return False


def r14a(P, R):
    from templates import inlined
    _P[0] = P
    JS_ENTRY = PR + "operation_js_printer::print_js_for_operation_document"

    def shared_driver():
        ts_entry = P.fn(PR + "operation_type_printer::print_types_for_operation_document")
        js_entry = P.fn(JS_ENTRY)
        driver = P.fn(PR + "operation_base_printer::OperationPrinter::print_document")
        for e in (ts_entry, js_entry):
            R.check("R14-a", "driver:" + e.name, driver.path in P.reachable([e]), "runs the shared OperationPrinter::print_document",
                    "%s does not run the shared traversal OperationPrinter::print_document" % e.path, loc=e.loc())

    def side_option_adts():
        """the options struct of each printer: the first parameter type of its entry point"""
        out = []
        for entry in (PR + "operation_type_printer::print_types_for_operation_document", JS_ENTRY):
            e = P.fn(entry)
            a = _adt_of_type(P, e.sig_inputs[0]) if e.sig_inputs else None
            if a is None:
                from facts import AnchorMissing
                raise AnchorMissing("options parameter of %s" % entry)
            out.append(a)
        return out

    def base_options():
        base_ctors = {f.path for f in cfg_ctors(P, BASEOPT)}
        if not base_ctors:
            from facts import AnchorMissing
            raise AnchorMissing("a constructor of OperationBasePrinterOptions from &Config")
        not_base = stable_pred(lambda g: g.path not in base_ctors and not (g.impl_trait or "").endswith("default::Default"))
        for adt in side_option_adts():
            ctors = cfg_ctors(P, adt)
            if not ctors:
                R.undecided("R14-a", "base-options:" + adt.split("::")[-1], "no function from &Config to `%s` was found" % adt)
                continue
            for f0 in ctors:
                f = inlined(P, f0, pred=not_base)
                pv = Prov(f)
                lits = [n for n in f.walk() if n.get("k") == "Struct" and "rest" not in n and norm(n.get("adt")) == adt]
                ok = any(_adt_of_type(P, P.adts[adt].field_types().get(fld["name"])) == BASEOPT and builds_from_config(P, pv, fld["e"], BASEOPT)
                         for l in lits for fld in l["fields"])
                if not lits:
                    R.undecided("R14-a", "base-options:" + short(f0.path), "%s builds its result without a struct literal; where the base options come "
                                "from is not decided on this shape" % f0.path, loc=f0.loc())
                else:
                    R.check("R14-a", "base-options:" + short(f0.path), ok, "base options come from the shared constructor of OperationBasePrinterOptions applied to the config",
                            "%s does not take its base options from OperationBasePrinterOptions::from_config(config) (or the equivalent From<&Config>)" % f0.path, loc=f0.loc())
                # the shared options are decided by the shared constructor alone: a side that writes one of them itself derives it from
                # other config leaves than the other side does
                own = wiring_of(P, f0, BASEOPT, pred=not_base)
                for fld, leaves in sorted(own.items()):
                    R.violated("R14-a", "base-options-override:%s@%s" % (fld, short(f0.path)),
                               "%s writes the shared base option `%s` itself, on top of OperationBasePrinterOptions::from_config: on this side the option no "
                               "longer derives from the same config keys as on the other printer's side (which takes it from the shared from_config "
                               "alone), so the declaration file and the JS module name/export differently for some configurations" % (f0.path, fld), loc=f0.loc())
                if not own:
                    R.holds("R14-a", "base-options-override:" + short(f0.path), "no shared base option is written outside OperationBasePrinterOptions::from_config", loc=f0.loc())

    # both front ends derive their options from the config they were given
    def loader():
        js_entry = P.fn(JS_ENTRY)
        js_adt = _adt_of_type(P, js_entry.sig_inputs[0]) if js_entry.sig_inputs else None
        lp0 = P.fn("graphql_loader::js_printer::print_js")
        lp = inlined(P, lp0)
        pv = Prov(lp)
        calls = [c for c in lp.walk() if c.get("k") == "Call" and call_name(c) == js_entry.path and c["args"]]
        if not calls or js_adt is None:
            R.undecided("R14-a", "loader-options", "%s does not call %s directly or through a same-crate helper" % (lp0.path, js_entry.path), loc=lp0.loc())
        else:
            # the options argument, wherever it was computed in print_js
            srcs = [calls[0]["args"][0]]
            arg = calls[0]["args"][0]
            if arg.get("k") == "Path" and "local" in arg:
                srcs += [src for src, _ in pv.src.get(arg["local"], []) if src is not None]
            ok = any(builds_from_config(P, pv, e, js_adt) for e in srcs)
            R.check("R14-a", "loader-options", ok, "the loader prints with the JS printer options built from the config it was given",
                    "graphql-loader does not derive its printer options from the config", loc=lp0.loc())

    def cli():
        ts_entry = P.fn(PR + "operation_type_printer::print_types_for_operation_document")
        ts_adt = _adt_of_type(P, ts_entry.sig_inputs[0]) if ts_entry.sig_inputs else None
        go0 = P.fn("nitrogql_cli::generate::generate_operation_type_printer_options")
        go = inlined(P, go0)
        pv = Prov(go)
        if ts_adt is None:
            R.undecided("R14-a", "cli-options", "the options type of the declaration printer was not located", loc=go0.loc())
        elif builds_from_config(P, pv, go.body, ts_adt):
            R.holds("R14-a", "cli-options", "the CLI prints with the declaration printer options built from the config it was given", loc=go0.loc())
        elif any(c.get("k") in ("Call", "MethodCall") and _adt_of_type(P, c.get("t")) == ts_adt and
                 ((call_name(c) or "") in {f.path for f in cfg_ctors(P, ts_adt)} or norm(c.get("callee") or "") in ("core::convert::Into::into", "core::convert::From::from"))
                 for c in go.walk()):
            R.violated("R14-a", "cli-options", "the CLI builds its operation printer options from a config other than the one it was given", loc=go0.loc())
        else:
            R.violated("R14-a", "cli-options", "%s never builds the operation printer options from the config (no constructor from &Config is called): "
                       "the CLI does not derive its operation printer options from the config" % go0.path, loc=go0.loc())

    # T10 wiring of the shared options
    def wiring():
        base_fc = P.fn(BASEOPT + "::from_config", required=False)
        if base_fc is None:
            cs = cfg_ctors(P, BASEOPT)
            if len(cs) != 1:
                from facts import AnchorMissing
                raise AnchorMissing("the constructor of OperationBasePrinterOptions from &Config (%s)" % [c.path for c in cs])
            base_fc = cs[0]
        w = wiring_of(P, base_fc, BASEOPT)
        adt = P.adt(BASEOPT)
        for fld in adt.fields():
            exp = BASE_WIRING.get(fld)
            if exp is None:
                # a new option (feature addition) is correct when it is wired to a config key of its own
                got = {g for g in w.get(fld, set()) if g[0] != "<assigned>"}
                if got and not (got & set(BASE_WIRING.values())):
                    R.holds("R14-a", "wiring:" + fld, "new option `%s` <- new config key(s) %s" % (fld, sorted(got)), loc=base_fc.loc())
                else:
                    R.undecided("R14-a", "wiring:" + fld, "new option field `%s` has no entry in the wiring table and is wired to %s"
                                % (fld, sorted(got) or "no config key"), loc=base_fc.loc())
                continue
            require_fields(P, (CFG + exp[0], exp[1]))
            got = {g for g in w.get(fld, set()) if g[0] != "<assigned>"}
            # a further config leaf feeding the same option is a new key (feature addition) unless it is the key of another option
            foreign = sorted(g for g in got - {exp} if g in set(BASE_WIRING.values()))
            R.check("R14-a", "wiring:" + fld, exp in got and not foreign,
                    "`%s` <- config.%s.%s%s" % (fld, exp[0], exp[1], (" (and the additional key(s) %s)" % sorted(got - {exp})) if got - {exp} else ""),
                    "option `%s` is wired to %s, expected config %s.%s%s: the declaration printer and the loader would still agree with each "
                    "other but not with the configured naming/export option" % (fld, sorted(got), exp[0], exp[1],
                                                                                (" and not the key(s) of other options %s" % foreign) if foreign else ""), loc=base_fc.loc())
        # named export is the negation of default export
        fci = inlined(P, base_fc)
        negs = [n for n in fci.walk() if n.get("k") == "Unary" and n.get("op") == "Not"]
        other = [n for n in fci.walk() if (n.get("k") == "Binary" and n.get("op") in ("==", "!=", "^")) or n.get("k") == "If"
                 or (n.get("k") == "Match" and n.get("src") == "Normal")]
        if len(negs) == 1:
            R.holds("R14-a", "wiring:named-is-negation", "named export = !default export", loc=base_fc.loc())
        elif not negs and not other:
            R.violated("R14-a", "wiring:named-is-negation", "%s contains no negation, comparison or branch: `named_export_for_operation` and "
                       "`default_export_for_operation` are wired to the same config key with the same polarity, so both or neither export is "
                       "emitted" % base_fc.path, loc=base_fc.loc())
        else:
            R.undecided("R14-a", "wiring:named-is-negation", "how %s derives the polarity of named vs default export is not a single `!` "
                        "(%d negations, %d comparisons/branches); not decided on this shape" % (base_fc.path, len(negs), len(other)), loc=base_fc.loc())

    # The shared traversal and a visitor each hold a copy of the base options (the visitor inside its own options struct).  A visitor
    # that reads a naming option from its copy (R14-c lists who does) agrees with the traversal only if the copy still holds the
    # configured value when the visitor is built: the entry point must not move the value out of, or overwrite, that field.
    def same_copy():
        js, ts = visitors(P)
        for side, entry_path, vis in (("ts", PR + "operation_type_printer::print_types_for_operation_document", ts), ("js", JS_ENTRY, js)):
            e0 = P.fn(entry_path)
            readers = [p for p in P.reachable(list(vis.values())) if p in P.fns and not P.fns[p].derived
                       and any(a == BASEOPT for a, _f in field_reads(P.fns[p]))]
            key = "base-options-copy:" + side
            if not readers:
                R.holds("R14-a", key, "this side's visitor reads no base option from a copy of its own", loc=e0.loc())
                continue
            e = inlined(P, e0)

            def holder(x):
                """(adt, field) when x is a projection `<options>.<field of type OperationBasePrinterOptions>`"""
                while x.get("k") in ("AddrOf", "DropTemps", "Use") and "e" in x:
                    x = x["e"]
                if x.get("k") == "Field" and x.get("adt"):
                    a = P.adts.get(norm(x["adt"]))
                    if a is not None and a.kind == "Struct" and _adt_of_type(P, a.field_types().get(x["field"])) == BASEOPT:
                        return (norm(x["adt"]), x["field"])
                return None
            moved, assigned, borrowed = [], [], []
            in_mem = set()
            for n in e.walk():
                if n.get("k") == "Call" and (call_name(n) or "") in ("core::mem::take", "core::mem::replace", "core::mem::swap"):
                    for a in n["args"]:
                        if a.get("k") == "AddrOf" and a.get("mut") and holder(a):
                            moved.append((call_name(n).split("::")[-1], holder(a)))
                            in_mem.add(id(a))
            for n in e.walk():
                if n.get("k") == "Assign" and holder(n["l"]):
                    assigned.append(holder(n["l"]))
                elif n.get("k") == "AddrOf" and n.get("mut") and id(n) not in in_mem and holder(n):
                    borrowed.append(holder(n))
            if moved and not assigned:
                R.violated("R14-a", key, "%s takes the base options out of `%s.%s` with mem::%s before the visitor is built from those options: the "
                           "shared traversal names the exports from the configured base options, while the visitor's own copy is left at another "
                           "value (Default for `take`) and %s read(s) naming options from that copy — the two sides name an export differently "
                           "whenever the option is not at its default" % (e0.path, moved[0][1][0].split("::")[-1], moved[0][1][1], moved[0][0],
                                                                          [short(r) for r in readers[:2]]), loc=e0.loc())
            elif moved or assigned or borrowed:
                R.undecided("R14-a", key, "%s writes to the visitor's copy of the base options (%s); whether it still equals what the shared traversal "
                            "gets is not decided" % (e0.path, sorted(set(moved and [m[1] for m in moved] or []) | set(assigned) | set(borrowed))), loc=e0.loc())
            else:
                R.holds("R14-a", key, "the visitor's copy of the base options is the configured value (never written in the entry point)", loc=e0.loc())

    sections(R, "R14-a", ("shared-driver", shared_driver), ("base-options", base_options), ("same-copy", same_copy), ("loader", loader), ("cli", cli),
             ("wiring", wiring))


def _lit_alternatives(e):
    """(condition, [literal per branch]) when `e` is `if c { "lit" } else { "lit" }` (references/temporaries peeled), else None"""
    while e.get("k") in ("AddrOf", "DropTemps", "Use") and "e" in e:
        e = e["e"]
    if e.get("k") != "If" or "else" not in e:
        return None
    vals = [lit_value(e["then"]), lit_value(e["else"])]
    return (e["cond"], vals) if all(isinstance(v, str) for v in vals) else None


def const_site(em):
    """the identifier written right after the literal `const ` -> (entry of the identifier write, the `export ` decision before
    it).  The decision is the emission entry of a separate `export ` write (its enclosing conditions decide), ("cond", index,
    condition) when one write chooses between the literals `export const ` and `const `, or ("value", index, expression) when
    a computed modifier is written right before `const ` (what it was chosen by is found by tracing the expression)."""
    for pos, (i, kind, lit, n) in enumerate(em):
        if kind == "write" and lit is None and n["args"]:
            alt = _lit_alternatives(n["args"][0])
            if alt and all(v.endswith("const ") for v in alt[1]) and any(v.startswith("export ") for v in alt[1]) \
                    and not all(v.startswith("export ") for v in alt[1]):
                return (em[pos + 1] if pos + 1 < len(em) else None), ("cond", i, alt[0])
        if kind == "write" and lit == "const ":
            ident = em[pos + 1] if pos + 1 < len(em) else None
            exp = None
            for j in range(pos - 1, -1, -1):
                if em[j][1] == "write" and em[j][2] == "export ":
                    exp = em[j]
                    break
                if j == pos - 1 and em[j][1] == "write" and em[j][2] is None and em[j][3]["args"]:
                    exp = ("value", em[j][0], em[j][3]["args"][0])   # a computed modifier (`export ` / `declare ` / ``) chosen elsewhere
                    break
                if em[j][1] in ("write", "write_for") and em[j][2] not in ("declare ", None):
                    break
            return ident, exp
    return None, None


def _adt_of_type(P, t):
    """workspace ADT named by a type string (references, lifetimes and generic arguments peeled), or None"""
    t = norm(t or "").strip()
    while t.startswith("&"):
        t = t[1:].strip()
        if t.startswith("mut "):
            t = t[4:].strip()
    t = t.split("<")[0].strip()
    return t if t in P.adts else None


def _usable(f):
    return not f.derived and "::tests" not in f.path and f.kind in ("Fn", "AssocFn")


class Carriers:
    """The data types through which the shared driver hands values to the visitors: the context parameter types of the visitor
    methods, the same-crate structs their fields refer to and — discovered from the constructor sites — any intermediate struct or
    enum variant of the crate that the driver's side builds first and takes apart later (a plan, a tuple turned struct).  The
    *expansion* of a carrier field is what every constructor site of the struct/variant (in the constructing function and, with
    same-crate helpers inlined, in the shared driver) puts there.  Names of the carriers, of their fields and of the functions that
    fill them play no role.  Carrier keys are ADT paths for structs and variant paths for enum variants with named fields."""

    def __init__(self, P, roots, drivers=(), extra=()):
        from templates import inlined
        self.P = P
        self.adts = set()
        todo = [a for a in roots if a]
        while todo:
            a = todo.pop()
            if a in self.adts or a not in P.adts or P.adts[a].kind != "Struct":
                continue
            self.adts.add(a)
            for ty in P.adts[a].field_types().values():
                b = _adt_of_type(P, ty)
                if b and b.startswith(PR):
                    todo.append(b)
        # further carriers given by the caller (the visitor structs themselves: a visitor may keep in a field of its own what it
        # computed from its options when it was built); their field types are not followed — option structs stay leaves
        self.extra = {a for a in extra if a in P.adts and P.adts[a].kind == "Struct"}
        self.adts |= self.extra
        # where the driver's side constructs things: functions reachable from the shared driver without entering a visitor
        vis = {f.path for f in P.trait_impls(VIS)}
        shared = P.reachable(list(drivers), stop=vis) if drivers else set()
        built_in_shared = set()
        for p in shared:
            f = P.fns.get(p)
            if f is not None and _usable(f) and p.startswith((PR, "<" + PR)):
                for n in f.walk():
                    if n.get("k") == "Struct" and "rest" not in n:
                        built_in_shared.add(norm(n.get("variant") or n.get("adt")))
        self.unresolved = set()
        for _round in range(4):
            self._collect_sites(drivers, inlined)
            # intermediate carriers: a printer-crate struct/variant built on the driver's side whose field feeds a carrier field
            new = set()
            for atoms in self.sites.values():
                for a in atoms:
                    if a[0] == "field" and a[1] and a[1].startswith(PR) and a[1] not in self.adts and a[1] in built_in_shared:
                        new.add(a[1])
            if not new:
                break
            self.adts |= new

    def _lit_key(self, n):
        return norm(n.get("variant") or n.get("adt"))

    def _collect_sites(self, drivers, inlined):
        P = self.P
        direct = [f for f in P.fns.values() if f.path.startswith((PR, "<" + PR)) and _usable(f)
                  and any(n.get("k") == "Struct" and "rest" not in n and self._lit_key(n) in self.adts for n in f.walk())]
        roots_fn = {f.path: f for f in direct}
        for d in drivers:
            # a constructor inside a helper of the shared driver sees its parameters through the driver (virtual inlining)
            roots_fn.setdefault(d.path, d)
        self.sites = {}   # (carrier, field) -> set of atoms
        self.site_exprs = {}   # (carrier, field) -> [(Prov, expression)]
        for f in roots_fn.values():
            fi = inlined(P, f)
            pv = None
            for n in fi.walk():
                if n.get("k") == "Struct" and "rest" not in n and self._lit_key(n) in self.adts:
                    pv = pv or Prov(fi)
                    for fld in n["fields"]:
                        self.sites.setdefault((self._lit_key(n), fld["name"]), set()).update(self.trace(pv, fld["e"]))
                        self.site_exprs.setdefault((self._lit_key(n), fld["name"]), []).append((pv, fld["e"]))

    def trace(self, pv, e, _frame=None):
        """Field-sensitive provenance of an expression, as atoms (("field", adt, f) | ("call", path) | ("def", path) | ("param", name)):
        like Prov.atoms, but (1) a projection of a carrier field, or a local bound by destructuring a carrier, contributes that field
        only — not everything the carrier value was built from (its constructor sites tell the rest); (2) a virtually inlined callee
        contributes what its *returned* expressions derive from, with its parameters bound to the arguments of *this* call (a helper
        shared by two call sites does not mix them), not its whole body."""
        out, seen, st = set(), set(), [e]
        while st:
            n = st.pop()
            if isinstance(n, list):
                st.extend(n)
                continue
            if not isinstance(n, dict):
                continue
            k = n.get("k")
            if k == "Path":
                if "local" in n:
                    lid = n["local"]
                    if lid in seen:
                        continue
                    seen.add(lid)
                    fr = _frame
                    while fr is not None and lid not in fr[0]:
                        fr = fr[1]
                    if fr is not None:
                        out |= self.trace(pv, fr[0][lid], fr[1])   # parameter of an inlined callee: the argument of this call
                        continue
                    if lid in pv.params:
                        out.add(("param", pv.params[lid]))
                    for src, extra in pv.src.get(lid, []):
                        out |= set(extra)
                        if any(a[0] == "field" and a[1] in self.adts for a in extra):
                            continue   # destructured from a carrier
                        if src is not None:
                            st.append(src)
                elif "def" in n:
                    out.add(("def", norm(n["def"])))
                continue
            if k == "Lit":
                if n.get("lk") == "str":
                    out.add(("lit", n.get("v")))
                continue
            if k == "Field" and n.get("adt"):
                out.add(("field", norm(n["adt"]), n["field"]))
                if norm(n["adt"]) not in self.adts:
                    st.append(n.get("e"))
                continue
            if k in ("Call", "MethodCall"):
                c = call_name(n)
                if c:
                    out.add(("call", c))
                args = ([n["recv"]] if k == "MethodCall" else []) + n["args"]
                if "inl" in n:
                    body, params = n["inl"]["body"], n["inl"]["params"]
                    simple = len(params) == len(args) and all(p.get("k") == "Binding" and "sub" not in p for p in params)
                    rets = [x["e"] for x in subnodes(body) if x.get("k") == "InlRet" and "e" in x]
                    if body.get("k") == "BlockExpr":
                        if "tail" in body["b"]:
                            rets.append(body["b"]["tail"])
                    else:
                        rets.append(body)
                    if simple:
                        frame = ({p["local"]: a for p, a in zip(params, args)}, _frame)
                        for r in rets:
                            out |= self.trace(pv, r, frame)
                    else:
                        st.extend(rets)   # destructuring parameters: Prov's (call-site-insensitive) bindings
                    continue
                st.extend(args)
                if k == "Call" and isinstance(n.get("f"), dict) and n["f"].get("k") != "Path":
                    st.append(n["f"])
                continue
            if k in ("Binding", "Wild", "TupleStruct", "PatExpr", "Or", "Ref", "Range", "Slice") or (k == "Struct" and "rest" in n):
                continue   # patterns carry no value
            st.extend(v for kk, v in n.items() if kk != "inl" and isinstance(v, (dict, list)))
        return out

    def deciding(self, pv, e, text):
        """(atoms of the conditions that decide whether the value of `e` is the string literal `text`, found?) — `e` is followed
        through local bindings and through carrier fields to the expressions their constructors put there; only the `if`/`match`
        whose branches differ in containing the literal count (a later choice between other texts does not)."""
        def has(x):
            return any(y.get("k") == "Lit" and y.get("lk") == "str" and y.get("v") == text for y in subnodes(x))
        out, found, seen = set(), False, set()
        st = [(pv, e)]
        while st:
            pvx, n = st.pop()
            if isinstance(n, list):
                st.extend((pvx, y) for y in n)
                continue
            if not isinstance(n, dict):
                continue
            k = n.get("k")
            if k == "Lit":
                found = found or (n.get("lk") == "str" and n.get("v") == text)
                continue
            if k == "Path" and "local" in n:
                if (id(pvx), n["local"]) not in seen:
                    seen.add((id(pvx), n["local"]))
                    st.extend((pvx, src) for src, _ in pvx.src.get(n["local"], []) if src is not None)
                continue
            if k == "Field" and n.get("adt") and norm(n["adt"]) in self.adts:
                key = (norm(n["adt"]), n["field"])
                if key not in seen:
                    seen.add(key)
                    st.extend(self.site_exprs.get(key, []))
                continue
            if k == "If":
                branches = [b for b in (n.get("then"), n.get("else")) if b is not None]
                if any(has(b) for b in branches) and not all(has(b) for b in branches):
                    out |= self.trace(pvx, n["cond"])
                st.extend((pvx, b) for b in branches if has(b))
                continue
            if k == "Match" and n.get("src") == "Normal":
                arms = [a["body"] for a in n["arms"]]
                if any(has(a) for a in arms) and not all(has(a) for a in arms):
                    out |= self.trace(pvx, n["scrut"])
                st.extend((pvx, a) for a in arms if has(a))
                continue
            st.extend((pvx, v) for kk, v in n.items() if kk != "inl" and isinstance(v, (dict, list)))
        return out, found

    def field_adt(self, adt, field):
        """the workspace ADT the field's type names (struct fields and named fields of enum variants)"""
        a = self.P.adts.get(adt)
        if a is not None and a.kind == "Struct":
            return _adt_of_type(self.P, a.field_types().get(field))
        if a is None and "::" in adt:
            parent, vname = adt.rsplit("::", 1)
            e = self.P.adts.get(parent)
            if e is not None:
                for v in e.variants:
                    if v["name"] == vname:
                        for f in v["fields"]:
                            if f["name"] == field:
                                return _adt_of_type(self.P, f["ty"])
        return None

    def expand(self, atoms, _seen=frozenset()):
        """leaf signature of a set of atoms: carrier fields replaced by what their constructors put there; fields that only step
        into another struct of the printer crate (`self.options`, `options.base_options`, `context.names`) dropped; calls of printer
        functions dropped (an inlined helper is traced through its returned expressions) -> {(adt, field)} | {("call", fn)}"""
        sig = set()
        for a in atoms:
            if a[0] == "field" and a[1]:
                adt, fld = a[1], a[2]
                inner = self.field_adt(adt, fld)
                if adt in self.adts:
                    if inner in self.adts or (adt, fld) in _seen:
                        continue
                    src = self.sites.get((adt, fld))
                    if src is None:
                        self.unresolved.add((adt, fld))
                        continue
                    sig |= self.expand(src, _seen | {(adt, fld)})
                elif adt.startswith(PR) and inner and inner.startswith(PR):
                    continue
                else:
                    sig.add((adt, fld))
            elif a[0] in ("call", "def") and a[1] in self.P.fns:
                if a[1].startswith((PR, "<")) or a[1].endswith("::name_pos"):
                    continue   # printer helpers (traced through their returns when inlined); trait impls (Display..)
                sig.add(("call", a[1]))
            elif a[0] == "lit":
                sig.add(("lit", a[1]))
        return sig

    def raw_fields(self, atoms):
        """carrier fields (not mere path steps) among atoms"""
        return {(a[1], a[2]) for a in atoms if a[0] == "field" and a[1] in self.adts and a[1] not in self.extra
                and self.field_adt(a[1], a[2]) not in self.adts}


AST_NAME_ADTS = ("nitrogql_ast::operation::FragmentDefinition", "nitrogql_ast::operation::OperationDefinition", "nitrogql_ast::base::Ident")


def naming(sig):
    """the part of a signature that decides a *name*: option fields (any struct of the printer crate), the definition's own
    fields, and functions applied; fields that merely locate the definition in the document are left out"""
    return {s for s in sig if s[0] == "call" or (s[0] != "lit" and (s[0].startswith(PR) or s[0] in AST_NAME_ADTS))}


def _show(sig):
    return sorted("%s()" % short(s[1]) if s[0] == "call" else "%s.%s" % (s[0].split("::")[-1], s[1]) for s in sig)


def guard_atoms(fn, idx, pv, C):
    """atoms of the conditions under which nodes()[idx] runs (then-branches and else-branches alike; an else-branch is
    conditional on the same expression) + whether any enclosing condition exists"""
    out, n = set(), 0
    for c in enclosing_contexts(fn, idx):
        if c[0] in ("if-then", "if-else"):
            n += 1
            out |= C.trace(pv, c[1]["cond"])
        elif c[0] == "arm" and c[1] is not None and c[1].get("src") == "Normal":
            n += 1
            out |= C.trace(pv, c[1]["scrut"])
    return out, n


SUFFIXES = ("query_variable_suffix", "mutation_variable_suffix", "subscription_variable_suffix")


def r14b(P, R):
    from templates import inlined
    require_fields(P, *[(BASEOPT, f) for f in SUFFIXES + ("fragment_variable_suffix", "capitalize_operation_names", "named_export_for_operation",
                                                              "default_export_for_operation")])
    require_fields(P, ("nitrogql_ast::operation::OperationDefinition", "name"), ("nitrogql_ast::operation::FragmentDefinition", "name"))
    js, ts = visitors(P)
    R.floor("R14-b", "visitor methods (js)", len(js), 5)
    R.floor("R14-b", "visitor methods (ts)", len(ts), 5)
    methods = ("print_operation_definition", "print_fragment_definition", "print_default_exported_operation_definition")
    if any(m not in v for v in (js, ts) for m in methods):
        R.undecided("R14-b", "visitors", "the two implementors of OperationPrinterVisitor (declaration printer / JS printer) with the three "
                    "export-emitting methods were not located")
        return
    ctx = {m: _adt_of_type(P, js[m].sig_inputs[1]) if len(js[m].sig_inputs) >= 2 else None for m in methods}
    for m in methods:
        tsctx = _adt_of_type(P, ts[m].sig_inputs[1]) if len(ts[m].sig_inputs) >= 2 else None
        if ctx[m] is None or tsctx != ctx[m]:
            R.undecided("R14-b", "visitors", "the context parameter of OperationPrinterVisitor::%s is not a struct of the workspace" % m)
            return
    driver0 = P.fn(PR + "operation_base_printer::OperationPrinter::print_document", required=False)
    C = Carriers(P, set(ctx.values()), [driver0] if driver0 else [], extra={v[m].self_adt for v in (js, ts) for m in methods if v[m].impl_trait and v[m].self_adt})
    opt = lambda f: (BASEOPT, f)

    def site(side, m):
        """(inlined fn, Prov, emission) of one visitor method"""
        f = inlined(P, (js if side == "js" else ts)[m])
        return f, Prov(f), emission(f)

    def export_guard(side, what, f, pv, exp, want_opts, ctx_adt):
        """`export ` is written under a flag of the context whose value the shared driver decides from exactly `want_opts`"""
        key = "%s-export:%s" % (what, side)
        if exp is None:
            R.undecided("R14-b", key, "%s: no separate `export ` write precedes the %s constant; the export condition is not decided on "
                        "this shape" % (f.path, what), loc=f.loc())
            return None
        if exp[0] == "cond":
            ga, n = guard_atoms(f, exp[1], pv, C)
            ga, n = ga | C.trace(pv, exp[2]), n + 1
        elif exp[0] == "value":
            ga, n = guard_atoms(f, exp[1], pv, C)
            va, found = C.deciding(pv, exp[2], "export ")
            if not found:
                R.undecided("R14-b", key, "%s writes a computed text before the %s constant that was not traced to the literal `export `; the "
                            "export condition is not decided on this shape" % (f.path, what), loc=f.loc())
                return None
            ga, n = ga | va, n + 1
        else:
            ga, n = guard_atoms(f, exp[0], pv, C)
        raw = C.raw_fields(ga)
        sig = naming(C.expand(ga))
        opts = {s for s in sig if s[0] != "call" and s[0].startswith(PR)}
        if n == 0:
            R.violated("R14-b", key, "%s writes `export ` before the %s constant unconditionally; the shared driver's export decision "
                       "(context flag) is ignored" % (f.path, what), loc=f.loc())
        elif not raw and not opts:
            R.undecided("R14-b", key, "%s: the condition of the `export ` write was not traced to a context field" % f.path, loc=f.loc())
        else:
            # through the context flag, or from the same shared option directly: which options decide is what matters here; that the
            # two sides decide alike in every other respect is compared by op-export-agree / frag-export-agree
            R.check("R14-b", key, opts == want_opts,
                    "`export` of the %s constant is decided by what the shared driver decides it from" % what,
                    "%s exports the %s constant under a condition that depends on %s; the shared driver decides it from %s and the other "
                    "side follows the context flag" % (f.path, what, _show(sig) or "no context flag", _show(want_opts) or "the document only"), loc=f.loc())
        return raw, sig

    # ---- operation constant
    sigs, gsigs, flags = {}, {}, set()
    need_op = {opt(s) for s in SUFFIXES} | {("nitrogql_ast::operation::OperationDefinition", "name")}
    allowed_op = need_op | {opt("capitalize_operation_names")}
    for side in ("js", "ts"):
        f, pv, em = site(side, methods[0])
        ident, exp = const_site(em)
        if ident is None or not ident[3]["args"]:
            R.undecided("R14-b", "op-const:" + side, "%s: no `const ` write followed by an identifier write was found; the name of the "
                        "operation constant is not decided on this shape" % f.path, loc=f.loc())
            continue
        sig = naming(C.expand(C.trace(pv, ident[3]["args"][0])))
        sigs[side] = sig
        # a further *shared* base option feeding the shared naming function reaches both sides alike (op-const-agree compares them);
        # an option of one side's own options struct does not
        foreign = {s for s in sig if s[0] != "call" and s[0].startswith(PR) and s not in allowed_op and s[0] != BASEOPT}
        R.check("R14-b", "op-const-name:" + side, need_op <= sig and not foreign,
                "operation constant = (capitalised) operation name + per-kind variable suffix",
                "%s names the operation constant from %s: %s — the constant the other side declares/exports is named by operation name + "
                "query/mutation/subscription variable suffix" % (f.path, _show(sig), ("it lacks %s" % _show(need_op - sig)) if need_op - sig
                                                                  else ("it also depends on %s" % _show(foreign))), loc=f.loc())
        g = export_guard(side, "op", f, pv, exp, {opt("named_export_for_operation")}, ctx[methods[0]])
        if g:
            flags |= g[0]
            gsigs[side] = g[1]
    if len(sigs) == 2:
        R.check("R14-b", "op-const-agree", sigs["js"] == sigs["ts"], "both sides name the operation constant identically",
                "operation constant naming differs: js=%s ts=%s" % (_show(sigs["js"]), _show(sigs["ts"])))
    if len(gsigs) == 2:
        R.check("R14-b", "op-export-agree", gsigs["js"] == gsigs["ts"], "both sides export the operation constant under the same condition",
                "the operation constant is exported under different conditions: js=%s ts=%s — one side declares/exports a constant the other "
                "does not" % (_show(gsigs["js"]), _show(gsigs["ts"])))
    # ---- fragment constant
    fsigs, fg = {}, {}
    need_fr = {opt("fragment_variable_suffix"), ("nitrogql_ast::operation::FragmentDefinition", "name")}
    for side in ("js", "ts"):
        f, pv, em = site(side, methods[1])
        ident, exp = const_site(em)
        if ident is None or not ident[3]["args"]:
            R.undecided("R14-b", "frag-const:" + side, "%s: no `const ` write followed by an identifier write was found; the name of the "
                        "fragment constant is not decided on this shape" % f.path, loc=f.loc())
            continue
        sig = naming(C.expand(C.trace(pv, ident[3]["args"][0])))
        fsigs[side] = sig
        # what one side adds on its own: an option of that side's own options struct, another part of the fragment.  A transformation
        # or a further *shared* base option (e.g. a capitalisation switch) is a feature of the naming when both sides have it, which
        # frag-const-agree compares.
        extra = {s for s in sig if s[0] != "call" and s not in need_fr and s != ("nitrogql_ast::base::Ident", "name") and s[0] != BASEOPT}
        R.check("R14-b", "frag-const-name:" + side, need_fr <= sig and not extra, "fragment constant = fragment name + fragment_variable_suffix",
                "%s side names the fragment constant from %s (expected fragment name + fragment_variable_suffix, nothing of this side's own): %s"
                % (side, _show(sig), ("it lacks %s" % _show(need_fr - sig)) if need_fr - sig else ("it also depends on %s" % _show(extra))), loc=f.loc())
        g = export_guard(side, "frag", f, pv, exp, set(), ctx[methods[1]])
        if g:
            fg[side] = g[1]
    if len(fsigs) == 2:
        R.check("R14-b", "frag-const-agree", fsigs["js"] == fsigs["ts"], "both sides name the fragment constant identically",
                "fragment constant naming differs: js=%s ts=%s" % (_show(fsigs["js"]), _show(fsigs["ts"])))
    if len(fg) == 2:
        R.check("R14-b", "frag-export-agree", fg["js"] == fg["ts"], "both sides export the fragment constant under the same condition",
                "fragment export condition differs: js=%s ts=%s" % (_show(fg["js"]), _show(fg["ts"])))
    # ---- default export
    for side in ("js", "ts"):
        f, pv, em = site(side, methods[2])
        lits = [e[2] for e in em if e[2] is not None]
        names = [e for e in em if e[2] is None and e[3]["args"]]
        # the text around the name: literal writes, or the pieces of one formatted write (`export {{ {name} as default }}`)
        from facts import str_lits_in
        pieces = [l for l in lits if isinstance(l, str)] + [l for e in names for l in str_lits_in(e[3]["args"][0]) if isinstance(l, str)]
        ok_shape = any(l.lstrip().startswith("export {") for l in pieces[:1]) and any(l.startswith(" as default") for l in pieces) and len(names) == 1
        if ok_shape:
            R.holds("R14-b", "default-shape:" + side, "`export { <name> as default }`", loc=f.loc())
        elif not em:
            R.violated("R14-b", "default-shape:" + side, "%s emits nothing: the default export the shared driver asks for is missing on "
                       "this side" % f.path, loc=f.loc())
        else:
            R.undecided("R14-b", "default-shape:" + side, "%s: the emission %s is not the recognised `export { <name> as default }` sequence"
                        % (f.path, lits), loc=f.loc())
            continue
        sig = naming(C.expand(C.trace(pv, names[0][3]["args"][0])))
        same = side not in sigs or sig == sigs[side]
        R.check("R14-b", "default-name:" + side, need_op <= sig and same, "default export re-exports the operation constant",
                "%s default-exports a name computed from %s; the operation constant of the same file is named from %s%s"
                % (f.path, _show(sig), _show(sigs.get(side, need_op)), (" (lacks %s)" % _show(need_op - sig)) if need_op - sig else ""), loc=f.loc())
        cond = [c for e in em for c in enclosing_contexts(f, e[0]) if c[0] in ("if-then", "if-else")]
        R.check("R14-b", "default-unconditional:" + side, not cond, "the visitor emits the default export whenever the shared driver asks for it",
                "%s emits the default export conditionally; the shared driver already decides eligibility" % f.path, loc=f.loc())
    # ---- the shared driver decides: default export iff option && exactly one operation; exported iff named_export option
    # (the driver is whoever calls the visitor's default-export method: the anchored print_document, else any printer function)
    drivers = [driver0] if driver0 else [f for f in P.fns.values() if f.path.startswith(PR) and _usable(f)
                                         and any(c.get("k") == "MethodCall" and c["method"] == methods[2] for c in f.walk())]
    sites = 0
    for d in drivers:
        driver = inlined(P, d)
        pv = Prov(driver)
        for i, (c, _) in enumerate(driver.nodes()):
            if c.get("k") == "MethodCall" and c["method"] == methods[2]:
                sites += 1
                ga, n = guard_atoms(driver, i, pv, C)
                g = C.expand(ga)
                R.check("R14-b", "default-eligibility", opt("default_export_for_operation") in g,
                        "default export only with the option on (and a single operation)", "default export eligibility depends on %s" % _show(naming(g)), loc=driver.loc())
    R.floor("R14-b", "default export decision sites", sites, 1)
    if not flags:
        R.undecided("R14-b", "op-exported-source", "no context flag guarding the export of the operation constant was identified")
    for (adt, fld) in sorted(flags):
        g = C.expand({("field", adt, fld)})
        R.check("R14-b", "op-exported-source", opt("named_export_for_operation") in g,
                "the context's export flag <- options.named_export_for_operation", "the context's export flag `%s` derives from %s" % (fld, _show(naming(g))))
    for (adt, fld) in sorted(C.unresolved):
        R.undecided("R14-b", "carrier:%s.%s" % (adt.split("::")[-1], fld), "no constructor site of `%s` was found in the printer crate; what the "
                    "visitors read from `%s` is not decided" % (adt, fld))


def r14c(P, R):
    """name ownership: capitalisation and the variable-suffix options are applied in the shared base printer only"""
    from templates import inlined, scope_fns
    from facts import matches_on, arm_variants
    js, ts = visitors(P)
    driver = P.fn(PR + "operation_base_printer::OperationPrinter::print_document", required=False)
    vis_paths = {f.path for f in list(js.values()) + list(ts.values())}
    shared = P.reachable([driver], stop=vis_paths) if driver else set()
    reach = {"js": P.reachable(list(js.values())), "ts": P.reachable(list(ts.values()))}

    def owner(path):
        """'shared' | 'js' | 'ts' (reachable from that visitor only) | 'both' | None (on neither printer's path)"""
        home = path[1:path.index(" as ")] if path.startswith("<") and " as " in path else path   # an impl lives with its self type
        if path in shared or "operation_base_printer" in home:
            return "shared"
        sides = [s for s in ("js", "ts") if path in reach[s]]
        return "both" if len(sides) == 2 else (sides[0] if sides else None)

    cap_callers = [c for c in P.callers_of("nitrogql_utils::capitalize::capitalize") if "::tests" not in c]
    one_sided = [c for c in cap_callers if owner(c) in ("js", "ts")]
    if one_sided:
        R.violated("R14-c", "capitalize-owner", "capitalize is also called from %s, which only one of the two printers runs: that side can "
                   "capitalise a name the other does not" % one_sided)
    elif not any(owner(c) == "shared" for c in cap_callers):
        R.undecided("R14-c", "capitalize-owner", "no caller of capitalize on the shared path of the two printers (callers: %s)" % cap_callers)
    else:
        R.holds("R14-c", "capitalize-owner", "capitalize is applied only on the shared path (%s)" % [short(c) for c in cap_callers if owner(c) == "shared"])
    suffix_fields = ["query_variable_suffix", "mutation_variable_suffix", "subscription_variable_suffix", "fragment_variable_suffix", "capitalize_operation_names"]
    require_fields(P, *[(BASEOPT, f) for f in suffix_fields])
    # the visitors may recompute the fragment constant name from the same option (compared in R14-b)
    frag_scope = {g.path for v in (js, ts) if "print_fragment_definition" in v for g in scope_fns(P, v["print_fragment_definition"])}
    n = 0
    namers = []
    for f in P.fns.values():
        if f.derived or "::tests" in f.path or not f.path.startswith((PR, "<" + PR, "graphql_loader", "nitrogql_cli")) and PR not in f.path:
            continue
        reads = {fld for (adt, fld) in field_reads(f) if adt == BASEOPT and fld in suffix_fields}
        if set(SUFFIXES) <= reads:
            namers.append(f)
        for fld in sorted(reads):
            n += 1
            o = owner(f.path)
            key = "owner:%s@%s" % (fld, short(f.path))
            if o == "shared" or o is None:
                R.holds("R14-c", key, "read in the shared base printer" if o else "read outside both printers", loc=f.loc())
            elif fld == "fragment_variable_suffix" and f.path in frag_scope:
                R.holds("R14-c", key, "recomputes the fragment constant name (compared with the other side in R14-b)", loc=f.loc())
            elif o == "both":
                R.undecided("R14-c", key, "%s reads naming option `%s`; it is run by both printers but not from the shared driver" % (f.path, fld), loc=f.loc())
            else:
                R.violated("R14-c", key, "%s reads naming option `%s` and only the %s printer runs it: one side can name exports differently"
                           % (f.path, fld, "JS" if o == "js" else "declaration"), loc=f.loc())
    R.floor("R14-c", "reads of naming options", n, 6)
    # suffix table of the function that computes the operation's variable name (the one reading all three per-kind suffixes)
    exp = {"Query": "query_variable_suffix", "Mutation": "mutation_variable_suffix", "Subscription": "subscription_variable_suffix"}
    found = 0
    for ovn in namers:
        fi = inlined(P, ovn)
        pv = Prov(fi)
        for m in matches_on(fi, "OperationType"):
            found += 1
            for arm in m["arms"]:
                v, _ = arm_variants({"arms": [arm]})
                for vv in v:
                    got = {x[2] for x in pv.atoms(arm["body"]) if x[0] == "field" and x[1] == BASEOPT}
                    R.check("R14-c", "suffix:" + vv, got == {exp.get(vv)}, "%s -> %s" % (vv, exp.get(vv)), "%s operations get suffix %s" % (vv, sorted(got)), loc=ovn.loc())
    R.floor("R14-c", "operation-type suffix match", found, 1)


def r14d(P, R):
    """both printers are functions of (document, config) only: no state survives from one file / one config to the next"""
    from templates import global_state_holders, global_state_uses
    holders = global_state_holders(P)
    R.floor("R14-d", "global state holders found in the workspace (detector control)", len(holders), 6)
    PRN = "nitrogql_printer::"
    entries = [P.fn("graphql_loader::js_printer::print_js"), P.fn(PRN + "operation_js_printer::print_js_for_operation_document"),
               P.fn(PRN + "operation_type_printer::print_types_for_operation_document")]
    scope = [P.fns[p] for p in P.reachable(entries) if not P.fns[p].derived]
    ALLOWED = {"nitrogql_ast::current_file::CURRENT_FILE_OF_POS": "file index for positions; does not select names or exports"}
    # what this property is about: state that holds (or was computed from) the naming/export options or the configuration.  State
    # holding something else (a per-document memo of spreads, an interner) may break other properties, not the agreement of names.
    naming_types = {BASEOPT, CONFIG_T} | {a.path for a in P.adts.values() if a.path.startswith(CFG)}
    naming_types |= {a.path for a in P.adts.values() if a.kind == "Struct" and any(_adt_of_type(P, t) == BASEOPT for t in a.field_types().values())}
    from prov import canon_params

    def about_naming(f, h, missing):
        ty = norm(str(holders[h][0]))
        if any(t in ty for t in naming_types):
            return True
        names = canon_params(f)
        for m in missing or []:
            if m in names and names.index(m) < len(f.sig_inputs) and any(t in f.sig_inputs[names.index(m)] for t in naming_types):
                return True
        return False
    bad = 0
    for f, h, missing, key in global_state_uses(P, scope, holders):
        if h in ALLOWED:
            continue
        if not about_naming(f, h, missing):
            R.holds("R14-d", "state:%s" % short(h), "%s uses the global %s, which neither holds nor was computed from the naming/export options "
                    "or the configuration (other properties decide whether the documents stay right)" % (f.path, h), loc=f.loc())
            continue
        bad += 1
        if missing:
            R.violated("R14-d", "state:%s" % short(h), "%s keeps a value in the thread-local/static %s that was computed from %s but is reused for "
                       "every later call (key: %s): after the configuration changes, the loader keeps naming/exporting by the old options while "
                       "`generate` uses the new ones" % (f.path, h, missing, key or "none"), loc=f.loc())
        else:
            R.undecided("R14-d", "state:%s" % short(h), "%s uses global state %s; its effect on the output is not decided" % (f.path, h), loc=f.loc())
    if not bad:
        R.holds("R14-d", "stateless", "%d functions reachable from the two printers keep no naming/export option or configuration in global state" % len(scope))


RULES = [("R14-a", r14a), ("R14-b", r14b), ("R14-c", r14c), ("R14-d", r14d)]
EXPLANATION = (
    "Agreement between the declaration printer and the JS (loader) printer, decided on code shape: (R14-a) both run the shared "
    "OperationPrinter::print_document, both take base options from OperationBasePrinterOptions::from_config(config) of the config "
    "they were given, and every shared option field is wired to its config key; (R14-b) for the operation constant, the fragment "
    "constant and the default export, the identifier written after `const `/inside `export { .. as default }` has the same "
    "provenance signature on both sides (context fields expanded through their constructor in the shared driver) and `export` is "
    "written under the same condition; default-export eligibility and `exported` are decided once in the shared driver; "
    "(R14-c) capitalisation and naming options are read only in the shared base printer (one listed exception, compared in "
    "R14-b). Not decided: that both constants hold the same document (C12).")
ASSUMPTIONS = ["serde derive maps camelCase config keys onto the Config fields (checked separately in C09's config table)",
               "packages/loader-core passes the same config text to the loader (TypeScript, read only)"]


def main(tier):
    return harness.run_property("C14", RULES, "other", EXPLANATION, ASSUMPTIONS, tier)
