"""C14 — Declared exports match what the bundler loader exports at runtime."""
import harness
from facts import norm, call_name, short, subnodes, lit_value, field_reads
from prov import Prov, has_field, has_call
from emit import emission, guard_fields

PR = "nitrogql_printer::"
VIS = PR + "operation_base_printer::visitor::OperationPrinterVisitor"
BASEOPT = PR + "operation_base_printer::options::OperationBasePrinterOptions"
OPCTX = PR + "operation_base_printer::visitor::PrintOperationContext"
FRCTX = PR + "operation_base_printer::visitor::PrintFragmentContext"
NAMES = PR + "operation_base_printer::OperationNames"
CFG = "nitrogql_config_file::config::"

# option field -> config field it must be wired to (T10). `named_export_for_operation` is the negation of the same key.
BASE_WIRING = {
    "default_export_for_operation": ("GenerateExportConfig", "default_export_for_operation"),
    "named_export_for_operation": ("GenerateExportConfig", "default_export_for_operation"),
    "export_input_type": ("GenerateExportConfig", "variables_type"),
    "export_result_type": ("GenerateExportConfig", "operation_result_type"),
    "capitalize_operation_names": ("GenerateNameConfig", "capitalize_operation_names"),
    "query_variable_suffix": ("GenerateNameConfig", "query_variable_suffix"),
    "mutation_variable_suffix": ("GenerateNameConfig", "mutation_variable_suffix"),
    "subscription_variable_suffix": ("GenerateNameConfig", "subscription_variable_suffix"),
    "fragment_variable_suffix": ("GenerateNameConfig", "fragment_variable_suffix"),
}

NAME_ADTS = ("FragmentDefinition", "Ident", "OperationBasePrinterOptions", "OperationNames", "OperationDefinition")


def visitors(P):
    impls = P.trait_impls(VIS)
    js = {f.name: f for f in impls if "operation_js_printer" in f.path}
    ts = {f.name: f for f in impls if "operation_type_printer" in f.path}
    return js, ts


def wiring_of(P, fn, opt_adt):
    """{option field: set of (config adt, field)} from a from_config function: struct literal fields and
    clone_into(&config.., &mut result.field) calls and assignments `result.f = ..`"""
    pv = Prov(fn)
    out = {}
    for n in fn.walk():
        if n.get("k") == "Struct" and "rest" not in n and norm(n.get("adt")) == opt_adt:
            for f in n["fields"]:
                out.setdefault(f["name"], set()).update(_cfg_fields(pv.atoms(f["e"])))
        elif n.get("k") == "Call" and (call_name(n) or "").endswith("clone_into") and len(n["args"]) == 2:
            dst = n["args"][1]
            while dst.get("k") in ("AddrOf", "Unary"):
                dst = dst["e"]
            if dst.get("k") == "Field" and norm(dst.get("adt")) == opt_adt:
                out.setdefault(dst["field"], set()).update(_cfg_fields(pv.atoms(n["args"][0])))
        elif n.get("k") == "Assign" and n["l"].get("k") == "Field" and norm(n["l"].get("adt")) == opt_adt:
            # include the conditions guarding the assignment
            out.setdefault(n["l"]["field"], set()).update(_cfg_fields(pv.atoms(n["r"])))
            out[n["l"]["field"]].add(("<assigned>", "<assigned>"))
        elif n.get("k") == "MethodCall" and n["recv"].get("k") == "Field" and norm(n["recv"].get("adt")) == opt_adt \
                and n["method"] in ("extend", "insert", "push", "clone_from"):
            out.setdefault(n["recv"]["field"], set()).update(_cfg_fields(pv.atoms(n["args"])))
    return out


_P = [None]


def _cfg_fields(atoms):
    """config leaf fields among atoms (fields whose own type is another config struct are path steps, not leaves)"""
    out = set()
    for a in atoms:
        if a[0] == "field" and a[1].startswith(CFG):
            adt = _P[0].adts.get(a[1])
            ty = adt.field_types().get(a[2], "") if adt and adt.kind == "Struct" else ""
            if ty.startswith(CFG) and not ty.startswith(CFG + "GenerateMode"):
                continue
            out.add((a[1].split("::")[-1], a[2]))
    return out


def r14a(P, R):
    _P[0] = P
    ts_entry = P.fn(PR + "operation_type_printer::print_types_for_operation_document")
    js_entry = P.fn(PR + "operation_js_printer::print_js_for_operation_document")
    driver = P.fn(PR + "operation_base_printer::OperationPrinter::print_document")
    for e in (ts_entry, js_entry):
        R.check("R14-a", "driver:" + e.name, driver.path in P.callees_of(e)[0], "runs the shared OperationPrinter::print_document",
                "%s does not run the shared traversal OperationPrinter::print_document" % e.path, loc=e.loc())
    base_fc = P.fn(BASEOPT + "::from_config")
    for name in ("operation_type_printer::visitor::OperationTypePrinterOptions::from_config",
                 "operation_js_printer::options::OperationJSPrinterOptions::from_config"):
        f = P.fn(PR + name)
        pv = Prov(f)
        lits = [n for n in f.walk() if n.get("k") == "Struct" and "rest" not in n]
        ok = False
        for l in lits:
            for fld in l["fields"]:
                if fld["name"] == "base_options" and has_call(pv.atoms(fld["e"]), "OperationBasePrinterOptions::from_config") \
                        and ("param", "config") in pv.atoms(fld["e"]):
                    ok = True
        R.check("R14-a", "base-options:" + short(f.path), ok, "base options come from OperationBasePrinterOptions::from_config(config)",
                "%s does not take its base options from OperationBasePrinterOptions::from_config(config)" % f.path, loc=f.loc())
    # both front ends derive their options from the config they were given
    lp = P.fn("graphql_loader::js_printer::print_js")
    pv = Prov(lp)
    calls = [c for c in lp.walk() if c.get("k") == "Call" and call_name(c) == js_entry.path]
    ok = bool(calls) and has_call(pv.atoms(calls[0]["args"][0]), "OperationJSPrinterOptions::from_config") and ("param", "config") in pv.atoms(calls[0]["args"][0])
    R.check("R14-a", "loader-options", ok, "the loader prints with OperationJSPrinterOptions::from_config(config)",
            "graphql-loader does not derive its printer options from the config", loc=lp.loc())
    go = P.fn("nitrogql_cli::generate::generate_operation_type_printer_options")
    pv = Prov(go)
    ok = any((call_name(c) or "").endswith("OperationTypePrinterOptions::from_config") and ("param", "config") in pv.atoms(c["args"][0])
             for c in go.walk() if c.get("k") == "Call")
    R.check("R14-a", "cli-options", ok, "the CLI prints with OperationTypePrinterOptions::from_config(config)",
            "the CLI does not derive its operation printer options from the config", loc=go.loc())
    # T10 wiring of the shared options
    w = wiring_of(P, base_fc, BASEOPT)
    adt = P.adt(BASEOPT)
    for fld in adt.fields():
        exp = BASE_WIRING.get(fld)
        if exp is None:
            R.undecided("R14-a", "wiring:" + fld, "new option field `%s` has no entry in the wiring table" % fld, loc=base_fc.loc())
            continue
        got = w.get(fld, set())
        R.check("R14-a", "wiring:" + fld, exp in got and len({g for g in got if g[0] != "<assigned>"}) == 1,
                "`%s` <- config.%s.%s" % (fld, exp[0], exp[1]),
                "option `%s` is wired to %s, expected config %s.%s: the declaration printer and the loader would still agree with each "
                "other but not with the configured naming/export option" % (fld, sorted(got), exp[0], exp[1]), loc=base_fc.loc())
    # named export is the negation of default export
    negs = [n for n in base_fc.walk() if n.get("k") == "Unary" and n.get("op") == "Not"]
    R.check("R14-a", "wiring:named-is-negation", len(negs) == 1, "named export = !default export", "negation count %d" % len(negs), loc=base_fc.loc())


def const_site(fn, pv, em):
    """the identifier written right after the literal `const ` -> (index, node) and the `export ` write preceding it"""
    for pos, (i, kind, lit, n) in enumerate(em):
        if kind == "write" and lit == "const ":
            ident = em[pos + 1] if pos + 1 < len(em) else None
            exp = None
            for j in range(pos - 1, -1, -1):
                if em[j][1] == "write" and em[j][2] == "export ":
                    exp = em[j]
                    break
                if em[j][1] in ("write", "write_for") and em[j][2] not in ("declare ", None):
                    break
            return ident, exp
    return None, None


def name_sig(P, atoms, expand=True):
    """semantic signature of a printed identifier: (ADT, field) atoms on naming ADTs + workspace callees"""
    sig = set()
    for a in atoms:
        if a[0] == "field":
            last = a[1].split("::")[-1]
            if last in NAME_ADTS:
                sig.add((last, a[2]))
        elif a[0] in ("call", "def") and a[1] in P.fns and not a[1].endswith("::name_pos"):
            sig.add(("call", short(a[1])))
    return sig


def ctx_field_sig(P, ctx_adt, field):
    """signature of a context struct field, through its constructor in the shared driver"""
    driver = P.fn(PR + "operation_base_printer::OperationPrinter::print_document")
    pv = Prov(driver)
    sig = set()
    for n in driver.walk():
        if n.get("k") == "Struct" and "rest" not in n and norm(n.get("adt")) == ctx_adt:
            for f in n["fields"]:
                if f["name"] == field:
                    sig |= name_sig(P, pv.atoms(f["e"]))
    return sig


def expand(P, sig):
    """replace context-struct indirections by what the driver put there"""
    out = set()
    for s in sig:
        out.add(s)
    return out


def r14b(P, R):
    js, ts = visitors(P)
    R.floor("R14-b", "visitor methods (js)", len(js), 5)
    R.floor("R14-b", "visitor methods (ts)", len(ts), 5)
    # ---- operation constant
    sigs = {}
    for side, vis in (("js", js), ("ts", ts)):
        f = vis["print_operation_definition"]
        pv = Prov(f)
        em = emission(f)
        ident, exp = const_site(f, pv, em)
        if ident is None:
            R.violated("R14-b", "op-const:" + side, "%s writes no `const <name>`" % f.path, loc=f.loc())
            continue
        a = pv.atoms(ident[3]["args"][0])
        sig = {(x[1].split("::")[-1], x[2]) for x in a if x[0] == "field" and x[1] in (NAMES, OPCTX)}
        sigs[side] = sig
        R.check("R14-b", "op-const-name:" + side, ("OperationNames", "operation_variable_name") in sig and ("OperationNames", "operation_name") not in sig,
                "operation constant is named by operation_names.operation_variable_name",
                "%s names the operation constant from %s, not from operation_names.operation_variable_name" % (f.path, sorted(sig)), loc=f.loc())
        if exp is None:
            R.violated("R14-b", "op-export:" + side, "%s never writes `export ` before the operation constant" % f.path, loc=f.loc())
        else:
            g = {(x[1].split("::")[-1], x[2]) for x in guard_fields(f, exp[0], pv)}
            R.check("R14-b", "op-export:" + side, g == {("PrintOperationContext", "exported")},
                    "`export` of the operation constant is conditional on context.exported only",
                    "%s exports the operation constant under %s; the other side uses context.exported" % (f.path, sorted(g)), loc=f.loc())
    if len(sigs) == 2:
        R.check("R14-b", "op-const-agree", sigs["js"] == sigs["ts"], "both sides name the operation constant identically",
                "operation constant naming differs: js=%s ts=%s" % (sorted(sigs["js"]), sorted(sigs["ts"])))
    # ---- fragment constant
    fsigs = {}
    var_name_sig = ctx_field_sig(P, FRCTX, "var_name")
    for side, vis in (("js", js), ("ts", ts)):
        f = vis["print_fragment_definition"]
        pv = Prov(f)
        em = emission(f)
        ident, exp = const_site(f, pv, em)
        if ident is None:
            R.violated("R14-b", "frag-const:" + side, "%s writes no `const <name>`" % f.path, loc=f.loc())
            continue
        a = pv.atoms(ident[3]["args"][0])
        sig = name_sig(P, a)
        if any(x[0] == "field" and x[1] == FRCTX and x[2] == "var_name" for x in a):
            sig |= var_name_sig
        # drop the path through the options struct (`self.options.base_options`) – same option value on both sides
        sig = {s for s in sig if s != ("OperationTypePrinterOptions", "base_options")}
        fsigs[side] = sig
        if exp is None:
            R.violated("R14-b", "frag-export:" + side, "%s never writes `export ` before the fragment constant" % f.path, loc=f.loc())
        else:
            g = {(x[1].split("::")[-1], x[2]) for x in guard_fields(f, exp[0], pv)}
            R.check("R14-b", "frag-export:" + side, g == {("PrintFragmentContext", "exported")},
                    "`export` of the fragment constant is conditional on context.exported only",
                    "%s exports the fragment constant under %s" % (f.path, sorted(g)), loc=f.loc())
    want = {("FragmentDefinition", "name"), ("Ident", "name"), ("OperationBasePrinterOptions", "fragment_variable_suffix")}
    for side, sig in fsigs.items():
        R.check("R14-b", "frag-const-name:" + side, sig == want, "fragment constant = fragment name + fragment_variable_suffix",
                "%s side names the fragment constant from %s (expected name + fragment_variable_suffix, no other transformation)" % (side, sorted(sig)))
    if len(fsigs) == 2:
        R.check("R14-b", "frag-const-agree", fsigs["js"] == fsigs["ts"], "both sides name the fragment constant identically",
                "fragment constant naming differs: js=%s ts=%s" % (sorted(fsigs["js"]), sorted(fsigs["ts"])))
    # ---- default export
    dsig = {}
    for side, vis in (("js", js), ("ts", ts)):
        f = vis["print_default_exported_operation_definition"]
        pv = Prov(f)
        em = emission(f)
        lits = [e[2] for e in em if e[2] is not None]
        names = [e for e in em if e[2] is None]
        ok_shape = lits[:1] == ["export { "] and any(l.startswith(" as default") for l in lits) and len(names) == 1
        R.check("R14-b", "default-shape:" + side, ok_shape, "`export { <name> as default }`",
                "%s does not emit `export { <name> as default }` (%s)" % (f.path, lits), loc=f.loc())
        if names:
            a = pv.atoms(names[0][3]["args"][0])
            sig = {(x[1].split("::")[-1], x[2]) for x in a if x[0] == "field" and x[1] in (NAMES, OPCTX)}
            dsig[side] = sig
            R.check("R14-b", "default-name:" + side, ("OperationNames", "operation_variable_name") in sig and ("OperationNames", "operation_name") not in sig,
                    "default export re-exports the operation constant", "%s default-exports %s" % (f.path, sorted(sig)), loc=f.loc())
        g = [c for c in f.walk() if c.get("k") == "If"]
        R.check("R14-b", "default-unconditional:" + side, not g, "the visitor emits the default export whenever the shared driver asks for it",
                "%s emits the default export conditionally; the shared driver already decides eligibility" % f.path, loc=f.loc())
    # ---- the shared driver decides: default export iff option && exactly one operation; exported iff named_export option
    driver = P.fn(PR + "operation_base_printer::OperationPrinter::print_document")
    pv = Prov(driver)
    calls = [(i, c) for i, (c, _) in enumerate(driver.nodes()) if c.get("k") == "MethodCall" and c["method"] == "print_default_exported_operation_definition"]
    R.floor("R14-b", "default export decision sites", len(calls), 1)
    for i, c in calls:
        g = {(x[1].split("::")[-1], x[2]) for x in guard_fields(driver, i, pv)}
        R.check("R14-b", "default-eligibility", ("OperationBasePrinterOptions", "default_export_for_operation") in g,
                "default export only with the option on (and a single operation)", "default export eligibility depends on %s" % sorted(g), loc=driver.loc())
    for n in driver.walk():
        if n.get("k") == "Struct" and "rest" not in n and norm(n.get("adt")) == OPCTX:
            for f in n["fields"]:
                if f["name"] == "exported":
                    g = {(x[1].split("::")[-1], x[2]) for x in pv.atoms(f["e"]) if x[0] == "field"}
                    R.check("R14-b", "op-exported-source", ("OperationBasePrinterOptions", "named_export_for_operation") in g,
                            "context.exported <- options.named_export_for_operation", "context.exported derives from %s" % sorted(g), loc=driver.loc())


def r14c(P, R):
    """name ownership: capitalisation and the variable-suffix options are applied in the shared base printer only"""
    cap_callers = [c for c in P.callers_of("nitrogql_utils::capitalize::capitalize") if "::tests" not in c]
    R.check("R14-c", "capitalize-owner", all("operation_base_printer" in c for c in cap_callers) and cap_callers,
            "capitalize is applied only in operation_base_printer", "capitalize is also called from %s" % cap_callers)
    suffix_fields = ["query_variable_suffix", "mutation_variable_suffix", "subscription_variable_suffix", "fragment_variable_suffix", "capitalize_operation_names"]
    allowed_extra = {
        # the TS visitor recomputes the fragment constant name from the same option (compared in R14-b)
        ("fragment_variable_suffix", "OperationTypePrinterVisitor::print_fragment_definition"),
    }
    n = 0
    for f in P.fns.values():
        if f.derived or "::tests" in f.path or not f.path.startswith((PR, "<" + PR, "graphql_loader", "nitrogql_cli")) and PR not in f.path:
            continue
        for (adt, fld) in field_reads(f):
            if adt == BASEOPT and fld in suffix_fields:
                n += 1
                ok = "operation_base_printer" in f.path or (fld, short(f.path)) in allowed_extra
                R.check("R14-c", "owner:%s@%s" % (fld, short(f.path)), ok, "read in the shared base printer",
                        "%s reads naming option `%s` outside the shared base printer: one side can name exports differently" % (f.path, fld), loc=f.loc())
    R.floor("R14-c", "reads of naming options", n, 6)
    # suffix table of operation_variable_name
    ovn = P.fn(PR + "operation_base_printer::operation_variable_name")
    from facts import matches_on, arm_variants
    ms = matches_on(ovn, "OperationType")
    R.floor("R14-c", "operation-type suffix match", len(ms), 1)
    exp = {"Query": "query_variable_suffix", "Mutation": "mutation_variable_suffix", "Subscription": "subscription_variable_suffix"}
    pv = Prov(ovn)
    for m in ms:
        for arm in m["arms"]:
            v, _ = arm_variants({"arms": [arm]})
            for vv in v:
                got = {x[2] for x in pv.atoms(arm["body"]) if x[0] == "field" and x[1] == BASEOPT}
                R.check("R14-c", "suffix:" + vv, got == {exp.get(vv)}, "%s -> %s" % (vv, exp.get(vv)), "%s operations get suffix %s" % (vv, sorted(got)), loc=ovn.loc())


def r14d(P, R):
    """both printers are functions of (document, config) only: no state survives from one file / one config to the next"""
    from templates import global_state_holders, global_state_uses
    holders = global_state_holders(P)
    R.floor("R14-d", "global state holders found in the workspace (detector control)", len(holders), 6)
    PRN = "nitrogql_printer::"
    entries = [P.fn("graphql_loader::js_printer::print_js"), P.fn(PRN + "operation_js_printer::print_js_for_operation_document"),
               P.fn(PRN + "operation_type_printer::print_types_for_operation_document")]
    scope = [P.fns[p] for p in P.reachable(entries) if not P.fns[p].derived]
    ALLOWED = {"nitrogql_ast::current_file::CURRENT_FILE_OF_POS": "file index for positions; does not select names or exports"}
    bad = 0
    for f, h, missing, key in global_state_uses(P, scope, holders):
        if h in ALLOWED:
            continue
        bad += 1
        if missing:
            R.violated("R14-d", "state:%s" % short(h), "%s keeps a value in the thread-local/static %s that was computed from %s but is reused for "
                       "every later call (key: %s): after the configuration changes, the loader keeps naming/exporting by the old options while "
                       "`generate` uses the new ones" % (f.path, h, missing, key or "none"), loc=f.loc())
        else:
            R.undecided("R14-d", "state:%s" % short(h), "%s uses global state %s; its effect on the output is not decided" % (f.path, h), loc=f.loc())
    if not bad:
        R.holds("R14-d", "stateless", "%d functions reachable from the two printers touch no global state holder" % len(scope))


RULES = [("R14-a", r14a), ("R14-b", r14b), ("R14-c", r14c), ("R14-d", r14d)]
EXPLANATION = (
    "Agreement between the declaration printer and the JS (loader) printer, decided on code shape: (R14-a) both run the shared "
    "OperationPrinter::print_document, both take base options from OperationBasePrinterOptions::from_config(config) of the config "
    "they were given, and every shared option field is wired to its config key; (R14-b) for the operation constant, the fragment "
    "constant and the default export, the identifier written after `const `/inside `export { .. as default }` has the same "
    "provenance signature on both sides (context fields expanded through their constructor in the shared driver) and `export` is "
    "written under the same condition; default-export eligibility and `exported` are decided once in the shared driver; "
    "(R14-c) capitalisation and naming options are read only in the shared base printer (one listed exception, compared in "
    "R14-b). Not decided: that both constants hold the same document (C12).")
ASSUMPTIONS = ["serde derive maps camelCase config keys onto the Config fields (checked separately in C09's config table)",
               "packages/loader-core passes the same config text to the loader (TypeScript, read only)"]


def main(tier):
    return harness.run_property("C14", RULES, "other", EXPLANATION, ASSUMPTIONS, tier)
