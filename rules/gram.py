"""A model of the pest grammar (DESIGN.md §5 T9): parses grammar.pest and computes, per rule, the language of
*direct child* token sequences a Pair of that rule can have (regular language over rule names), following pest's
token-emission semantics, plus finite text languages where they exist.

Pest semantics modelled (pest 2.7, generator + ParserState::rule):
  * a rule emits a token iff we are not inside a lookahead and the *current* atomicity is not Atomic;
  * `@` (atomic) runs its body with atomicity Atomic, `$` with CompoundAtomic, `!` with NonAtomic; silent `_`
    rules never emit a token themselves and do not change atomicity;
  * implicit WHITESPACE/COMMENT skipping runs atomically: it emits no tokens;
  * literals, ranges and built-ins emit nothing, except EOI which is a visible pair;
  * ordered choice is over-approximated by union (sound for "the builder must accept whatever the grammar emits").
"""
import re


class PestSyntaxError(Exception):
    pass


TOKEN_RE = re.compile(r'''
    (?P<ws>\s+|//[^\n]*|/\*.*?\*/)
  | (?P<string>"(?:\\.|[^"\\])*")
  | (?P<insens>\^"(?:\\.|[^"\\])*")
  | (?P<char>'(?:\\.|[^'\\])*')
  | (?P<ident>[A-Za-z_][A-Za-z0-9_]*)
  | (?P<range>\.\.)
  | (?P<op>[=~|?*+!&(){}\[\],_@$#\-])
''', re.X | re.S)


def _unescape(s):
    body = s[1:-1]
    out = []
    i = 0
    while i < len(body):
        c = body[i]
        if c == "\\":
            n = body[i + 1]
            if n == "n":
                out.append("\n"); i += 2
            elif n == "r":
                out.append("\r"); i += 2
            elif n == "t":
                out.append("\t"); i += 2
            elif n == "0":
                out.append("\0"); i += 2
            elif n == "u":
                j = body.index("}", i)
                out.append(chr(int(body[i + 3:j], 16))); i = j + 1
            elif n == "x":
                out.append(chr(int(body[i + 2:i + 4], 16))); i += 4
            else:
                out.append(n); i += 2
        else:
            out.append(c); i += 1
    return "".join(out)


def tokenize(src):
    pos = 0
    out = []
    while pos < len(src):
        m = TOKEN_RE.match(src, pos)
        if not m:
            raise PestSyntaxError("cannot tokenize grammar at %d: %r" % (pos, src[pos:pos + 20]))
        pos = m.end()
        k = m.lastgroup
        if k == "ws":
            continue
        out.append((k, m.group(k)))
    return out


class Parser:
    def __init__(self, toks):
        self.t = toks
        self.i = 0

    def peek(self):
        return self.t[self.i] if self.i < len(self.t) else (None, None)

    def eat(self, kind=None, val=None):
        k, v = self.peek()
        if (kind and k != kind) or (val and v != val):
            raise PestSyntaxError("expected %s %s, got %s %r at token %d" % (kind, val, k, v, self.i))
        self.i += 1
        return v

    def grammar(self):
        rules = {}
        order = []
        while self.peek()[0] is not None:
            name = self.eat("ident")
            self.eat("op", "=")
            mod = ""
            if self.peek() == ("ident", "_"):
                self.eat(); mod = "_"
            elif self.peek()[0] == "op" and self.peek()[1] in "_@$!":
                mod = self.eat()
            self.eat("op", "{")
            e = self.expr()
            self.eat("op", "}")
            rules[name] = (mod, e)
            order.append(name)
        return rules, order

    def expr(self):
        if self.peek() == ("op", "|"):
            self.eat()
        alts = [self.seq()]
        while self.peek() == ("op", "|"):
            self.eat()
            alts.append(self.seq())
        return alts[0] if len(alts) == 1 else ("choice", alts)

    def seq(self):
        items = [self.term()]
        while self.peek() == ("op", "~"):
            self.eat()
            items.append(self.term())
        return items[0] if len(items) == 1 else ("seq", items)

    def term(self):
        k, v = self.peek()
        if k == "op" and v in "!&":
            self.eat()
            inner = self.term()
            return ("neg" if v == "!" else "pos", inner)
        n = self.node()
        while True:
            k, v = self.peek()
            if k == "op" and v == "?":
                self.eat(); n = ("opt", n)
            elif k == "op" and v == "*":
                self.eat(); n = ("star", n)
            elif k == "op" and v == "+":
                self.eat(); n = ("plus", n)
            elif k == "op" and v == "{":
                # repetition {n} {n,} {,m} {n,m}: only if followed by a number or comma
                save = self.i
                self.eat()
                nk, nv = self.peek()
                if nk == "ident" and nv.isdigit() or (nk, nv) == ("op", ","):
                    lo = hi = None
                    if nk == "ident":
                        lo = int(self.eat())
                    if self.peek() == ("op", ","):
                        self.eat()
                        if self.peek()[0] == "ident" and self.peek()[1].isdigit():
                            hi = int(self.eat())
                        else:
                            hi = -1
                    else:
                        hi = lo
                    self.eat("op", "}")
                    n = ("rep", n, lo or 0, hi)
                else:
                    self.i = save
                    break
            else:
                break
        return n

    def node(self):
        k, v = self.peek()
        if k == "op" and v == "(":
            self.eat()
            e = self.expr()
            self.eat("op", ")")
            return e
        if k == "string":
            self.eat()
            return ("str", _unescape(v))
        if k == "insens":
            self.eat()
            return ("insens", _unescape(v[1:]))
        if k == "char":
            self.eat()
            lo = _unescape(v)
            self.eat("range")
            hi = _unescape(self.eat("char"))
            return ("range", lo, hi)
        if k == "ident":
            self.eat()
            if v in ("PUSH", "PEEK") and self.peek() == ("op", "("):
                self.eat()
                e = self.expr()
                self.eat("op", ")")
                return e
            return ("id", v)
        raise PestSyntaxError("unexpected token %s %r at %d" % (k, v, self.i))


# tokens must allow digits as idents for {4}
TOKEN_RE = re.compile(TOKEN_RE.pattern.replace("(?P<ident>[A-Za-z_][A-Za-z0-9_]*)", "(?P<ident>[A-Za-z_][A-Za-z0-9_]*|[0-9]+)"), re.X | re.S)

BUILTIN_SILENT = {"ANY", "SOI", "NEWLINE", "ASCII_DIGIT", "ASCII_NONZERO_DIGIT", "ASCII_BIN_DIGIT", "ASCII_OCT_DIGIT", "ASCII_HEX_DIGIT",
                  "ASCII_ALPHA_LOWER", "ASCII_ALPHA_UPPER", "ASCII_ALPHA", "ASCII_ALPHANUMERIC", "ASCII", "PEEK_ALL", "POP", "POP_ALL", "DROP"}

# ------------------------------------------------------------------ regex over symbols
EPS = ("eps",)
EMPTY = ("empty",)


def r_seq(items):
    items = [x for x in items if x != EPS]
    if any(x == EMPTY for x in items):
        return EMPTY
    if not items:
        return EPS
    return items[0] if len(items) == 1 else ("seq", items)


def r_alt(items):
    items = [x for x in items if x != EMPTY]
    uniq = []
    for x in items:
        if x not in uniq:
            uniq.append(x)
    if not uniq:
        return EMPTY
    return uniq[0] if len(uniq) == 1 else ("alt", uniq)


def r_star(x):
    if x in (EPS, EMPTY):
        return EPS
    return ("star", x)


class Grammar:
    def __init__(self, path, text=None):
        self.src = open(path).read() if text is None else text
        self.rules, self.order = Parser(tokenize(self.src)).grammar()
        self._lang = {}

    def is_silent(self, name):
        return self.rules[name][0] == "_"

    def visible_rules(self):
        return [n for n in self.order if not self.is_silent(n)]

    # ---- child language ------------------------------------------------------
    def child_lang(self, name):
        """regex over rule names of the direct children of a Pair of rule `name` (the pair exists, so the rule itself
        was entered in a token-emitting context)"""
        if name in self._lang:
            return self._lang[name]
        mod, e = self.rules[name]
        mode = {"@": "A", "$": "C", "!": "N", "": "N", "_": "N"}[mod]
        # a rule without modifier inherits the caller's atomicity; a Pair of it exists only if the caller was not Atomic.
        # Inheriting Compound vs NonAtomic does not change token emission, so "N" is exact for emission purposes.
        r = self._lang_expr(e, mode, (name,))
        self._lang[name] = r
        return r

    def _lang_expr(self, e, mode, stack):
        k = e[0]
        if k in ("str", "insens", "range"):
            return EPS
        if k in ("neg", "pos"):
            return EPS
        if k == "seq":
            return r_seq([self._lang_expr(x, mode, stack) for x in e[1]])
        if k == "choice":
            return r_alt([self._lang_expr(x, mode, stack) for x in e[1]])
        if k == "opt":
            return r_alt([EPS, self._lang_expr(e[1], mode, stack)])
        if k == "star":
            return r_star(self._lang_expr(e[1], mode, stack))
        if k == "plus":
            x = self._lang_expr(e[1], mode, stack)
            return r_seq([x, r_star(x)])
        if k == "rep":
            x = self._lang_expr(e[1], mode, stack)
            lo, hi = e[2], e[3]
            parts = [x] * lo
            if hi == -1:
                parts.append(r_star(x))
            elif hi is not None and hi > lo:
                parts.extend([r_alt([EPS, x])] * (hi - lo))
            return r_seq(parts)
        if k == "id":
            q = e[1]
            if q == "EOI":
                return ("sym", "EOI") if mode != "A" else EPS
            if q in BUILTIN_SILENT or q not in self.rules:
                return EPS
            qmod, qe = self.rules[q]
            if qmod == "_":
                if q in stack:
                    return EPS
                return self._lang_expr(qe, mode, stack + (q,))
            if mode != "A":
                return ("sym", q)
            # inside an atomic body the rule itself is not emitted; its body runs under its own atomicity
            if q in stack:
                return EPS
            qmode = {"@": "A", "$": "C", "!": "N", "": mode}[qmod]
            return self._lang_expr(qe, qmode, stack + (q,))
        raise PestSyntaxError("unknown expr %r" % (e,))

    def alphabet(self, name):
        out = set()

        def rec(r):
            if r[0] == "sym":
                out.add(r[1])
            elif r[0] in ("seq", "alt"):
                for x in r[1]:
                    rec(x)
            elif r[0] == "star":
                rec(r[1])
        rec(self.child_lang(name))
        return out

    def descendants(self, name):
        """rules that can occur (at any depth) inside a Pair of rule `name` (excluding the rule itself unless it is recursive)"""
        if not hasattr(self, "_desc"):
            self._desc = {}
        if name in self._desc:
            return self._desc[name]
        out, todo = set(), [name]
        while todo:
            r = todo.pop()
            if r not in self.rules:
                continue
            for c in self.alphabet(r):
                if c not in out:
                    out.add(c)
                    todo.append(c)
        self._desc[name] = frozenset(out)
        return self._desc[name]

    # ---- finite text language --------------------------------------------------
    def text_lang(self, name, limit=200):
        """finite set of texts the rule can match, or None if infinite/unknown (lookaheads contribute nothing)"""
        return self._text(self.rules[name][1], (name,), limit)

    def _text(self, e, stack, limit):
        k = e[0]
        if k == "str":
            return {e[1]}
        if k == "insens":
            s = e[1]
            if len(s) > 6:
                return None
            out = {""}
            for ch in s:
                out = {o + c for o in out for c in {ch.lower(), ch.upper()}}
            return out
        if k in ("neg", "pos"):
            return {""}
        if k == "range":
            return None
        if k == "seq":
            out = {""}
            for x in e[1]:
                t = self._text(x, stack, limit)
                if t is None:
                    return None
                out = {a + b for a in out for b in t}
                if len(out) > limit:
                    return None
            return out
        if k == "choice":
            out = set()
            for x in e[1]:
                t = self._text(x, stack, limit)
                if t is None:
                    return None
                out |= t
            return out
        if k == "opt":
            t = self._text(e[1], stack, limit)
            return None if t is None else t | {""}
        if k in ("star", "plus", "rep"):
            return None
        if k == "id":
            q = e[1]
            if q in ("SOI", "EOI"):
                return {""}
            if q not in self.rules or q in stack:
                return None
            return self._text(self.rules[q][1], stack + (q,), limit)
        return None

    def is_name_like(self, name, _stack=()):
        """the text of a pair of this rule is exactly one token (a Name, a keyword or a location word): no punctuation or
        trivia can be part of it. Lookaheads are ignored."""
        if name == "Name":
            return True
        if name not in self.rules or name in _stack:
            return False
        mod, e = self.rules[name]

        def strip(x):
            if x[0] == "seq":
                items = [y for y in x[1] if y[0] not in ("neg", "pos")]
                return items[0] if len(items) == 1 else ("seq", items)
            return x
        e = strip(e)
        if e[0] == "id":
            return self.is_name_like(e[1], _stack + (name,))
        if e[0] == "choice":
            return all((y[0] == "id" and self.is_name_like(y[1], _stack + (name,))) or (y[0] == "str" and y[1].replace("_", "").isalnum()) for y in e[1])
        if e[0] == "str":
            return mod == "@" and e[1].replace("_", "").isalnum()
        return False

    def forbids_raw(self, name):
        """for a rule of the shape `!( "a" | "b" | X ) ~ ANY`: the set of literal strings excluded (used for escape tables)"""
        e = self.rules[name][1]
        out = set()
        if e[0] == "seq" and e[1][0][0] == "neg":
            def lits(x):
                if x[0] == "str":
                    out.add(x[1])
                elif x[0] == "choice":
                    for y in x[1]:
                        lits(y)
                elif x[0] == "id":
                    out.add("<" + x[1] + ">")
            lits(e[1][0][1])
        return out

    # ---- what the grammar accepts, independent of how it is factored -----------------
    def _sure_start(self, e, stack=()):
        """(sure, maybe): characters c such that every / some input starting with c is matched by e (for look-ahead bodies)"""
        k = e[0]
        if k == "str":
            if len(e[1]) == 1:
                return {e[1]}, set()
            return set(), ({e[1][0]} if e[1] else set())
        if k == "insens":
            cs = {e[1][0].lower(), e[1][0].upper()} if e[1] else set()
            return (cs, set()) if len(e[1]) == 1 else (set(), cs)
        if k == "range":
            return {chr(c) for c in range(ord(e[1]), min(ord(e[2]), 127) + 1)}, set()
        if k == "choice":
            sure, maybe = set(), set()
            for x in e[1]:
                s2, m2 = self._sure_start(x, stack)
                sure |= s2
                maybe |= m2
            return sure, maybe - sure
        if k == "seq":
            items = [x for x in e[1]]
            if not items:
                return set(), set()
            s2, m2 = self._sure_start(items[0], stack)
            rest_nullable = all(self.first(x)[1] for x in items[1:])
            return (s2, m2) if rest_nullable else (set(), s2 | m2)
        if k in ("plus",) or (k == "rep" and e[2] >= 1):
            return self._sure_start(e[1], stack)
        if k == "id":
            q = e[1]
            if q == "NEWLINE":
                return {"\n", "\r"}, set()
            if q in self._CLASSES:
                return set(self._CLASSES[q]), set()
            if q in self.rules and q not in stack:
                return self._sure_start(self.rules[q][1], stack + (q,))
        f = self.first(e)[0]
        return set(), {c for c in f if c != "\x00"}

    def lead_excluded(self, e, stack=()):
        """(sure, maybe): characters that cannot / may not be able to start a match of e because of its leading negative look-aheads"""
        k = e[0]
        if k == "seq":
            sure, maybe = set(), set()
            for x in e[1]:
                if x[0] == "neg":
                    s2, m2 = self._sure_start(x[1])
                    sure |= s2
                    maybe |= m2
                    continue
                if x[0] == "pos":
                    continue
                s2, m2 = self.lead_excluded(x, stack)
                sure |= s2
                maybe |= m2
                break
            return sure, maybe - sure
        if k == "choice":
            parts = [self.lead_excluded(x, stack) for x in e[1]]
            sure = set.intersection(*[p[0] for p in parts]) if parts else set()
            maybe = set().union(*[p[0] | p[1] for p in parts]) - sure if parts else set()
            return sure, maybe
        if k in ("plus",) or (k == "rep" and e[2] >= 1):
            return self.lead_excluded(e[1], stack)
        if k == "id" and e[1] in self.rules and e[1] not in stack:
            return self.lead_excluded(self.rules[e[1]][1], stack + (e[1],))
        return set(), set()

    def trailing_excluded(self, e, stack=()):
        """For every way a match of e can end: (sure, maybe, zero_width) — the characters that may not follow because of the negative
        look-aheads that close that path (`zero_width`: the whole of e consumed nothing on it, so the run continues to the left)"""
        k = e[0]
        if k == "neg":
            s2, m2 = self._sure_start(e[1])
            return [(frozenset(s2), frozenset(m2), True)]
        if k == "pos":
            return [(frozenset(), frozenset(), True)]
        if k == "seq":
            acc = [(frozenset(), frozenset(), True)]
            for x in reversed(e[1]):
                if not any(z for _, _, z in acc):
                    break
                new = set()
                for s1, m1, z in acc:
                    if not z:
                        new.add((s1, m1, False))
                        continue
                    for s2, m2, z2 in self.trailing_excluded(x, stack):
                        new.add((s1 | s2, m1 | m2, z2))
                acc = list(new)
            return acc
        if k == "choice":
            out = set()
            for x in e[1]:
                out |= set(self.trailing_excluded(x, stack))
            return list(out)
        if k in ("opt", "star"):
            return list(set(self.trailing_excluded(e[1], stack)) | {(frozenset(), frozenset(), True)})
        if k in ("plus", "rep"):
            out = set(self.trailing_excluded(e[1], stack))
            if k == "rep" and e[2] == 0:
                out.add((frozenset(), frozenset(), True))
            return list(out)
        if k == "id":
            q = e[1]
            if q in ("SOI", "EOI"):
                return [(frozenset(), frozenset(), True)]
            if q in self.rules and q not in stack:
                return self.trailing_excluded(self.rules[q][1], stack + (q,))
        return [(frozenset(), frozenset(), False)]

    # ---- keywords that may follow a repetition of names -------------------------------
    def word_of(self, name):
        """the word of a keyword rule `@{ "word" ~ !NameContinue }` (None for any other rule)"""
        r = self.rules.get(name)
        if r is None:
            return None
        e = r[1]
        if e[0] == "seq" and e[1] and e[1][0][0] == "str" and e[1][0][1].replace("_", "a").isalpha() and \
                all(x[0] in ("neg", "pos") for x in e[1][1:]) and len(e[1]) > 1:
            return e[1][0][1]
        return None

    def first_words(self, e, stack=()):
        """(keywords, any_name, nullable): the keyword tokens a match of e can begin with, whether it can begin with an arbitrary name;
        look-aheads are ignored (over-approximation)"""
        k = e[0]
        if k == "str":
            if e[1] and e[1].replace("_", "a").isalpha():
                return {e[1]}, False, False
            return set(), False, e[1] == ""
        if k == "insens":
            return ({e[1].lower()} if e[1].isalpha() else set()), False, e[1] == ""
        if k in ("neg", "pos"):
            return set(), False, True
        if k == "range":
            return set(), False, False
        if k == "seq":
            ws, an = set(), False
            for x in e[1]:
                w2, a2, n2 = self.first_words(x, stack)
                ws |= w2
                an = an or a2
                if not n2:
                    return ws, an, False
            return ws, an, True
        if k == "choice":
            ws, an, nl = set(), False, False
            for x in e[1]:
                w2, a2, n2 = self.first_words(x, stack)
                ws, an, nl = ws | w2, an or a2, nl or n2
            return ws, an, nl
        if k in ("opt", "star"):
            w2, a2, _ = self.first_words(e[1], stack)
            return w2, a2, True
        if k == "plus":
            return self.first_words(e[1], stack)
        if k == "rep":
            w2, a2, n2 = self.first_words(e[1], stack)
            return w2, a2, n2 or e[2] == 0
        if k == "id":
            q = e[1]
            if q in ("SOI", "EOI"):
                return set(), False, True
            w = self.word_of(q)
            if w is not None:
                return {w}, False, False
            if q == "Name":
                return set(), True, False
            if q in self.rules and q not in stack:
                return self.first_words(self.rules[q][1], stack + (q,))
        return set(), False, False

    def repetition_follows(self):
        """[(rule, node, follow keywords)] for every `x*`, `x+`, `x?` of the grammar: the keyword tokens that can come directly after
        the repetition (FOLLOW sets, look-aheads ignored)"""
        follow = {n: set() for n in self.rules}
        loops = {}

        def walk(e, fw, rule):
            k = e[0]
            if k == "seq":
                items = e[1]
                for i, x in enumerate(items):
                    ws, _, nl = self.first_words(("seq", items[i + 1:]))
                    walk(x, ws | (fw if nl else set()), rule)
            elif k == "choice":
                for x in e[1]:
                    walk(x, fw, rule)
            elif k in ("opt", "star", "plus", "rep"):
                inner_first = self.first_words(e[1])[0] if k != "opt" else set()
                loops[(rule, id(e))] = (rule, e, set(fw))
                walk(e[1], fw | inner_first, rule)
            elif k == "id" and e[1] in follow:
                if not fw <= follow[e[1]]:
                    follow[e[1]] |= fw
                    self._fchanged = True
        for _ in range(30):
            self._fchanged = False
            for n, (mod, body) in self.rules.items():
                walk(body, set(follow[n]), n)
            if not self._fchanged:
                break
        return list(loops.values())

    def name_start_guards(self, e, guards=frozenset(), stack=()):
        """for every way a match of e can begin with an arbitrary name: the keywords its leading negative look-aheads exclude"""
        k = e[0]
        if k == "seq":
            g2 = set(guards)
            for x in e[1]:
                if x[0] == "neg":
                    g2 |= self.first_words(x[1])[0]
                    continue
                if x[0] == "pos":
                    continue
                out = self.name_start_guards(x, frozenset(g2), stack)
                if self.first_words(x)[2]:
                    out = out + self.name_start_guards(("seq", e[1][e[1].index(x) + 1:]), frozenset(g2), stack)
                return out
            return []
        if k == "choice":
            out = []
            for x in e[1]:
                out += self.name_start_guards(x, guards, stack)
            return out
        if k in ("opt", "star", "plus", "rep"):
            return self.name_start_guards(e[1], guards, stack)
        if k == "id":
            q = e[1]
            if q == "Name":
                return [frozenset(guards)]
            if self.word_of(q) is None and q in self.rules and q not in stack:
                return self.name_start_guards(self.rules[q][1], guards, stack + (q,))
        return []

    # ---- PEG ordered-choice analysis ---------------------------------------------
    _CLASSES = {
        "ASCII_DIGIT": "0123456789", "ASCII_NONZERO_DIGIT": "123456789", "ASCII_BIN_DIGIT": "01", "ASCII_OCT_DIGIT": "01234567",
        "ASCII_HEX_DIGIT": "0123456789abcdefABCDEF", "ASCII_ALPHA_LOWER": "abcdefghijklmnopqrstuvwxyz",
        "ASCII_ALPHA_UPPER": "ABCDEFGHIJKLMNOPQRSTUVWXYZ",
        "ASCII_ALPHA": "abcdefghijklmnopqrstuvwxyzABCDEFGHIJKLMNOPQRSTUVWXYZ",
        "ASCII_ALPHANUMERIC": "abcdefghijklmnopqrstuvwxyzABCDEFGHIJKLMNOPQRSTUVWXYZ0123456789",
        "NEWLINE": "\r\n",
    }

    def first(self, e, _stack=()):
        """(set of possible first characters — '\x00' stands for 'any other character', nullable) of a PEG expression; lookaheads are
        treated as empty (so the set over-approximates what can come first)"""
        k = e[0]
        if k == "str":
            return ({e[1][0]}, False) if e[1] else (set(), True)
        if k == "insens":
            return ({e[1][0].lower(), e[1][0].upper()}, False) if e[1] else (set(), True)
        if k in ("neg", "pos"):
            return set(), True
        if k == "range":
            return {chr(c) for c in range(ord(e[1]), min(ord(e[2]), 127) + 1)} | ({"\x00"} if ord(e[2]) > 127 else set()), False
        if k == "seq":
            out, nullable = set(), True
            for x in e[1]:
                f, n = self.first(x, _stack)
                out |= f
                if not n:
                    nullable = False
                    break
            return out, nullable
        if k == "choice":
            out, nullable = set(), False
            for x in e[1]:
                f, n = self.first(x, _stack)
                out |= f
                nullable = nullable or n
            return out, nullable
        if k in ("opt", "star"):
            return self.first(e[1], _stack)[0], True
        if k == "plus":
            return self.first(e[1], _stack)
        if k == "rep":
            f, n = self.first(e[1], _stack)
            return f, n or e[2] == 0
        if k == "id":
            q = e[1]
            if q in self._CLASSES:
                return set(self._CLASSES[q]), False
            if q in ("ANY", "ASCII"):
                return {chr(c) for c in range(128)} | {"\x00"}, False
            if q in ("SOI", "EOI"):
                return set(), True
            if q not in self.rules or q in _stack:
                return {chr(c) for c in range(128)} | {"\x00"}, True     # unknown: anything
            return self.first(self.rules[q][1], _stack + (q,))
        return {chr(c) for c in range(128)} | {"\x00"}, True

    def dead_alternatives(self):
        """ordered choices in which a later alternative begins with the complete element sequence of an earlier one. Under PEG
        semantics the earlier alternative succeeds wherever the later one would, the choice commits to it, and the later one is
        never taken. Returns [(rule, earlier index, later index, rest elements, verdict, reason)] where verdict is "lost" when the
        continuation of the choice inside the rule provably rejects what the dead alternative would have consumed next."""
        out = []

        def fl(e):
            return list(e[1]) if e[0] == "seq" else [e]

        def walk(rule, e, cont):
            k = e[0]
            if k == "seq":
                items = e[1]
                for i, x in enumerate(items):
                    walk(rule, x, items[i + 1:] + cont)
            elif k == "choice":
                alts = e[1]
                for j in range(len(alts)):
                    sj = fl(alts[j])
                    for i in range(j):
                        si = fl(alts[i])
                        rest = None
                        if len(si) < len(sj) and sj[:len(si)] == si:
                            rest = sj[len(si):]
                        elif (len(si) == 1 and si[0][0] == "str" and sj[0][0] == "str" and sj[0][1] != si[0][1]
                              and sj[0][1].startswith(si[0][1])):
                            rest = [("str", sj[0][1][len(si[0][1]):])] + sj[1:]
                        if rest is None:
                            continue
                        rf, rnull = self.first(("seq", rest))
                        verdict, why = "dead", "alternative %d can never be taken" % (j + 1)
                        if not rnull and cont and cont[0][0] == "neg":
                            gf, _ = self.first(cont[0][1])
                            if rf and rf <= gf:
                                verdict = "lost"
                                why = ("after alternative %d commits, the following negative lookahead rejects every input on which "
                                       "alternative %d would have continued (next character in %r)" % (i + 1, j + 1, "".join(sorted(rf))[:12]))
                        out.append((rule, i, j, rest, verdict, why))
                        break
                for x in alts:
                    walk(rule, x, cont)
            elif k in ("opt", "star", "plus", "rep", "neg", "pos"):
                walk(rule, e[1], [] if k in ("neg", "pos") else cont)

        n = 0
        for name in self.order:
            walk(name, self.rules[name][1], [])
        return out

    def choice_count(self):
        n = 0

        def walk(e):
            nonlocal n
            if e[0] == "choice":
                n += 1
            for x in e[1:]:
                if isinstance(x, tuple):
                    walk(x)
                elif isinstance(x, list):
                    for y in x:
                        walk(y)
        for name in self.order:
            walk(self.rules[name][1])
        return n


# ------------------------------------------------------------------ automata
class NFA:
    def __init__(self):
        self.n = 0
        self.eps = {}
        self.tr = {}

    def new(self):
        self.n += 1
        return self.n - 1

    def add(self, a, sym, b):
        if sym is None:
            self.eps.setdefault(a, set()).add(b)
        else:
            self.tr.setdefault((a, sym), set()).add(b)


def build_nfa(r):
    nfa = NFA()

    def rec(r):
        s, t = nfa.new(), nfa.new()
        k = r[0]
        if k == "eps":
            nfa.add(s, None, t)
        elif k == "empty":
            pass
        elif k == "sym":
            nfa.add(s, r[1], t)
        elif k == "seq":
            cur = s
            for x in r[1]:
                a, b = rec(x)
                nfa.add(cur, None, a)
                cur = b
            nfa.add(cur, None, t)
        elif k == "alt":
            for x in r[1]:
                a, b = rec(x)
                nfa.add(s, None, a)
                nfa.add(b, None, t)
        elif k == "star":
            a, b = rec(r[1])
            nfa.add(s, None, t)
            nfa.add(s, None, a)
            nfa.add(b, None, a)
            nfa.add(b, None, t)
        return s, t
    s, t = rec(r)
    return nfa, s, t


def eclose(nfa, states):
    out = set(states)
    st = list(states)
    while st:
        x = st.pop()
        for y in nfa.eps.get(x, ()):
            if y not in out:
                out.add(y)
                st.append(y)
    return frozenset(out)


def accepts_outside(r, slots, max_report=3):
    """L(r) ⊆ L(slots)?  slots = [(symbol, optional: bool)], matched *exactly* (no leftover children).
    Returns list of counter-example words (tuples) — empty if included."""
    nfa, s, t = build_nfa(r)
    syms = sorted({k[1] for k in nfa.tr})
    # slot DFA state: index i = number of slots consumed/skipped so far (all skipped slots must be optional)

    def slot_step(i, sym):
        # from slot position i, consume sym at the first slot j>=i with slots[j]==sym where all slots i..j-1 optional
        j = i
        while j < len(slots):
            if slots[j][0] == sym:
                return j + 1
            if not slots[j][1]:
                return None
            j += 1
        return None

    def slot_accept(i):
        return all(slots[j][1] for j in range(i, len(slots)))
    start = (eclose(nfa, {s}), 0)
    seen = {start: ()}
    queue = [start]
    bad = []
    while queue and len(bad) < max_report:
        (S, i) = queue.pop(0)
        word = seen[(S, i)]
        if t in S and (i is None or not slot_accept(i)):
            bad.append(word)
            continue
        if i is None:
            continue
        for a in syms:
            T = set()
            for x in S:
                T |= nfa.tr.get((x, a), set())
            if not T:
                continue
            T = eclose(nfa, T)
            j = slot_step(i, a)
            key = (T, j)
            if j is None:
                # the slot pattern cannot take `a` here: any accepted continuation is a counter-example
                if _can_finish(nfa, T, t):
                    bad.append(word + (a, "..."))
                continue
            if key not in seen:
                seen[key] = word + (a,)
                queue.append(key)
    return bad


def _can_finish(nfa, S, t):
    seen = set(S)
    st = list(S)
    while st:
        x = st.pop()
        if x == t:
            return True
        nxt = set(nfa.eps.get(x, ()))
        for (a, sym), bs in nfa.tr.items():
            if a == x:
                nxt |= bs
        for y in nxt:
            if y not in seen:
                seen.add(y)
                st.append(y)
    return t in seen


def lengths(r, cap=3):
    """set of possible word lengths, capped (cap means >= cap)"""
    k = r[0]
    if k == "eps":
        return {0}
    if k == "empty":
        return set()
    if k == "sym":
        return {1}
    if k == "seq":
        out = {0}
        for x in r[1]:
            out = {min(cap, a + b) for a in out for b in lengths(x, cap)}
        return out
    if k == "alt":
        out = set()
        for x in r[1]:
            out |= lengths(x, cap)
        return out
    if k == "star":
        inner = lengths(r[1], cap)
        out = {0}
        for _ in range(cap):
            out |= {min(cap, a + b) for a in out for b in inner}
        return out
    return set()


def first_symbols(r):
    """symbols that can appear as the single child when the word has length 1 -> used for only_child"""
    out = set()
    nfa, s, t = build_nfa(r)
    S = eclose(nfa, {s})
    for (a, sym), bs in nfa.tr.items():
        if a in S:
            T = eclose(nfa, bs)
            if t in T:
                out.add(sym)
    return out


def symbols_by_position(r, upto=6):
    """[set of symbols possible at child index k] for k < upto, plus the set possible at any index >= upto"""
    nfa, s, t = build_nfa(r)
    cur = eclose(nfa, {s})
    out = []
    for _ in range(upto):
        nxt = set()
        syms = set()
        for (a, sym), bs in nfa.tr.items():
            if a in cur:
                syms.add(sym)
                nxt |= bs
        out.append(syms)
        cur = eclose(nfa, nxt)
    rest = set()
    seen = set()
    frontier = cur
    while frontier - seen:
        seen |= frontier
        nxt = set()
        for (a, sym), bs in nfa.tr.items():
            if a in frontier:
                rest.add(sym)
                nxt |= bs
        frontier = eclose(nfa, nxt)
    return out, rest


def show(r):
    k = r[0]
    if k == "eps":
        return "ε"
    if k == "empty":
        return "∅"
    if k == "sym":
        return r[1]
    if k == "seq":
        return " ".join(show(x) if x[0] != "alt" else "(" + show(x) + ")" for x in r[1])
    if k == "alt":
        if EPS in r[1] and len(r[1]) == 2:
            other = [x for x in r[1] if x != EPS][0]
            return (show(other) if other[0] == "sym" else "(" + show(other) + ")") + "?"
        return " | ".join(show(x) for x in r[1])
    if k == "star":
        return (show(r[1]) if r[1][0] == "sym" else "(" + show(r[1]) + ")") + "*"
    return "?"
