"""C03 — `check` accepts no operation that violates an implemented validation rule.

Decides "every implemented rule is applied at every syntactic position it governs" plus several finite tables;
does not decide the value-level exactness of each rule's predicate.
"""
import harness
from facts import (norm, call_name, short, subnodes, lit_value, matches_on, arm_variants, field_reads, peel_ty,
                   lit_table, matches_on_type, str_lits_in)
from prov import Prov, has_field, has_call
from templates import (stateful_guards, memo_key_gaps, constant_params, field_coverage, enclosing_contexts, variant_table, arm_value, recursion_discipline,
                       LOSSY_OR_REORDERING)

CK = "nitrogql_checker::"
A = "nitrogql_ast::"
ERR = CK + "error::CheckErrorMessage"
TD = "graphql_type_system::definitions::TypeDefinition"

EXEC_AST = [
    "operation::OperationDocument", "operation::OperationDefinition", "operation::FragmentDefinition",
    "variable::VariablesDefinition", "variable::VariableDefinition", "variable::Variable",
    "selection_set::SelectionSet", "selection_set::Field", "selection_set::FragmentSpread",
    "selection_set::InlineFragment", "directive::Directive", "value::Arguments",
    "value::EnumValue", "value::ListValue", "value::ObjectValue",
    "type::NamedType", "type::NonNullType", "type::ListType", "base::Ident",
]
EXEMPT = {
    ("selection_set::Field", "alias"): "no implemented rule governs response-key merging (field selection merging is not implemented)",
}

# spec directive locations per AST position (GraphQL spec §3.13): (ADT, field) -> location literal(s)
EXEC_LOCATIONS = {
    ("operation::OperationDefinition", "directives"): {"QUERY", "MUTATION", "SUBSCRIPTION"},
    ("selection_set::Field", "directives"): {"FIELD"},
    ("selection_set::FragmentSpread", "directives"): {"FRAGMENT_SPREAD"},
    ("selection_set::InlineFragment", "directives"): {"INLINE_FRAGMENT"},
    ("variable::VariableDefinition", "directives"): {"VARIABLE_DEFINITION"},
    ("operation::FragmentDefinition", "directives"): {"FRAGMENT_DEFINITION"},
}
OP_LOCATION = {"Query": "QUERY", "Mutation": "MUTATION", "Subscription": "SUBSCRIPTION"}

COMPOSITE = {"Object", "Interface", "Union"}
LEAF_OR_INPUT = {"Scalar", "Enum", "InputObject"}


def entry(P):
    return P.fn(CK + "operation_checker::check_operation_document")


def checker_scope(P):
    reach = P.reachable([entry(P)])
    return sorted(p for p in reach if not P.fns[p].derived)


def directive_sites(P, fns):
    """[(fn, call node, {(adt, field)} of the directives argument, set of location literals)]"""
    out = []
    for f in fns:
        pv = None
        for c in f.walk():
            if c.get("k") == "Call" and (call_name(c) or "") == CK + "common::check_directives":
                pv = pv or Prov(f)
                a = pv.atoms(c["args"][2])
                src = {(x[1], x[2]) for x in a if x[0] == "field" and x[2] == "directives"}
                if not src:
                    # the list arrives through a parameter: take the union over the callers' arguments (one level)
                    pnames = {x[1] for x in a if x[0] == "param"}
                    idxs = [i for i, p in enumerate(f.params) if p.get("k") == "Binding" and pv.params.get(p.get("local")) in pnames]
                    for g in fns:
                        gpv = None
                        for cc in g.walk():
                            if cc.get("k") == "Call" and call_name(cc) == f.path:
                                gpv = gpv or Prov(g)
                                for i in idxs:
                                    if i < len(cc["args"]):
                                        ga = gpv.atoms(cc["args"][i])
                                        src |= {(x[1], x[2]) for x in ga if x[0] == "field" and x[2] == "directives"}
                                        a = a | ga
                loc_arg = c["args"][3]
                lits = set(v for v in str_lits_in(loc_arg))
                table = None
                if loc_arg.get("k") == "Match":
                    table = {}
                    for vname, arm in variant_table(loc_arg).items():
                        v = arm_value(arm)
                        table[vname] = v[1] if v and v[0] == "lit" else None
                out.append((f, c, src, lits, table, a))
    return out


def r03a(P, R):
    scope = checker_scope(P)
    R.count("functions_reachable_from_check_operation_document", len(scope))
    n = field_coverage(P, R, "R03-a", scope, [A + t for t in EXEC_AST], EXEMPT, "the operation checker (reachable from check_operation_document)")
    R.floor("R03-a", "executable AST content fields", n, 28)
    # every variant of the executable sum types is matched explicitly somewhere in the checker
    for enum, where in (("selection_set::Selection", None), ("operation::ExecutableDefinition", None), ("value::Value", None)):
        adt = P.adt(A + enum)
        allv = set(adt.variant_names())
        seen = set()
        sites = 0
        for p in scope:
            f = P.fns[p]
            if not f.path.startswith((CK, "<" + CK)):
                continue
            for m in matches_on(f, enum):
                if (m.get("x") or "").endswith("matches") or "matches" in (m.get("x") or ""):
                    continue
                sites += 1
                v, catch = arm_variants(m)
                seen |= v
                if enum != "value::Value":
                    R.check("R03-a", "variants:%s@%s" % (enum.split("::")[-1], short(f.path)), v == allv and not catch,
                            "all %d variants handled explicitly" % len(allv),
                            "%s matches over %s with %s (catch-all=%s): selections of the missing kind are never checked"
                            % (f.path, enum, sorted(allv - v) or "all variants", catch), loc=f.loc())
        if enum == "value::Value":
            # let-else / if-let patterns also count as explicit handling
            for p in scope:
                f = P.fns[p]
                if f.path.startswith((CK, "<" + CK)):
                    for x in f.walk():
                        if x.get("k") == "TupleStruct" and norm(x.get("adt", "")) == adt.path:
                            seen.add(norm(x.get("ctor_of", "")).split("::")[-1])
            R.check("R03-a", "variants:Value", {"Variable", "NullValue", "ListValue", "ObjectValue", "EnumValue"} <= seen,
                    "structural value kinds are matched explicitly", "the checker never matches Value::%s explicitly"
                    % sorted({"Variable", "NullValue", "ListValue", "ObjectValue", "EnumValue"} - seen))
        R.floor("R03-a", "matches over " + enum.split("::")[-1], sites, 1)


def r03b(P, R):
    """fragment bodies are validated from the definition (not only when spread)"""
    cfd = P.fn(CK + "operation_checker::check_fragment_definition")
    css = P.fn(CK + "operation_checker::check_selection_set")
    reach = P.reachable([cfd])
    R.check("R03-b", "fragment-body-reach", css.path in reach,
            "the selection checker is reachable from the fragment-definition arm",
            "check_fragment_definition never reaches check_selection_set: the body of a fragment is only validated when an operation "
            "spreads it, so `fragment G on Query { nope }` passes check (and generate later trusts the unchecked body)", loc=cfd.loc())
    # every ExecutableDefinition arm of the entry reaches its definition checker
    e = entry(P)
    ereach = P.callees_of(e)[0]
    R.check("R03-b", "operation-arm", CK + "operation_checker::check_operation" in ereach and cfd.path in ereach,
            "both definition kinds are dispatched", "check_operation_document does not dispatch both definition kinds", loc=e.loc())
    # recursion guard of spreads: a `contains` check on seen_fragments precedes the push of the same name
    cfs = P.fn(CK + "operation_checker::check_fragment_spread")
    pv = Prov(cfs)
    conts = [c for c in cfs.walk() if c.get("k") == "MethodCall" and c["method"] == "contains"]
    ok = bool(conts) and has_field(pv.atoms(conts[0]["args"][0]), A + "selection_set::FragmentSpread", "fragment_name") and ("param", "seen_fragments") in pv.atoms(conts[0]["recv"])
    R.check("R03-b", "spread-cycle-guard", ok, "a fragment already on the spread stack is reported (RecursingFragmentSpread) instead of re-entered",
            "check_fragment_spread has no stack check keyed by the spread's fragment name", loc=cfs.loc())
    # descent: in the shared helper every path except the non-composite-parent arm reaches check_selection_set for the fragment's
    # selection set (no applicability shortcut may skip the body)
    core = P.fn(CK + "operation_checker::check_fragment_spread_core")
    cnodes = core.nodes()
    descents = [i for i, (x, _) in enumerate(cnodes) if x.get("k") == "Call" and call_name(x) == css.path]
    R.floor("R03-b", "check_selection_set calls in check_fragment_spread_core", len(descents), 1)
    uncond = [i for i in descents if not [c for c in enclosing_contexts(core, i) if c[0] != "closure" and not (c[0] == "arm" and c[1] is not None and c[1].get("src") != "Normal")]]
    R.check("R03-b", "core-descent-unconditional", bool(uncond), "the body check is the unconditional tail of the helper",
            "check_fragment_spread_core calls check_selection_set only conditionally", loc=core.loc())
    for i, (x, _) in enumerate(cnodes):
        if x.get("k") != "Ret":
            continue
        arms = [c for c in enclosing_contexts(core, i) if c[0] == "arm" and c[1] is not None and c[1].get("src") == "Normal" and c[1]["scrut"].get("k") == "Tup"]
        kinds = set()
        if arms:
            pat = arms[-1][2]["pat"]
            first = pat["ps"][0] if pat.get("k") == "Tuple" else pat
            kinds = {norm(q.get("ctor_of") or q.get("def") or "").split("::")[-1] for q in subnodes(first) if q.get("k") in ("TupleStruct", "Path", "Struct")} - {""}
        ok = bool(kinds) and kinds <= LEAF_OR_INPUT
        R.check("R03-b", "core-early-return:%s" % ("/".join(sorted(kinds)) or "?"), ok,
                "early return only for a non-composite parent type (reported elsewhere as SelectionOnInvalidType)",
                "check_fragment_spread_core returns before check_selection_set on the arm for parent kinds %s: the selection set of such a "
                "fragment is never validated (e.g. `node { ... on Node { nope } }` when both sides are the same interface)" % sorted(kinds), loc=core.loc())
    chains = [c for c in cfs.walk() if c.get("k") == "MethodCall" and c["method"] == "chain"]
    ok = bool(chains) and has_field(pv.atoms(chains[0]["args"][0]), A + "selection_set::FragmentSpread", "fragment_name")
    R.check("R03-b", "spread-stack-push", ok, "the spread's name is pushed on the stack passed down", "the fragment name is not added to seen_fragments", loc=cfs.loc())


def r03c(P, R, only_locations=False):
    scope = [P.fns[p] for p in checker_scope(P) if p.startswith((CK, "<" + CK))]
    sites = directive_sites(P, scope)
    R.floor("R03-c", "check_directives call sites (operations)", len(sites), 5)
    covered = set()
    for f, c, src, lits, table, atoms in sites:
        srcs = {(a.replace(A, ""), fld) for a, fld in src if a.startswith(A)}
        known = [s for s in srcs if s in EXEC_LOCATIONS]
        key = "dirloc:%s" % short(f.path)
        if not known:
            R.undecided("R03-c", key, "directives argument has provenance %s" % sorted(srcs), loc=f.loc())
            continue
        for kn in sorted(known):
            want = EXEC_LOCATIONS[kn]
            if lits == want:
                covered.add(kn)
            R.check("R03-c", "dirloc:%s.%s%s" % (kn[0].split("::")[-1], kn[1], "" if len(known) == 1 else "@" + short(f.path)), lits == want,
                    "location %s" % sorted(lits),
                    "%s checks `%s.directives` against location %s; the GraphQL spec location for that position is %s"
                    % (f.path, kn[0].split("::")[-1], sorted(lits), sorted(want)), loc=f.loc())
        known = sorted(known)
        if table is not None:
            for k, v in table.items():
                if k in OP_LOCATION:
                    R.check("R03-c", "dirloc:operation:%s" % k, v == OP_LOCATION[k], "%s -> %s" % (k, v),
                            "directives of a %s operation are checked against location %s" % (k, v), loc=f.loc())
        # variables in scope are passed for positions inside an operation
        if known[0][0] in ("selection_set::Field", "selection_set::FragmentSpread", "selection_set::InlineFragment", "operation::OperationDefinition"):
            pv = Prov(f)
            va = pv.atoms(c["args"][1])
            ok = ("param", "variables") in va or has_field(va, A + "operation::OperationDefinition", "variables_definition")
            R.check("R03-c", "dirvars:%s" % known[0][0].split("::")[-1], ok, "directive arguments are checked with the operation's variables in scope",
                    "%s checks directive arguments without the enclosing operation's variables" % f.path, loc=f.loc())
    if only_locations:
        return
    for pos, want in sorted(EXEC_LOCATIONS.items()):
        R.check("R03-c", "dircover:%s.%s" % (pos[0].split("::")[-1], pos[1]), pos in covered,
                "directives at this position are validated",
                "directives written on a %s are never passed to check_directives: unknown, misplaced or repeated directives there are accepted"
                % pos[0].split("::")[-1])
    # check_directives itself: existence, location, repetition, arguments
    cd = P.fn(CK + "common::check_directives")
    made = {norm(x.get("variant", "")).split("::")[-1] for x in cd.walk() if x.get("k") == "Struct" and "rest" not in x}
    for v in ("UnknownDirective", "DirectiveLocationNotAllowed", "RepeatedDirective"):
        R.check("R03-c", "directive-rule:" + v, v in made, "rule enforced", "check_directives never reports %s" % v, loc=cd.loc())
    R.check("R03-c", "directive-rule:arguments", CK + "common::check_arguments" in P.callees_of(cd)[0], "directive arguments are checked",
            "check_directives does not check the directive's arguments", loc=cd.loc())
    pv = Prov(cd)
    # location test compares the definition's locations with the current position
    alls = [c for c in cd.walk() if c.get("k") == "MethodCall" and c["method"] in ("all", "any", "contains")]
    ok = any(("param", "current_position") in pv.atoms(c) for c in alls)
    R.check("R03-c", "directive-rule:location-uses-position", ok, "location rule compares against the position passed in",
            "the location rule does not use `current_position`", loc=cd.loc())
    # repeatable: RepeatedDirective only when the definition is not repeatable
    reps = [(i, x) for i, (x, _) in enumerate(cd.nodes()) if x.get("k") == "Struct" and norm(x.get("variant", "")).endswith("RepeatedDirective")]
    ok = False
    for i, x in reps:
        for ctx in enclosing_contexts(cd, i):
            if ctx[0] == "if-then" and any(a[0] == "field" and a[2] == "repeatable" for a in pv.atoms(ctx[1]["cond"])):
                ok = True
    R.check("R03-c", "directive-rule:repeatable", ok, "repetition allowed only for repeatable directives",
            "RepeatedDirective is not conditional on the definition's `repeatable`", loc=cd.loc())


def r03d(P, R):
    """None from inout_kind_of_type must lead to a diagnostic (operation half)"""
    f = P.fn(CK + "operation_checker::check_variables_definition")
    none_handling(P, R, "R03-d", f)


def none_handling(P, R, rule, f):
    pv = Prov(f)
    acc = f.nodes()
    n = 0
    for i, (c, _) in enumerate(acc):
        if c.get("k") == "Call" and (call_name(c) or "") == CK + "types::inout_kind_of_type":
            n += 1
            # walk up through None-preserving combinators to the consumer
            cur, ci = c, i
            verdict = None
            detail = ""
            while True:
                pi = acc[ci][1]
                if pi < 0:
                    break
                p = acc[pi][0]
                k = p.get("k")
                if k == "MethodCall" and p.get("recv") is cur:
                    m = p["method"]
                    if m in ("map", "as_ref", "copied", "cloned", "filter", "and_then", "inspect"):
                        cur, ci = p, pi
                        continue
                    if m in ("is_some_and", "is_none_or", "unwrap_or", "unwrap_or_default", "map_or", "map_or_else", "unwrap_or_else", "is_some", "is_none", "unwrap", "expect"):
                        verdict, detail = False, "`.%s(..)` collapses the unknown-type case" % m
                    else:
                        verdict, detail = None, "consumer `%s`" % m
                    break
                if k == "Let" and p.get("init") is cur and p["pat"].get("k") == "Binding":
                    lid = p["pat"]["local"]
                    ms = [m for m in f.walk() if m.get("k") == "Match" and m["scrut"].get("k") == "Path" and m["scrut"].get("local") == lid]
                    if ms:
                        cur = ms[0]
                        verdict, detail = match_handles_none(ms[0])
                    break
                if k == "Match" and p.get("scrut") is cur:
                    verdict, detail = match_handles_none(p)
                    break
                if k in ("DropTemps", "Use", "AddrOf"):
                    cur, ci = p, pi
                    continue
                break
            key = "none:%s#%d" % (short(f.path), n)
            if verdict is None:
                R.undecided(rule, key, "unrecognised consumer of inout_kind_of_type (%s)" % detail, loc=f.loc())
            else:
                R.check(rule, key, verdict, "an undefined type name is reported (UnknownType)",
                        "%s: %s, so a reference to an undefined type is silently accepted" % (f.path, detail), loc=f.loc())
    return n


def match_handles_none(m):
    for arm in m["arms"]:
        v, catch = arm_variants({"arms": [arm]})
        if "None" in v:
            made = {norm(x.get("variant", "")).split("::")[-1] for x in subnodes(arm["body"]) if x.get("k") == "Struct" and "rest" not in x}
            if "UnknownType" in made:
                return True, "None arm reports UnknownType"
            return False, "the `None` arm reports nothing"
    return False, "the match has no `None` arm"


def r03e(P, R):
    """unknown-key guards: a counter compared with the number of provided keys may only count provided keys"""
    targets = []
    for p in checker_scope(P):
        f = P.fns[p]
        for i, (x, _) in enumerate(f.nodes()):
            if x.get("k") == "Struct" and "rest" not in x and norm(x.get("variant", "")).split("::")[-1] in ("UnknownArgument", "UnknownField"):
                targets.append((f, i, x))
    R.floor("R03-e", "unknown-key diagnostics", len(targets), 2)
    for f, i, x in targets:
        vname = norm(x["variant"]).split("::")[-1]
        guards = [c for c in enclosing_contexts(f, i) if c[0] == "if-then" and c[1]["cond"].get("k") == "Binary" and c[1]["cond"].get("op") in ("<", "!=", ">")]
        counters = [g[1]["cond"]["l"] for g in guards if g[1]["cond"]["l"].get("k") == "Path" and "local" in g[1]["cond"]["l"]]
        if not counters:
            R.holds("R03-e", "guard:" + vname, "%s is reported without a counting shortcut" % vname, loc=f.loc())
            continue
        lid = counters[0]["local"]
        incs = [(j, n) for j, (n, _) in enumerate(f.nodes()) if n.get("k") == "AssignOp" and n["l"].get("k") == "Path" and n["l"].get("local") == lid]
        bad = []
        for j, n in incs:
            arms = [c for c in enclosing_contexts(f, j) if c[0] == "arm"]
            in_some = any("Some" in arm_variants({"arms": [a[2]]})[0] for a in arms)
            in_none = any("None" in arm_variants({"arms": [a[2]]})[0] for a in arms)
            if in_none or not in_some:
                bad.append(n["s"][0])
        R.check("R03-e", "guard:" + vname, not bad and incs,
                "the counter `%s` only counts keys that were actually provided (%d increment(s), all in `Some` arms)" % (counters[0].get("name"), len(incs)),
                "%s: the counter `%s` that guards the %s report is also incremented when a key was NOT provided (line %s): with optional "
                "keys omitted, an unknown key is not detected" % (f.path, counters[0].get("name"), vname, bad), loc=f.loc())


# operation-rule diagnostics and the number of construction sites confirmed on the pinned tree (reference for later change)
OP_RULE_SITES = {
    "UnNamedOperationMustBeSingle": 1, "DuplicateOperationName": 1, "DuplicateFragmentName": 1, "NoRootType": 1,
    "SubscriptionMustHaveExactlyOneRootField": 1, "SelectionOnInvalidType": 1, "MustSpecifySelectionSet": 1, "FieldNotFound": 1,
    "DuplicatedVariableName": 1, "InvalidFragmentTarget": 1, "UnknownFragment": 1, "FragmentConditionNeverMatches": 6,
    "RecursingFragmentSpread": 1, "UnknownDirective": 1, "DirectiveLocationNotAllowed": 1, "RepeatedDirective": 1,
    "ArgumentsNotNeeded": 1, "RequiredArgumentNotSpecified": 1, "TypeMismatch": 1, "UnknownVariable": 1, "UnknownEnumMember": 1,
    "UnknownArgument": 1, "RequiredFieldNotSpecified": 1, "UnknownField": 1, "NoOutputType": 1, "UnknownType": 4,
}


def r03f(P, R):
    scope = checker_scope(P)
    counts = {}
    for p in scope:
        f = P.fns[p]
        for x in f.walk():
            if x.get("k") == "Struct" and "rest" not in x and norm(x.get("adt", "")) == ERR:
                counts[norm(x["variant"]).split("::")[-1]] = counts.get(norm(x["variant"]).split("::")[-1], 0) + 1
            elif x.get("k") == "Path" and norm(x.get("adt", "")) == ERR and x.get("dk", "").startswith("Ctor"):
                v = norm(x["def"]).split("::")[-1]
                counts[v] = counts.get(v, 0) + 1
    for v, need in sorted(OP_RULE_SITES.items()):
        got = counts.get(v, 0)
        R.check("R03-f", "live:" + v, got >= need, "%d construction site(s) reachable from check_operation_document" % got,
                "diagnostic %s is constructed at %d site(s) reachable from check_operation_document, %d were confirmed on the pinned tree: "
                "a rule instance was removed or is no longer reachable" % (v, got, need))
    # every diagnostic is pushed to the result vector (constructed and dropped = rule disabled)
    n_push = 0
    for p in scope:
        f = P.fns[p]
        if not f.path.startswith(CK):
            continue
        for i, (x, _) in enumerate(f.nodes()):
            if x.get("k") == "MethodCall" and x["method"] == "with_pos" and (call_name(x) or "").startswith(ERR):
                # must flow into `result.push(..)` (possibly through with_additional_info)
                acc = f.nodes()
                pi, cur = acc[i][1], x
                ok = False
                while pi >= 0:
                    pn = acc[pi][0]
                    if pn.get("k") == "MethodCall" and pn["method"] == "push" and any(a is cur for a in pn["args"]):
                        ok = True
                        break
                    if pn.get("k") == "MethodCall" and pn.get("recv") is cur and pn["method"] in ("with_additional_info",):
                        cur, pi = pn, acc[pi][1]
                        continue
                    if pn.get("k") in ("Call",) and any(a is cur for a in pn.get("args", [])) and (call_name(pn) or "").endswith(("Option::Some", "Result::Err")):
                        ok = True
                        break
                    break
                n_push += 1
                if not ok:
                    R.violated("R03-f", "pushed:%s:%d" % (short(f.path), x["s"][0]), "%s builds a diagnostic that is not pushed to the result" % f.path, loc=f.loc())
    R.holds("R03-f", "pushed:all", "%d positioned diagnostics, each pushed to the result vector" % n_push)
    R.floor("R03-f", "positioned diagnostics", n_push, 30)


def r03g(P, R):
    from c18 import gate
    gate(P, R, rule="R03-g")


def r03h(P, R):
    """recursion argument discipline in the typing helpers"""
    fns = [P.fns[p] for p in checker_scope(P)] + [f for f in P.fns.values() if f.path.startswith(CK + "types::")]
    seen = set()
    uniq = []
    for f in fns:
        if f.path not in seen:
            seen.add(f.path)
            uniq.append(f)
    n = recursion_discipline(P, R, "R03-h", uniq)
    R.floor("R03-h", "checked recursive argument positions", n, 6)


def r03i(P, R):
    """kind tables: which type kinds are composite (need/allow a selection set), and the two selection-set rules agree"""
    d = P.fn("nitrogql_semantics::direct_fields_of_output_type::direct_fields_of_output_type")
    ms = matches_on(d, "TypeDefinition")
    R.floor("R03-i", "kind match in direct_fields_of_output_type", len(ms), 1)
    for m in ms:
        tab = variant_table(m)
        some = {k for k, arm in tab.items() if k != "_" and any((call_name(x) or "").endswith("Option::Some") for x in subnodes(arm["body"]))}
        none = {k for k, arm in tab.items() if k != "_" and not any((call_name(x) or "").endswith("Option::Some") for x in subnodes(arm["body"]))}
        R.check("R03-i", "composite-kinds", some == COMPOSITE and none == LEAF_OR_INPUT and "_" not in tab,
                "fields can be selected on exactly Object, Interface and Union",
                "direct_fields_of_output_type yields fields for %s and none for %s; the composite kinds are %s" % (sorted(some), sorted(none), sorted(COMPOSITE)), loc=d.loc())
        # __typename meta field on all three
        for k in COMPOSITE & set(tab):
            pv = Prov(d)
            ok = has_call(pv.atoms(tab[k]["body"]), "get_typename_meta_field")
            R.check("R03-i", "typename:" + k, ok, "__typename is selectable on %s" % k, "%s types do not get the __typename meta field" % k, loc=d.loc())
    # the two selection-set rules use the same predicate
    for fname, variant in (("check_selection_set", "SelectionOnInvalidType"), ("check_selection_field", "MustSpecifySelectionSet")):
        f = P.fn(CK + "operation_checker::" + fname)
        pv = Prov(f)
        sites = [(i, x) for i, (x, _) in enumerate(f.nodes()) if x.get("k") == "Struct" and "rest" not in x and norm(x.get("variant", "")).endswith(variant)]
        R.floor("R03-i", variant + " sites", len(sites), 1)
        for i, x in sites:
            guards = []
            for c in enclosing_contexts(f, i):
                if c[0] in ("if-then", "if-else"):
                    guards.append(pv.atoms(c[1]["cond"]))
                elif c[0] == "let-else":
                    guards.append(pv.atoms(c[1].get("init")))
            ok = any(has_call(g, "direct_fields_of_output_type") for g in guards)
            kinds = any(any(a[0] == "def" and TD in a[1] for a in g) or any(a[0] == "variant" and TD in str(a[1]) for a in g) for g in guards)
            R.check("R03-i", "selection-predicate:" + variant, ok and not kinds,
                    "%s is decided by direct_fields_of_output_type (the shared composite-kind predicate)" % variant,
                    "%s is guarded by an ad-hoc kind test instead of direct_fields_of_output_type: the two selection-set rules can disagree "
                    "about which kinds are composite (e.g. union-typed fields)" % variant, loc=f.loc())
    # fragment targets must be composite
    cfd = P.fn(CK + "operation_checker::check_fragment_definition")
    found = False
    for m in matches_on(cfd, "TypeDefinition"):
        v, catch = arm_variants(m)
        found = True
        R.check("R03-i", "fragment-target-kinds", v == COMPOSITE, "fragment targets: Object, Interface, Union",
                "check_fragment_definition accepts fragment targets of kinds %s" % sorted(v), loc=cfd.loc())
    R.check("R03-i", "fragment-target-kinds:present", found, "kind test present", "check_fragment_definition has no kind test", loc=cfd.loc())
    # is_value_compatible_type_def: output kinds are never inputs
    iv = P.fn(CK + "common::is_value_compatible_type_def")
    for m in matches_on(iv, "TypeDefinition"):
        tab = variant_table(m)
        R.check("R03-i", "input-literal-kinds", set(tab) - {"_"} == COMPOSITE | LEAF_OR_INPUT and "_" not in tab,
                "all six kinds handled for literal typing", "literal typing handles kinds %s" % sorted(tab), loc=iv.loc())
        for k in COMPOSITE & set(tab):
            same_arm = tab[k]
            lits = [x.get("v") for x in subnodes(same_arm["body"]) if x.get("k") == "Lit" and x.get("lk") == "bool"]
            R.check("R03-i", "output-kind-rejects-literal:" + k, lits[:1] == [False], "%s never accepts an input literal" % k,
                    "a literal is accepted for output kind %s" % k, loc=iv.loc())


def r03j(P, R):
    """document-scoped rules: the lone-anonymous count ranges over all operations; no validation step is skipped on the strength
    of mutable state whose key omits an input of the skipped work"""
    e = entry(P)
    pv = Prov(e)
    sites = [i for i, (x, _) in enumerate(e.nodes()) if x.get("k") == "Path" and norm(x.get("ctor_of", "")) == ERR + "::UnNamedOperationMustBeSingle"]
    R.floor("R03-j", "UnNamedOperationMustBeSingle sites", len(sites), 1)
    OD = A + "operation::OperationDefinition"
    for i in sites:
        ctx = enclosing_contexts(e, i)
        ifs = [c for c in ctx if c[0] == "if-then"]
        arms = [c for c in ctx if c[0] == "arm" and c[1] is not None]
        anon = any(has_field(pv.atoms(m["scrut"]), OD, "name") and short(arm["pat"].get("def", "") or arm["pat"].get("ctor_of", "")).endswith("None") for _, m, arm in arms)
        R.check("R03-j", "lone-anonymous:branch", anon, "reported from the `name == None` arm",
                "UnNamedOperationMustBeSingle is not raised from the anonymous-operation arm", loc=e.loc())
        if not ifs:
            R.violated("R03-j", "lone-anonymous:guard", "UnNamedOperationMustBeSingle is not guarded by a count comparison", loc=e.loc())
            continue
        cond = ifs[0][1]["cond"]
        a = pv.atoms(cond)
        # transitive source expressions of the condition (locals followed to their initialisers)
        nodes, todo, seen = [], [cond], set()
        while todo:
            n = todo.pop()
            for y in subnodes(n):
                nodes.append(y)
                if y.get("k") == "Path" and "local" in y and y["local"] not in seen:
                    seen.add(y["local"])
                    todo.extend(src for src, _ in pv.src.get(y["local"], []) if src is not None)
        pats = {norm(y.get("ctor_of") or y.get("def") or "").split("::")[-1] for y in nodes if y.get("k") in ("TupleStruct", "Struct", "Path") and (A + "operation::ExecutableDefinition") in norm(y.get("ctor_of") or y.get("def") or "")}
        op_fields = sorted(x[2] for x in a if x[0] == "field" and x[1] == OD)
        lits = {str(x[1]) for x in a if x[0] == "lit"}
        ok = (cond.get("k") == "Binary" and cond.get("op") in ("!=", ">") and "1" in lits and has_call(a, "count")
              and has_field(a, A + "operation::OperationDocument", "definitions") and pats == {"OperationDefinition"} and not op_fields)
        R.check("R03-j", "lone-anonymous:count", ok,
                "anonymous operation is reported unless the count of *all* OperationDefinition entries of document.definitions is 1",
                "the guard of UnNamedOperationMustBeSingle is `%s` over a count that matches %s and reads OperationDefinition fields %s: "
                "it is not the number of all operations in the document, so an anonymous operation next to other operations can pass"
                % (cond.get("op"), sorted(pats), op_fields), loc=e.loc())
    # memoisation / state-dependent skipping
    scope = [P.fns[p] for p in checker_scope(P) if p.startswith((CK, "<" + CK))]
    const = constant_params(P, e, scope)
    n_guards = 0
    for f in scope:
        sg = stateful_guards(f)
        if not sg:
            continue
        fpv = Prov(f)
        for i, g, t, blocks in sg:
            n_guards += 1
            missing, key, holder = memo_key_gaps(f, g, fpv)
            cnames = {fpv.params.get(f.params[j]["local"]) for j in const.get(f.path, ()) if f.params[j].get("k") == "Binding"}
            missing = [m for m in missing if m not in cnames]
            exits = any(y.get("k") in ("Ret", "Continue", "Break") for b in blocks for y in subnodes(b))
            ident = "state-guard:%s" % short(f.path)
            if missing:
                R.violated("R03-j", ident, "%s branches on mutable state (%s) keyed by %s%s; the skipped validation also depends on %s, "
                           "so a construct can escape checking because a different context was checked first"
                           % (f.path, t[:60], key or "nothing", " and exits early" if exits else "", missing), loc=f.loc())
            else:
                R.holds("R03-j", ident, "state-dependent guard whose key covers every non-constant input (%s)" % key)
    R.count("state-dependent guards in the checker", n_guards)
    R.holds("R03-j", "stateless-walk", "%d checker functions scanned; %d guards read interior-mutable or &mut state" % (len(scope), n_guards))
    # positive control
    import harness as H
    from facts import Program
    SC = Program(H.selfcheck_facts())
    mf = SC.fn("selfcheck::memo_walk")
    sg = stateful_guards(mf)
    miss = memo_key_gaps(mf, sg[0][1], Prov(mf))[0] if sg else None
    R.check("R03-pc", "memo-detector", bool(sg) and miss == ["vars"], "the memo-key detector reports selfcheck::memo_walk (missing: vars)",
            "positive control not reported: %s" % (miss,))


def _r04c(P, R):
    # AreTypesCompatible table (shared with C04): a too-permissive row is a C03 violation, a too-strict one a C04 violation
    from c04 import r04c
    r04c(P, R)


RULES = [("R03-a", r03a), ("R03-b", r03b), ("R03-c", r03c), ("R03-d", r03d), ("R03-e", r03e), ("R03-f", r03f), ("R03-j", r03j),
         ("R03-g", r03g), ("R03-h", r03h), ("R03-i", r03i), ("R04-c", _r04c)]
EXPLANATION = (
    "`check` applies every implemented rule at every position it governs, decided for all documents: (R03-a) non-interference — "
    "every content field of the executable AST is read by a function reachable from check_operation_document and the sum types are "
    "matched exhaustively; (R03-b) fragment bodies reach the selection checker from the definition arm, spreads carry a cycle stack; "
    "(R03-c) every AST position that can carry directives is passed to check_directives with exactly its spec location and with the "
    "operation's variables in scope, and check_directives enforces existence/location/repetition/arguments; (R03-d) an undefined "
    "variable type is reported; (R03-e) unknown-key counters count only provided keys; (R03-f) every operation-rule diagnostic keeps "
    "its construction sites reachable and pushed; (R03-g) generate runs printers only on a context built from a successful check; "
    "(R03-h) recursive typing helpers pass each parameter's component in its own position; (R03-i) composite-kind tables and the "
    "agreement of the two selection-set rules. Not decided: exactness of each rule's predicate on values.")
ASSUMPTIONS = ["GraphQL spec (October 2021) directive locations and type kinds, transcribed by hand",
               "graphql_type_system::Schema lookups (get_type/get_directive) are exact"]


def main(tier):
    return harness.run_property("C03", RULES, "other", EXPLANATION, ASSUMPTIONS, tier)
