"""C03 — `check` accepts no operation that violates an implemented validation rule.

Decides "every implemented rule is applied at every syntactic position it governs" plus several finite tables;
does not decide the value-level exactness of each rule's predicate.

How the rules stay indifferent to behaviour-preserving refactorings (shared with c04/c05 through this module):
* anchors: by name, else by role (`role_fn`: signature types, diagnostic constructed, callers); parameters by type/position;
  AST / type-system fields by name, and a name that no longer exists is UNDECIDED (`anchors_present`), never a violation;
* tables (which kinds take which action) are read by abstract evaluation over kinds (`KindEval`): any spelling of the control flow
  (`match`, `if let`, `let else`, `matches!`, early return, labelled block, helper function, loop or iterator adaptor) gives the
  same paths, and a row is VIOLATED only if all its paths agree on the wrong action;
* "derives from" questions use provenance that also follows `push`/`extend`/`insert` (`MProv`), helpers (`deep_atoms`, `inlined`)
  and, across functions, the callers' arguments and the fillers of checker-internal structs (`origin`);
* a diagnostic is followed to where it ends up (`diag_flow`): VIOLATED only if it is positively discarded.
"""
import harness
from facts import norm, call_name, short, subnodes, matches_on, arm_variants, peel_ty, str_lits_in, field_reads
from prov import Prov, has_field, has_call
from templates import field_coverage, enclosing_contexts, variant_table, arm_value, inlined, scope_fns

CK = "nitrogql_checker::"
A = "nitrogql_ast::"
ERR = CK + "error::CheckErrorMessage"
TD = "graphql_type_system::definitions::TypeDefinition"

EXEC_AST = [
    "operation::OperationDocument", "operation::OperationDefinition", "operation::FragmentDefinition",
    "variable::VariablesDefinition", "variable::VariableDefinition", "variable::Variable",
    "selection_set::SelectionSet", "selection_set::Field", "selection_set::FragmentSpread",
    "selection_set::InlineFragment", "directive::Directive", "value::Arguments",
    "value::EnumValue", "value::ListValue", "value::ObjectValue",
    "type::NamedType", "type::NonNullType", "type::ListType", "base::Ident",
]
EXEMPT = {
    ("selection_set::Field", "alias"): "no implemented rule governs response-key merging (field selection merging is not implemented)",
}

# spec directive locations per AST position (GraphQL spec §3.13): (ADT, field) -> location literal(s)
EXEC_LOCATIONS = {
    ("operation::OperationDefinition", "directives"): {"QUERY", "MUTATION", "SUBSCRIPTION"},
    ("selection_set::Field", "directives"): {"FIELD"},
    ("selection_set::FragmentSpread", "directives"): {"FRAGMENT_SPREAD"},
    ("selection_set::InlineFragment", "directives"): {"INLINE_FRAGMENT"},
    ("variable::VariableDefinition", "directives"): {"VARIABLE_DEFINITION"},
    ("operation::FragmentDefinition", "directives"): {"FRAGMENT_DEFINITION"},
}
OP_LOCATION = {"Query": "QUERY", "Mutation": "MUTATION", "Subscription": "SUBSCRIPTION"}

COMPOSITE = {"Object", "Interface", "Union"}
LEAF_OR_INPUT = {"Scalar", "Enum", "InputObject"}


def entry(P):
    return P.fn(CK + "operation_checker::check_operation_document")


def checker_scope(P):
    reach = P.reachable([entry(P)])
    return sorted(p for p in reach if not P.fns[p].derived)


# ------------------------------------------------------------------------------------------------ anchors by role
# Every anchor is looked up by its name first (P.fn also follows a function moved to another module).  When the name is gone —
# the function was renamed or became a method of a new type — the anchor is the unique function that plays the same *role*:
# its signature types, the diagnostic it constructs, what it calls.  No role or several candidates -> AnchorMissing -> UNDECIDED.
T_SELSET = A + "selection_set::SelectionSet"
T_TYPEDEF = "graphql_type_system::definitions::TypeDefinition<"
T_TYPE = "graphql_type_system::type::Type<"
T_VALUE = A + "value::Value"


def _sig(f):
    return [(t or "").replace(" ", "") for t in f.sig_inputs]


def _takes(f, needle, direct=True):
    """number of parameters whose type mentions `needle` (direct: as `&T`/`T`/`Option<&T>`, not as the value type of a map)"""
    n = 0
    for t in _sig(f):
        if needle not in t:
            continue
        if direct and ("HashMap<" in t or "BTreeMap<" in t or "Vec<" in t or t.startswith("&[")):
            continue
        n += 1
    return n


def constructs(f, variant):
    """does `f` build the diagnostic `variant` (struct-like or unit-like variant of CheckErrorMessage)?"""
    for x in f.walk():
        if x.get("k") == "Struct" and "rest" not in x and norm(x.get("variant", "")) == ERR + "::" + variant:
            return True
        if x.get("k") == "Path" and norm(x.get("ctor_of") or "") == ERR + "::" + variant and "Ctor" in x.get("dk", ""):
            return True
    return False


ROLES = {
    # name suffix -> role predicate
    CK + "operation_checker::check_selection_set":
        lambda P, f: _takes(f, T_SELSET) == 1 and _takes(f, T_TYPEDEF) == 1 and bool(_selection_matches(f)),
    CK + "operation_checker::check_selection_field":
        lambda P, f: _takes(f, A + "selection_set::Field") == 1 and f.crate == "nitrogql_checker",
    CK + "operation_checker::check_fragment_spread":
        lambda P, f: _takes(f, A + "selection_set::FragmentSpread") == 1 and f.crate == "nitrogql_checker",
    CK + "operation_checker::check_inline_fragment":
        lambda P, f: _takes(f, A + "selection_set::InlineFragment") == 1 and f.crate == "nitrogql_checker",
    CK + "operation_checker::check_fragment_spread_core":
        lambda P, f: _takes(f, T_SELSET) == 1 and _takes(f, T_TYPEDEF) == 2,
    CK + "operation_checker::check_fragment_definition":
        lambda P, f: _takes(f, A + "operation::FragmentDefinition") == 1 and f.crate == "nitrogql_checker" and f.path in P.reachable([entry(P)]),
    CK + "operation_checker::check_operation":
        lambda P, f: _takes(f, A + "operation::OperationDefinition") == 1 and f.crate == "nitrogql_checker" and f.path in P.reachable([entry(P)]),
    CK + "operation_checker::check_variables_definition":
        lambda P, f: any(t == "&" + A + "variable::VariablesDefinition" for t in _sig(f)) and f.crate == "nitrogql_checker"
        and f.path.startswith(CK + "operation_checker"),
    CK + "common::check_directives": lambda P, f: constructs(f, "UnknownDirective"),
    CK + "common::check_arguments": lambda P, f: constructs(f, "RequiredArgumentNotSpecified"),
    CK + "common::check_value":
        lambda P, f: _takes(f, T_VALUE) == 1 and _takes(f, T_TYPE) == 1 and f.sig_output in ("()", None)
        and f.path in P.callees_of(role_fn(P, CK + "common::check_arguments"))[0],
    CK + "common::is_value_compatible_type_def":
        lambda P, f: _takes(f, T_VALUE) == 1 and _takes(f, T_TYPEDEF) == 1 and f.crate == "nitrogql_checker",
    CK + "common::check_type_compatibility":
        lambda P, f: _takes(f, T_TYPE) == 2 and len(f.params) == 2 and f.sig_output == "bool" and f.crate == "nitrogql_checker",
    CK + "common::get_variable_definition":
        lambda P, f: "variable::VariableDefinition" in (f.sig_output or "") and _takes(f, A + "variable::Variable") >= 1
        and f.crate == "nitrogql_checker",
    "nitrogql_semantics::direct_fields_of_output_type::direct_fields_of_output_type":
        lambda P, f: f.crate == "nitrogql_semantics" and _takes(f, T_TYPEDEF) == 1 and len(f.params) == 1
        and (f.sig_output or "").startswith("core::option::Option<") and "definitions::Field<" in (f.sig_output or ""),
    "nitrogql_semantics::direct_fields_of_output_type::get_typename_meta_field":
        lambda P, f: f.crate == "nitrogql_semantics" and not f.params and "definitions::Field<" in (f.sig_output or "")
        and "__typename" in str_lits_in(f.body),
}


def _selection_matches(f):
    """patterns of `f` that tell the kinds of selection apart"""
    return [x for x in f.walk() if x.get("k") in ("TupleStruct", "Struct", "PatExpr") and norm(x.get("ctor_of") or x.get("def") or "").startswith(A + "selection_set::Selection::")]


def role_fn(P, name):
    """the anchor `name` (by name, else by role)"""
    from facts import AnchorMissing
    try:
        f = P.fn(name, required=False)
    except AnchorMissing:
        f = None
    if f is not None:
        return f
    pred = ROLES.get(name)
    if pred is None:
        raise AnchorMissing("function `%s` not found" % name)
    cands = []
    for g in P.fns.values():
        if g.kind not in ("Fn", "AssocFn") or g.derived or "::tests::" in g.path:
            continue
        try:
            if pred(P, g):
                cands.append(g)
        except AnchorMissing:
            raise
        except Exception:
            continue
    if len(cands) == 1:
        return cands[0]
    named = [g for g in cands if g.name == name.split("::")[-1]]
    if len(named) == 1:
        return named[0]      # several functions share the role (a piece was split off): the one that kept the name
    raise AnchorMissing("function `%s` not found by name, and %d functions have its role%s"
                        % (name, len(cands), (" " + str(sorted(short(c.path) for c in cands))) if cands else ""))


# ----------------------------------------------------------------------------------------- provenance with mutation
MUTATORS = {"push", "push_back", "push_front", "push_str", "insert", "extend", "extend_from_slice", "append", "add", "entry",
            "or_insert", "or_insert_with", "write_str", "write_fmt", "resize", "fill", "set", "replace", "get_or_insert_with"}


class MProv(Prov):
    """Prov that also lets a local derive from what is *put into it* through a mutating method (`v.push(x)`,
    `v.extend(it)`, `set.insert(k)`): building a collection step by step instead of by one expression must not lose the
    dependency, and "atom absent" stays positive evidence."""

    def _scan(self, node):
        Prov._scan(self, node)
        for n in subnodes(node) if isinstance(node, dict) else []:
            if n.get("k") == "MethodCall" and n.get("method") in MUTATORS and n.get("args"):
                base = n["recv"]
                while base.get("k") in ("AddrOf", "Unary", "Field", "Index", "DropTemps"):
                    base = base["e"]
                if base.get("k") == "Path" and "local" in base:
                    for a in n["args"]:
                        self.src.setdefault(base["local"], []).append((a, frozenset()))


# ------------------------------------------------------------------------------------------ abstract kind evaluation
class TooComplex(Exception):
    pass


def V(name):
    return ("v", name)


B_TRUE, B_FALSE, UNIT = ("b", True), ("b", False), ("u",)


class KindEval:
    """Evaluate function bodies over *kinds*: enum values are known up to their variant (`("v", name)`), booleans and string
    literals exactly, tuples element-wise, everything else is unknown (None).  Control flow is followed exactly where the
    scrutinee / condition is known and forked where it is not, so the result of `run` is the set of abstract paths with, per
    path, the ordered *events* met (calls, diagnostic constructions, assumptions made at unknown conditions) and the returned
    value.  `match`, `if let`, `let else`, `matches!`, early `return`, labelled blocks, `?`, loops (0 or 1 iteration), closures
    passed to adaptors (0 or 1 call) and calls of non-recursive workspace helpers (entered) are all just control flow here — a
    table read off the paths does not depend on which of these spellings the code uses.
    Over-approximation: every concrete execution is represented by some path; a path may be infeasible."""

    MAX_STEPS = 400000
    MAX_STATES = 6000

    def __init__(self, P, want=None, enter=None, seeds=(), force=None):
        self.P = P
        self.force = force or {}       # id(expression node) -> abstract value it is assumed to have
        self.want = want or (lambda ev: True)
        self.enter = enter
        self.seeds = list(seeds)       # [(type prefix, abstract value)] for unknown expressions of that type
        self.node = {}                 # id -> (node, Fn) for the events
        self.unit_variants = set()     # names of payload-free variants met as expressions
        self.closures = {}             # id -> (closure node, Fn) of closures met as values
        self.frames = []               # (call node, caller Fn) of the callees being evaluated
        self.ctx = {}                  # id(event node) -> set of frame chains under which the event was emitted
        self.in_closure = []
        self.stack = []
        self.steps = 0
        self._reach = {}

    # ---- public
    def run(self, fn, params=None, by_local=None):
        """-> [(value, events, node that produced the value)] over all paths that return normally (panicking paths are dropped)"""
        env = dict(by_local or {})
        for i, v in (params or {}).items():
            p = fn.params[i]
            if p.get("k") == "Binding":
                env[p["local"]] = v
        res = []
        for o in self._body(fn, env, ()):
            if o[0] in ("ok", "ret"):
                res.append((o[1], o[4], o[2]))
        return _dedupe_res(res)

    def run_expr(self, fn, expr, by_local=None):
        """the values one expression of `fn` can take -> [(value, events, node)]"""
        self.stack.append(fn)
        try:
            outs = self.ev(expr, dict(by_local or {}), ())
        finally:
            self.stack.pop()
        return _dedupe_res([(o[1], o[4], o[2]) for o in outs if o[0] == "ok"])

    def event_node(self, ev):
        return self.node[ev[2]]

    def event_atoms(self, ev, provs, deep=True):
        """provenance of the expression of an event, with the parameters of entered callees resolved to the arguments of the calls
        through which the evaluation reached it (a decision taken inside a helper on a value computed by its caller)"""
        node, fn = self.node[ev[2]]

        def pv_of(f):
            if f.path not in provs:
                provs[f.path] = MProv(f)
            return provs[f.path]

        def atoms_in(f, expr, chain):
            pv = pv_of(f)
            out = set(pv.deep_atoms(expr) if deep else pv.atoms(expr))
            if not chain:
                return out
            call_id, caller_path = chain[-1]
            call = self.node[call_id][0]
            caller = self.P.fns.get(caller_path)
            if caller is None:
                return out
            args = all_args(call)
            for a in list(out):
                if a[0] == "param":
                    idx = [i for i, p in enumerate(f.params) if p.get("k") == "Binding" and pv.params.get(p["local"]) == a[1]]
                    if idx and idx[0] < len(args):
                        out |= atoms_in(caller, args[idx[0]], chain[:-1])
            return out
        chains = self.ctx.get(ev[2]) or {()}
        res = set()
        for chain in chains:
            res |= atoms_in(fn, node, chain)
        return res

    # ---- machinery
    def _body(self, fn, env, evs):
        self.stack.append(fn)
        try:
            return self.ev(fn.body, env, evs)
        finally:
            self.stack.pop()

    def _emit(self, evs, kind, name, node, extra=None):
        ev = (kind, name, id(node), extra)
        if not self.want(ev):
            return evs
        self.node[id(node)] = (node, self.stack[-1])
        if self.frames:
            self.ctx.setdefault(id(node), set()).add(tuple(self.frames))
        return evs + (ev,)

    def _seed(self, n):
        t = n.get("t")
        if not t:
            return None
        t = peel_ty(t)
        while t.startswith(("graphql_type_system::node::Node<", "alloc::boxed::Box<", "alloc::borrow::Cow<")):
            t = peel_ty(t[t.index("<") + 1:])
        for prefix, val in self.seeds:
            if t == prefix or t.startswith(prefix + "<"):
                return val
        return None

    def ev(self, n, env, evs):
        """-> [(status, value, src node, env, events, label)]; status: ok | ret | brk | cont | div"""
        self.steps += 1
        if self.steps > self.MAX_STEPS:
            raise TooComplex("more than %d evaluation steps" % self.MAX_STEPS)
        if self.force and id(n) in self.force:
            return [("ok", self.force[id(n)], n, env, evs, None)]
        m = getattr(self, "_" + str(n.get("k")), None)
        outs = m(n, env, evs) if m else self._generic(n, env, evs)
        if self.seeds:
            seeded = None
            for i, o in enumerate(outs):
                if o[0] == "ok" and o[1] is None:
                    if seeded is None:
                        seeded = self._seed(n) or False
                    if seeded:
                        outs[i] = ("ok", seeded, o[2], o[3], o[4], None)
        if len(outs) > 1:
            outs = _dedupe(outs)
            if len(outs) > self.MAX_STATES:
                raise TooComplex("more than %d abstract states" % self.MAX_STATES)
        return outs

    def _seq(self, nodes, env, evs):
        """evaluate expressions in order -> (normal [(values, env, evs)], abnormal outs)"""
        states, abn = [((), env, evs)], []
        for x in nodes:
            nxt = []
            for vals, e, v in states:
                for o in (self._closure_arg(x, e, v) if x.get("k") == "Closure" else self.ev(x, e, v)):
                    if o[0] == "ok":
                        nxt.append((vals + (o[1],), o[3], o[4]))
                    else:
                        abn.append(o)
            states = _dedupe_states(nxt)
            if len(states) > self.MAX_STATES:
                raise TooComplex("more than %d abstract states" % self.MAX_STATES)
        return states, abn

    def _generic(self, n, env, evs):
        kids = [c for c in _children(n)]
        states, abn = self._seq(kids, env, evs)
        return [("ok", None, n, e, v, None) for _, e, v in states] + abn

    # ---- leaves
    def _Lit(self, n, env, evs):
        v = n.get("v")
        if n.get("lk") == "bool":
            return [("ok", ("b", bool(v)), n, env, evs, None)]
        if n.get("lk") == "str":
            return [("ok", ("s", v), n, env, evs, None)]
        return [("ok", None, n, env, evs, None)]

    def _Path(self, n, env, evs):
        if "local" in n:
            return [("ok", env.get(n["local"]), n, env, evs, None)]
        if "Ctor(Variant" in n.get("dk", "") and "Const" in n.get("dk", ""):
            d = norm(n.get("ctor_of") or n.get("def") or "")
            if d.startswith(ERR + "::"):
                evs = self._emit(evs, "ctor", d, n)
            self.unit_variants.add(d.split("::")[-1])
            return [("ok", V(d.split("::")[-1]), n, env, evs, None)]
        return [("ok", None, n, env, evs, None)]

    def _pass(self, n, env, evs):
        return self.ev(n["e"], env, evs)

    _AddrOf = _DropTemps = _Use = _Cast = _Type = _pass

    def _Unary(self, n, env, evs):
        outs = []
        for o in self.ev(n["e"], env, evs):
            if o[0] != "ok":
                outs.append(o)
            elif n.get("op") == "Not":
                v = o[1]
                outs.append(("ok", ("b", not v[1]) if v and v[0] == "b" else None, n, o[3], o[4], None))
            elif n.get("op") == "Deref":
                outs.append(o)
            else:
                outs.append(("ok", None, n, o[3], o[4], None))
        return outs

    def _Binary(self, n, env, evs):
        op = n.get("op")
        outs = []
        if op in ("&&", "||"):
            short_val = B_FALSE if op == "&&" else B_TRUE
            for o in self.ev(n["l"], env, evs):
                if o[0] != "ok":
                    outs.append(o)
                    continue
                if o[1] == short_val:
                    outs.append(("ok", short_val, n, o[3], o[4], None))
                elif o[1] is not None and o[1][0] == "b":
                    outs.extend(self.ev(n["r"], o[3], o[4]))
                else:
                    outs.append(("ok", short_val, n, o[3], self._emit(o[4], "assume", short_val[1], n["l"]), None))
                    outs.extend(self.ev(n["r"], o[3], self._emit(o[4], "assume", not short_val[1], n["l"])))
            return outs
        states, abn = self._seq([n["l"], n["r"]], env, evs)
        for (a, b), e, v in states:
            val = None
            if op in ("==", "!=") and a is not None and b is not None and a[0] == b[0]:
                if a[0] in ("s", "b"):
                    val = ("b", (a[1] == b[1]) == (op == "=="))
                elif a[0] == "v" and (a[1] != b[1] or a[1] in self.unit_variants):
                    # different variants are different values; the same payload-free variant is the same value
                    val = ("b", (a[1] == b[1]) == (op == "=="))
            outs.append(("ok", val, n, e, v, None))
        return outs + abn

    def _Tup(self, n, env, evs):
        states, abn = self._seq(n.get("es", []), env, evs)
        return [("ok", ("t", vals), n, e, v, None) for vals, e, v in states] + abn

    def _Struct(self, n, env, evs):
        if "rest" in n:   # a pattern reached through a generic walk
            return [("ok", None, n, env, evs, None)]
        kids = [f["e"] for f in n.get("fields", []) if isinstance(f, dict) and "e" in f]
        if isinstance(n.get("base"), dict):
            kids.append(n["base"])
        states, abn = self._seq(kids, env, evs)
        var = norm(n.get("variant") or "")
        is_variant = bool(var) and var != norm(n.get("adt") or "")
        names = [f.get("name") for f in n.get("fields", []) if isinstance(f, dict) and "e" in f]
        outs = []
        for vals, e, v in states:
            # an enum value is known by its variant; a plain struct by the known values of its fields
            val = V(var.split("::")[-1]) if is_variant else ("r", tuple(sorted((nm, x) for nm, x in zip(names, vals) if x is not None)))
            outs.append(("ok", val, n, e, self._emit(v, "ctor", var or norm(n.get("adt") or ""), n), None))
        return outs + abn

    def _Field(self, n, env, evs):
        outs = []
        for o in self.ev(n["e"], env, evs):
            if o[0] != "ok":
                outs.append(o)
                continue
            v, val = o[1], None
            if v is not None and v[0] == "r":
                val = dict(v[1]).get(n.get("field"))
            elif v is not None and v[0] == "t" and str(n.get("field", "")).isdigit() and int(n["field"]) < len(v[1]):
                val = v[1][int(n["field"])]
            outs.append(("ok", val, n, o[3], o[4], None))
        return outs

    def _Closure(self, n, env, evs):
        # a closure *value* that is not an argument of a call: body not run here, but remembered — a later call of the local it is
        # bound to runs it (`let report = |names| ..; report(x)`)
        self.closures[id(n)] = (n, self.stack[-1])
        return [("ok", ("c", id(n)), n, env, evs, None)]

    def _closure_arg(self, n, env, evs):
        """a closure handed to a call may be run by it: not at all, or once (parameters unknown)"""
        outs = [("ok", None, n, env, evs, None)]
        e2 = dict(env)
        for p in n.get("params", []):
            _, e2 = self._test(p, None, e2)
        seen = {evs}
        for o in self.ev(n["body"], e2, evs):
            if o[0] in ("ok", "ret") and o[4] not in seen:
                seen.add(o[4])
                outs.append(("ok", None, n, env, o[4], None))
        return outs

    # ---- statements and blocks
    def _BlockExpr(self, n, env, evs):
        outs = self._Block(n["b"], env, evs)
        lbl = n.get("label")
        if lbl:
            outs = [("ok", o[1], o[2], o[3], o[4], None) if (o[0] == "brk" and o[5] == lbl) else o for o in outs]
        return outs

    def _Block(self, b, env, evs):
        states, done = [(env, evs)], []
        for s in b.get("stmts", []):
            nxt = []
            for e, v in states:
                for o in self.ev(s, e, v):
                    if o[0] == "ok":
                        nxt.append((o[3], o[4]))
                    else:
                        done.append(o)
            states = _dedupe_states2(nxt)
            if len(states) > self.MAX_STATES:
                raise TooComplex("more than %d abstract states" % self.MAX_STATES)
        for e, v in states:
            if "tail" in b:
                done.extend(self.ev(b["tail"], e, v))
            else:
                done.append(("ok", UNIT, b, e, v, None))
        return done

    def _Stmt(self, n, env, evs):
        return [(o[0], UNIT if o[0] == "ok" else o[1], o[2], o[3], o[4], o[5]) for o in self.ev(n["e"], env, evs)]

    def _Let(self, n, env, evs):
        if "init" not in n:
            return [("ok", UNIT, n, env, evs, None)]
        outs = []
        for o in self.ev(n["init"], env, evs):
            if o[0] != "ok":
                outs.append(o)
                continue
            res, e2 = self._test(n["pat"], o[1], o[3])
            if "els" not in n or res is True:
                outs.append(("ok", UNIT, n, e2, o[4], None))
            elif res is False:
                outs.extend(self._Block(n["els"], o[3], o[4]))
            else:
                outs.append(("ok", UNIT, n, e2, self._emit(o[4], "assume", True, n["init"]), None))
                outs.extend(self._Block(n["els"], o[3], self._emit(o[4], "assume", False, n["init"])))
        return outs

    def _LetExpr(self, n, env, evs):
        outs = []
        for o in self.ev(n["init"], env, evs):
            if o[0] != "ok":
                outs.append(o)
                continue
            res, e2 = self._test(n["pat"], o[1], o[3])
            if res is True:
                outs.append(("ok", B_TRUE, n, e2, o[4], None))
            elif res is False:
                outs.append(("ok", B_FALSE, n, o[3], o[4], None))
            else:
                outs.append(("ok", B_TRUE, n, self._refine(n["init"], n["pat"], e2), self._emit(o[4], "assume", True, n), None))
                outs.append(("ok", B_FALSE, n, o[3], self._emit(o[4], "assume", False, n), None))
        return outs

    def _If(self, n, env, evs):
        outs = []
        for o in self.ev(n["cond"], env, evs):
            if o[0] != "ok":
                outs.append(o)
                continue
            v = o[1]
            known = v is not None and v[0] == "b"
            if not known or v[1]:
                outs.extend(self.ev(n["then"], o[3], o[4] if known else self._emit(o[4], "assume", True, n["cond"])))
            if not known or not v[1]:
                v2 = o[4] if known else self._emit(o[4], "assume", False, n["cond"])
                if "else" in n:
                    outs.extend(self.ev(n["else"], o[3], v2))
                else:
                    outs.append(("ok", UNIT, n, o[3], v2, None))
        return outs

    def _Match(self, n, env, evs):
        outs = []
        for o in self.ev(n["scrut"], env, evs):
            if o[0] != "ok":
                outs.append(o)
                continue
            pending = [(o[3], o[4])]
            for ai, arm in enumerate(n["arms"]):
                nxt = []
                for e, v in pending:
                    res, e2 = self._test(arm["pat"], o[1], e)
                    if res is False:
                        nxt.append((e, v))
                        continue
                    if res is None:
                        e2 = self._refine(n["scrut"], arm["pat"], e2)
                    takes = []
                    if "guard" in arm:
                        for g in self.ev(arm["guard"], e2, v):
                            if g[0] != "ok":
                                outs.append(g)
                            elif g[1] == B_TRUE:
                                takes.append((g[3], g[4], res is True))
                            elif g[1] == B_FALSE:
                                nxt.append((e, g[4]))
                            else:
                                takes.append((g[3], self._emit(g[4], "assume", True, arm["guard"]), False))
                                nxt.append((e, self._emit(g[4], "assume", False, arm["guard"])))
                    else:
                        takes.append((e2, v, res is True))
                    for te, tv, sure in takes:
                        if not sure and res is None:
                            tv = self._emit(tv, "assume", ai, n["scrut"])
                            nxt.append((e, v))
                        outs.extend(self.ev(arm["body"], te, tv))
                pending = _dedupe_states2(nxt)
                if not pending:
                    break
            # states left in `pending` matched no arm: impossible for an exhaustive match (they stem from unknown tests)
        return outs

    def _Loop(self, n, env, evs):
        lbl = n.get("label")
        outs = []
        body = n["body"]
        for o in (self._Block(body, env, evs) if body.get("k") == "Block" else self.ev(body, env, evs)):
            if o[0] == "brk" and (o[5] is None or o[5] == lbl):
                outs.append(("ok", o[1] if o[1] is not None else UNIT, n, o[3], o[4], None))
            elif o[0] == "ok" or (o[0] == "cont" and (o[5] is None or o[5] == lbl)):
                # one iteration, then the loop is left; "again" records that the body asked for another round
                outs.append(("ok", UNIT, n, o[3], self._emit(o[4], "again", n.get("src") or "loop", n), None))
            else:
                outs.append(o)
        return outs

    def _Break(self, n, env, evs):
        if "e" in n:
            return [("brk", o[1], o[2], o[3], o[4], n.get("label")) if o[0] == "ok" else o for o in self.ev(n["e"], env, evs)]
        return [("brk", None, n, env, evs, n.get("label"))]

    def _Continue(self, n, env, evs):
        return [("cont", None, n, env, evs, n.get("label"))]

    def _Ret(self, n, env, evs):
        if "e" in n:
            return [("ret", o[1], o[2], o[3], o[4], None) if o[0] == "ok" else o for o in self.ev(n["e"], env, evs)]
        return [("ret", UNIT, n, env, evs, None)]

    def _Assign(self, n, env, evs):
        outs = []
        for o in self.ev(n["r"], env, evs):
            if o[0] != "ok":
                outs.append(o)
                continue
            e = o[3]
            l = n["l"]
            v = o[4]
            if l.get("k") == "Path" and "local" in l:
                v = self._emit(v, "assign", l["local"], n, e.get(l["local"]))     # extra: the value the local had before
                e = dict(e)
                if o[1] is None:
                    e.pop(l["local"], None)
                else:
                    e[l["local"]] = o[1]
            outs.append(("ok", UNIT, n, e, v, None))
        return outs

    def _AssignOp(self, n, env, evs):
        outs = []
        for o in self._generic(n, env, evs):
            l = n["l"]
            if o[0] == "ok" and l.get("k") == "Path" and "local" in l:
                e = o[3]
                if l["local"] in e:
                    e = dict(e)
                    e.pop(l["local"], None)
                o = ("ok", UNIT, n, e, self._emit(o[4], "assignop", l["local"], n), None)
            outs.append(o)
        return outs

    # ---- calls
    def _Call(self, n, env, evs):
        f = n.get("f", {})
        c = call_name(n) or ""
        if "Ctor(" in (f.get("dk") or n.get("callee_dk") or ""):
            states, abn = self._seq(n["args"], env, evs)
            d = norm(f.get("ctor_of") or f.get("def") or c)
            name = d.split("::")[-1]
            is_var = "Variant" in (f.get("dk") or n.get("callee_dk") or "")
            outs = []
            for vals, e, v in states:
                val = V(name) if is_var else None
                if is_var and name in ("Some", "Ok", "Err") and len(vals) == 1 and vals[0] is not None:
                    val = ("v", name, vals[0])      # the payload of an Option / Result is kept when it is known
                outs.append(("ok", val, n, e, (self._emit(v, "ctor", d, n) if d.startswith(ERR + "::") else v), None))
            return outs + abn
        if c.startswith(("core::panicking::", "std::panicking::", "core::option::unwrap_failed", "core::result::unwrap_failed",
                         "core::option::expect_failed")):
            states, abn = self._seq(n["args"], env, evs)
            return [("div", None, n, e, v, None) for _, e, v in states] + abn
        if c.endswith("try_trait::Try::branch") and len(n.get("args", [])) == 1:
            # `x?`: a known Some/Ok continues with its payload, a known None/Err leaves with the residual
            outs = []
            for o in self.ev(n["args"][0], env, evs):
                v0 = o[1]
                if o[0] == "ok" and v0 is not None and v0[0] == "v" and v0[1] in ("Some", "Ok"):
                    o = ("ok", ("v", "Continue", v0[2]) if len(v0) > 2 else V("Continue"), n, o[3], o[4], None)
                elif o[0] == "ok" and v0 is not None and v0[0] == "v" and v0[1] in ("None", "Err"):
                    o = ("ok", V("Break"), n, o[3], o[4], None)
                elif o[0] == "ok":
                    o = ("ok", None, n, o[3], o[4], None)
                outs.append(o)
            return outs
        if c.endswith("try_trait::FromResidual::from_residual"):
            t = peel_ty(n.get("t") or "")
            val = V("None") if t.startswith("core::option::Option<") else (V("Err") if t.startswith("core::result::Result<") else None)
            states, abn = self._seq(n["args"], env, evs)
            return [("ok", val, n, e, v, None) for _, e, v in states] + abn
        if f.get("k") == "Path" and "local" in f:
            cv = env.get(f["local"])
            if cv is not None and cv[0] == "c" and cv[1] in self.closures and cv[1] not in self.in_closure and len(self.in_closure) < 3:
                return self._call_closure(n, self.closures[cv[1]][0], n["args"], env, evs)
        return self._invoke(n, c, n["args"], env, evs)

    def _call_closure(self, n, clo, argnodes, env, evs):
        """a call of a local closure: its body runs in the environment of the call (captured locals keep their known values)"""
        states, abn = self._seq(argnodes, env, evs)
        outs = list(abn)
        self.in_closure.append(id(clo))
        try:
            for vals, e, v in states:
                e2 = e
                for p, a in zip(clo.get("params", []), vals):
                    _, e2 = self._test(p, a, e2)
                for o in self.ev(clo["body"], e2, v):
                    if o[0] in ("ok", "ret"):
                        outs.append(("ok", o[1], o[2], e, o[4], None))
                    elif o[0] == "div":
                        outs.append(("div", None, n, e, o[4], None))
        finally:
            self.in_closure.pop()
        return outs

    def _MethodCall(self, n, env, evs):
        c = call_name(n) or ""
        return self._invoke(n, c, [n["recv"]] + n["args"], env, evs)

    def _may_enter(self, g):
        """enter a callee?  never one that is being evaluated (recursion shows as a call event).  The rule's `enter` predicate
        has the last word (True / False); by default (None) a function is entered if it yields a value (its result may decide a
        branch) and cannot lead back into a function under evaluation"""
        if g is None or g.derived or g.kind not in ("Fn", "AssocFn") or len(self.stack) > 4 or any(s.path == g.path for s in self.stack):
            return False
        r = self.enter(g) if self.enter is not None else None
        if r is not None:
            return bool(r)
        if (g.sig_output or "()") == "()":
            return False
        reach = self._reach.get(g.path)
        if reach is None:
            reach = self._reach[g.path] = self.P.reachable([g])
        return not any(s.path in reach for s in self.stack)

    def _invoke(self, n, c, argnodes, env, evs):
        states, abn = self._seq(argnodes, env, evs)
        outs = list(abn)
        g = self.P.fns.get(c) if c else None
        if g is None and n.get("method") == "into" and c.endswith("core::convert::Into>::into") or (g is None and c == "core::convert::Into::into"):
            # `x.into()` is the workspace's `impl From<X> for T` when there is one for the type the call yields
            g = self.P.fns.get("<%s as core::convert::From>::from" % norm(n.get("t") or ""))
            if g is not None and len(g.params) != 1:
                g = None
        for vals, e, v in states:
            v = self._emit(v, "call", c, n, vals)
            m = n.get("method")
            val = None
            r0 = vals[0] if vals else None
            if m in ("is_some", "is_none", "is_ok", "is_err") and r0 is not None and r0[0] == "v" and r0[1] in ("Some", "None", "Ok", "Err"):
                val = ("b", r0[1] == {"is_some": "Some", "is_none": "None", "is_ok": "Ok", "is_err": "Err"}[m])
                outs.append(("ok", val, n, e, v, None))
                continue
            if g is None and r0 is not None and n.get("k") == "MethodCall":
                done = self._combinator(n, m, r0, vals, e, v)
                if done is not None:
                    outs.extend(done)
                    continue
            if g is not None and self._may_enter(g):
                v = self._emit(v, "enter", c, n)
                penv = {}
                for p, a in zip(g.params, vals):
                    _, penv = self._test(p, a, penv)
                self.frames.append((id(n), self.stack[-1].path))
                self.node.setdefault(id(n), (n, self.stack[-1]))
                try:
                    for o in self._body(g, penv, v):
                        if o[0] in ("ok", "ret"):
                            outs.append(("ok", o[1], o[2], e, o[4], None))
                        elif o[0] == "div":
                            outs.append(("div", None, n, e, o[4], None))
                finally:
                    self.frames.pop()
                continue
            outs.append(("ok", None, n, e, v, None))
        return outs

    def _combinator(self, n, m, r0, vals, env, evs):
        """std combinators on a known Option / bool that only select between the payload and a fallback"""
        if r0[0] == "v" and r0[1] in ("Some", "None"):
            payload = r0[2] if len(r0) > 2 else None
            if m in ("unwrap", "expect") and r0[1] == "Some":
                return [("ok", payload, n, env, evs, None)]
            if m in ("unwrap_or", "unwrap_or_else", "unwrap_or_default"):
                if r0[1] == "Some":
                    return [("ok", payload, n, env, evs, None)]
                if m == "unwrap_or":
                    return [("ok", vals[1] if len(vals) > 1 else None, n, env, evs, None)]
                if m == "unwrap_or_else" and n["args"] and n["args"][0].get("k") == "Closure":
                    outs = []
                    for o in self.ev(n["args"][0]["body"], env, evs):
                        if o[0] in ("ok", "ret"):
                            outs.append(("ok", o[1], o[2], env, o[4], None))
                        elif o[0] == "div":
                            outs.append(("div", None, n, env, o[4], None))
                    return outs
        if r0[0] == "b" and m in ("then_some", "then"):
            if not r0[1]:
                return [("ok", V("None"), n, env, evs, None)]
            if m == "then_some":
                p = vals[1] if len(vals) > 1 else None
                return [("ok", ("v", "Some", p) if p is not None else V("Some"), n, env, evs, None)]
            return [("ok", V("Some"), n, env, evs, None)]
        return None

    # ---- patterns
    def _refine(self, scrut, pat, env):
        """under the assumption that `pat` matched the unknown value of a local, that local has the pattern's variant"""
        while scrut.get("k") in ("AddrOf", "DropTemps", "Use") or (scrut.get("k") == "Unary" and scrut.get("op") == "Deref"):
            scrut = scrut["e"]
        while pat.get("k") in ("Ref", "Deref", "Box"):
            pat = pat["p"]
        if scrut.get("k") == "Path" and "local" in scrut and pat.get("k") in ("TupleStruct", "Struct", "PatExpr", "Path"):
            d = pat.get("ctor_of") or (pat.get("def") if pat.get("dk") == "Variant" or "Variant" in pat.get("dk", "") else None)
            if d and env.get(scrut["local"]) is None:
                env = dict(env)
                env[scrut["local"]] = V(norm(d).split("::")[-1])
        return env

    def _test(self, pat, v, env):
        """-> (True | False | None, env with the pattern's bindings)"""
        k = pat.get("k")
        if k == "Wild":
            return True, env
        if k == "Binding":
            res = True
            if "sub" in pat:
                res, env = self._test(pat["sub"], v, env)
            if v is not None or pat["local"] in env:
                env = dict(env)
                if v is None:
                    env.pop(pat["local"], None)
                else:
                    env[pat["local"]] = v
            return res, env
        if k in ("Ref", "Deref", "Box", "Guard"):
            return self._test(pat["p"], v, env)
        if k == "Or":
            unknown = False
            for p in pat["ps"]:
                r, e2 = self._test(p, v, env)
                if r is True:
                    return True, e2
                if r is None:
                    unknown = True
            return (None if unknown else False), env
        if k == "Tuple":
            ps = pat["ps"]
            vs = v[1] if (v is not None and v[0] == "t" and len(v[1]) == len(ps) and "ddpos" not in pat) else [None] * len(ps)
            res = True
            for p, x in zip(ps, vs):
                r, env = self._test(p, x, env)
                if r is False:
                    return False, env
                if r is None:
                    res = None
            return res, env
        if k in ("TupleStruct", "Struct", "PatExpr", "Path"):
            if k == "PatExpr" and "lk" in pat:
                if v is not None and v[0] in ("s", "b") and pat.get("lk") in ("str", "bool"):
                    return (v[1] == pat.get("v")), env
                return None, env
            d = pat.get("ctor_of") or pat.get("def")
            is_variant = "Variant" in str(pat.get("dk", ""))
            if k == "PatExpr" and not is_variant:
                return None, env     # a constant: refutable, value unknown
            subs = list(pat.get("ps", [])) + [f["p"] for f in pat.get("fields", []) if isinstance(f, dict) and "p" in f]
            res = True
            if not is_variant and v is not None and v[0] == "r" and not pat.get("ps"):
                known = dict(v[1])
                for f in pat.get("fields", []):
                    if isinstance(f, dict) and "p" in f:
                        r, env = self._test(f["p"], known.get(f.get("name")), env)
                        if r is False:
                            return False, env
                        if r is None:
                            res = None
                return res, env
            if is_variant and d:
                name = norm(d).split("::")[-1]
                if v is not None and v[0] == "v":
                    if v[1] != name:
                        return False, env
                else:
                    res = None
            elif not d:
                res = None
            payload = v[2] if (is_variant and v is not None and v[0] == "v" and len(v) > 2 and len(subs) == 1) else None
            for p in subs:
                r, env = self._test(p, payload, env)
                if r is False:
                    return False, env
                if r is not True and res is True:
                    res = None
            return res, env
        return None, env


def _children(n):
    """direct child *expression* nodes in source order (patterns are not expressions)"""
    out = []
    for key, v in n.items():
        if key in ("pat", "params", "ps", "s"):
            continue
        if isinstance(v, dict):
            if "k" in v:
                out.append(v)
            else:
                out.extend(x for x in v.values() if isinstance(x, dict) and "k" in x)
        elif isinstance(v, list):
            for x in v:
                if isinstance(x, dict):
                    if "k" in x:
                        out.append(x)
                    else:
                        out.extend(y for y in x.values() if isinstance(y, dict) and "k" in y)
    return out


def _envkey(env):
    return frozenset(env.items()) if env else frozenset()


def _dedupe(outs):
    seen, res = set(), []
    for o in outs:
        key = (o[0], o[1], id(o[2]) if o[0] in ("ok", "ret") and o[1] is None else 0, _envkey(o[3]), o[4], o[5])
        if key not in seen:
            seen.add(key)
            res.append(o)
    return res


def _dedupe_states(states):
    seen, res = set(), []
    for vals, e, v in states:
        key = (vals, _envkey(e), v)
        if key not in seen:
            seen.add(key)
            res.append((vals, e, v))
    return res


def _dedupe_states2(states):
    seen, res = set(), []
    for e, v in states:
        key = (_envkey(e), v)
        if key not in seen:
            seen.add(key)
            res.append((e, v))
    return res


def _dedupe_res(res):
    seen, out = set(), []
    for val, evs, src in res:
        if (val, evs, id(src)) not in seen:
            seen.add((val, evs, id(src)))
            out.append((val, evs, src))
    return out


def decide(R, rule, key, verdict, ok_msg, bad_msg, und_msg="", loc=None, dev=None):
    """three-valued instance: True -> HOLDS, False -> VIOLATED (positive evidence only), None -> UNDECIDED.
    `dev` is the direction of the deviation when it is known: "lenient" (something invalid is accepted: a violation of C03 only),
    "strict" (something valid is rejected: a violation of C04 only), "both"/None (either, or not determinable).  The rules C03 and
    C04 share run under both properties; each property reports only the deviations of its own direction."""
    if verdict is None:
        R.undecided(rule, key, und_msg or ("shape not recognised; " + ok_msg), loc=loc)
    elif verdict is False and dev in ("lenient", "strict") and getattr(R, "direction", None) in ("lenient", "strict") and dev != R.direction:
        R.holds(rule, key, "deviates, but towards %s only (%s): reported under %s, this property holds here"
                % ("accepting too much" if dev == "lenient" else "rejecting too much", bad_msg[:160], "C03" if dev == "lenient" else "C04"), loc=loc)
    else:
        R.check(rule, key, bool(verdict), ok_msg, bad_msg, loc=loc)
    return verdict


def directed(fn, direction):
    """run a rule under the property whose violations have this direction"""
    def run(P, R):
        old = getattr(R, "direction", None)
        R.direction = direction
        try:
            return fn(P, R)
        finally:
            R.direction = old
    return run


def anchors_present(P, R, rule, key, fields=(), methods=(), loc=None):
    """The rule identifies data by the *names* of fields of the AST / type-system types (and of a few of their methods).  If such a
    name no longer exists the code was renamed, not broken: the instance is UNDECIDED (returns False), never VIOLATED."""
    from facts import AnchorMissing
    gone = []
    for adt, fld in fields:
        try:
            names = {n.replace("r#", "") for n in P.adt(adt).fields()}
        except AnchorMissing:
            names = set()
        if fld not in names:
            gone.append("%s.%s" % (adt.split("::")[-1], fld))
    for m in methods:
        if m not in P.by_name:
            gone.append(m + "()")
    if gone:
        R.undecided(rule, key, "kind=anchor-missing: %s no longer exist(s) under that name (renamed); the rule does not decide the new shape" % ", ".join(gone), loc=loc)
    return not gone


def call_sites(fns, path):
    """[(fn, node index, call node)] of the calls of `path` inside `fns`"""
    out = []
    for g in fns:
        for j, (x, _) in enumerate(g.nodes()):
            if x.get("k") in ("Call", "MethodCall") and call_name(x) == path:
                out.append((g, j, x))
    return out


def all_args(c):
    return ([c["recv"]] if c.get("k") == "MethodCall" else []) + c["args"]


SINKS = {"push", "push_back", "push_front", "extend", "insert", "append", "extend_one", "push_within_capacity"}
_CARRIER_CALLS = ("core::option::Option::Some", "core::result::Result::Err", "core::result::Result::Ok", "alloc::boxed::",
                  "alloc::intrinsics::", "core::convert::", "alloc::vec::", "core::iter::", "alloc::slice::")


def diag_flow(P, scope, f, i, _seen=None):
    """What becomes of the value of expression nodes()[i] of `f` (a diagnostic, or something that carries one)?
       ("sink", n)   it reaches a collection insert (`push`/`extend`/..) — directly, as the value a closure yields to an adaptor chain
                     that is inserted, or by being returned to callers that all insert it (n = number of such insert sites)
       ("dropped", why)  positive evidence that it is discarded (expression statement, `let _`, a binding that is never used)
       (None, why)   the flow is not recognised"""
    _seen = _seen or set()
    acc = f.nodes()
    cur, ci = acc[i][0], i
    while True:
        pi = acc[ci][1]
        if pi < 0:
            return _returned(P, scope, f, _seen)
        p = acc[pi][0]
        k = p.get("k")
        if k == "MethodCall":
            if p.get("recv") is not cur and p.get("method") in SINKS and any(a is cur for a in p["args"]):
                return ("sink", 1)
        elif k == "Call":
            c = call_name(p) or ""
            if not ("Ctor(" in (p.get("callee_dk") or "") or c.startswith(_CARRIER_CALLS) or p.get("x") == "vec"):
                return (None, "passed to %s" % short(c))
        elif k == "Stmt":
            return ("dropped", "its value is discarded (expression statement at line %s)" % p.get("s", ["?"])[0])
        elif k == "Let":
            if p.get("init") is not cur:
                return (None, "let-else")
            binds = [b for b in subnodes(p["pat"]) if b.get("k") == "Binding"]
            if not binds:
                return ("dropped", "bound to a pattern without bindings (line %s)" % p.get("s", ["?"])[0])
            uses = [j for j, (x, _) in enumerate(acc) if x.get("k") == "Path" and x.get("local") in {b["local"] for b in binds}]
            if not uses:
                return ("dropped", "bound to `%s`, which is never used" % binds[0].get("name"))
            res = [diag_flow(P, scope, f, j, _seen) for j in uses]
            if any(r[0] == "sink" for r in res):
                return ("sink", sum(r[1] for r in res if r[0] == "sink"))
            return (None, "bound to `%s`" % binds[0].get("name"))
        elif k == "Ret":
            return _returned(P, scope, f, _seen)
        elif k == "Arm":
            if p.get("body") is not cur:
                return (None, "used in a guard")
        elif k == "Match":
            if p.get("scrut") is cur:
                return (None, "matched on")
        elif k == "If":
            if p.get("cond") is cur:
                return (None, "used as a condition")
        elif k in ("Break", "Assign", "AssignOp", "Loop", "Binary", "Index"):
            return (None, "flows through `%s`" % k)
        elif k == "Closure":
            # the value the closure yields: carried by the adaptor the closure is handed to — or, for a closure bound to a local
            # (`let report = |..| diagnostic;`), returned to every call of that local
            calls = local_closure_calls(f, pi)
            if calls is not None:
                if not calls:
                    return ("dropped", "built by a local closure that is never called")
                n = 0
                for j in calls:
                    r = diag_flow(P, scope, f, j, _seen)
                    if r[0] != "sink":
                        return r
                    n += r[1]
                return ("sink", n)
        cur, ci = p, pi


def local_closure_calls(f, ci):
    """for a closure (node index ci) that is the initialiser of `let name = |..| ..`: the node indices of the calls `name(..)`;
    None if the closure is not bound that way"""
    acc = f.nodes()
    pi = acc[ci][1]
    if pi < 0:
        return None
    p = acc[pi][0]
    if not (p.get("k") == "Let" and p.get("init") is acc[ci][0] and p["pat"].get("k") == "Binding"):
        return None
    lid = p["pat"]["local"]
    return [j for j, (x, _) in enumerate(acc) if x.get("k") == "Call" and x.get("f", {}).get("k") == "Path" and x["f"].get("local") == lid]


def enclosing_local_closure(f, i):
    """index of the innermost closure around nodes()[i] that is bound to a local by `let`, or None"""
    acc = f.nodes()
    p = acc[i][1]
    while p >= 0:
        if acc[p][0].get("k") == "Closure" and local_closure_calls(f, p) is not None:
            return p
        p = acc[p][1]
    return None


def _returned(P, scope, f, seen):
    if f.path in seen:
        return (None, "recursive builder")
    sites = call_sites(scope, f.path)
    if not sites:
        return (None, "returned from %s, which nothing in the checker calls" % short(f.path))
    n = 0
    for g, j, x in sites:
        r = diag_flow(P, scope, g, j, seen | {f.path})
        if r[0] != "sink":
            return (r[0], "%s (returned from %s to %s)" % (r[1], short(f.path), short(g.path)))
        n += r[1]
    return ("sink", n)


def is_builder(f):
    """a function whose *result* is a diagnostic: each call of it is one application of the rule it reports"""
    return (f.sig_output or "").replace(" ", "").startswith((CK + "error::CheckError", "core::option::Option<" + CK + "error::CheckError"))


def site_weight(P, scope, f, _seen=()):
    """how many rule applications one construction site inside `f` stands for: 1, or — inside a diagnostic builder — the number of
    call sites of the builder (transitively)"""
    if not is_builder(f) or f.path in _seen:
        return 1
    return sum(site_weight(P, scope, g, _seen + (f.path,)) for g, _, _ in call_sites(scope, f.path))


def origin(P, scope, f, expr, hit, depth=6, _seen=None, roots=()):
    """Does `expr` (in `f`) derive from an atom satisfying `hit`, following parameters to the arguments of the callers and fields of
    checker-internal structs to the places that fill them?  True | False (every origin resolved, none hits: positive evidence) | None.
    The parameters of the functions in `roots` (the entry points of the scope) are origins themselves."""
    _seen = _seen if _seen is not None else set()
    pv = MProv(f)
    atoms = pv.deep_atoms(expr)
    if any(hit(a) for a in atoms):
        return True
    if depth <= 0:
        return None
    unresolved = False
    for a in atoms:
        if a[0] == "param":
            idx = [i for i, p in enumerate(f.params) if p.get("k") == "Binding" and pv.params.get(p["local"]) == a[1]]
            if not idx or (f.path, idx[0]) in _seen:
                continue
            _seen.add((f.path, idx[0]))
            if f.path in roots:
                continue
            sites = call_sites(scope, f.path)
            if not sites:
                unresolved = True
            for g, _, c in sites:
                args = all_args(c)
                if idx[0] >= len(args):
                    unresolved = True
                    continue
                r = origin(P, scope, g, args[idx[0]], hit, depth - 1, _seen, roots)
                if r:
                    return True
                if r is None:
                    unresolved = True
        elif a[0] == "field" and (a[1] or "").startswith(CK):
            if ("field", a[1], a[2]) in _seen:
                continue
            _seen.add(("field", a[1], a[2]))
            fills = []
            for g in scope:
                for x in g.walk():
                    if x.get("k") == "Struct" and "rest" not in x and norm(x.get("adt") or "") == a[1]:
                        for fld in x.get("fields", []):
                            if isinstance(fld, dict) and fld.get("name") == a[2] and "e" in fld:
                                fills.append((g, fld["e"]))
                        if isinstance(x.get("base"), dict):
                            fills.append((g, x["base"]))
            if not fills:
                unresolved = True
            for g, e in fills:
                r = origin(P, scope, g, e, hit, depth - 1, _seen, roots)
                if r:
                    return True
                if r is None:
                    unresolved = True
    return None if unresolved else False


def guard_exprs(f, i):
    """the expressions that decide whether nodes()[i] is reached: conditions of enclosing `if`s, scrutinees (and guards) of
    enclosing arms, initialisers of enclosing let-else blocks — and of the let-else / early-exit `if`s that precede it in an
    enclosing block (code after `let Some(x) = e else { return }` runs only when e matched)"""
    out = []
    acc = f.nodes()
    for c in enclosing_contexts(f, i):
        if c[0] in ("if-then", "if-else"):
            out.append(c[1]["cond"])
        elif c[0] == "arm" and c[1] is not None:
            out.append(c[1]["scrut"])
            if "guard" in c[2]:
                out.append(c[2]["guard"])
        elif c[0] == "let-else" and c[1].get("init") is not None:
            out.append(c[1]["init"])
    # earlier statements of the enclosing blocks that can leave early
    child = i
    p = acc[i][1]
    while p >= 0:
        n = acc[p][0]
        if n.get("k") == "Block":
            for s in n.get("stmts", []):
                if _contains_node(s, acc[child][0]):
                    break
                if s.get("k") == "Let" and "els" in s and s.get("init") is not None:
                    out.append(s["init"])
                elif s.get("k") == "Stmt" and s["e"].get("k") == "If" and any(y.get("k") in ("Ret", "Continue", "Break") for y in subnodes(s["e"])):
                    out.append(s["e"]["cond"])
        child = p
        p = acc[p][1]
    return out


def _contains_node(root, node):
    return any(x is node for x in subnodes(root))


def source_nodes(P, pv, expr, depth=2):
    """nodes of `expr` and, transitively, of the initialisers of the locals it mentions and of the bodies of the checker
    functions it calls: everything the value is computed by"""
    nodes, todo, seen = [], [(expr, pv, depth)], set()
    while todo:
        n, v, d = todo.pop()
        for y in subnodes(n):
            nodes.append(y)
            if y.get("k") == "Path" and "local" in y and ("l", y["local"]) not in seen:
                seen.add(("l", y["local"]))
                todo.extend((src, v, d) for src, _ in v.src.get(y["local"], []) if src is not None)
            if d > 0 and y.get("k") in ("Call", "MethodCall"):
                g = P.fns.get(call_name(y) or "")
                if g is not None and not g.derived and g.kind in ("Fn", "AssocFn") and ("f", g.path) not in seen:
                    seen.add(("f", g.path))
                    todo.append((g.body, MProv(g), d - 1))
    return nodes


def makes(P, node, variant, depth=2):
    """does the code below `node` build diagnostic `variant`, itself or in a checker function it calls (helper extraction)?"""
    for x in subnodes(node):
        if x.get("k") == "Struct" and "rest" not in x and norm(x.get("variant", "")).split("::")[-1] == variant:
            return True
        if x.get("k") == "Path" and "Ctor" in x.get("dk", "") and norm(x.get("ctor_of") or "") == ERR + "::" + variant:
            return True
        if depth > 0 and x.get("k") in ("Call", "MethodCall"):
            g = P.fns.get(call_name(x) or "")
            if g is not None and g.crate == "nitrogql_checker" and not g.derived and makes(P, g.body, variant, depth - 1):
                return True
    return False


def ev_calls(evs, path):
    return [e for e in evs if e[0] == "call" and e[1] == path]


def ev_ctors(evs, variant):
    return [e for e in evs if e[0] == "ctor" and e[1] == ERR + "::" + variant]


def _param_index(f, pred, default=None):
    for i, t in enumerate(_sig(f)):
        if pred(t):
            return i
    return default


def directive_checkers(P, cd):
    """{path: (index of the directives parameter, index of the location parameter)} of check_directives and of the functions that
    do the same job on the same parameters next to it (a worker it wraps, or a wrapper around it): they take a list of
    directives and a location string and are linked to it by a call"""
    out = {}
    for g in [cd] + [h for h in P.fns.values() if h.crate == cd.crate and h.kind in ("Fn", "AssocFn") and not h.derived and h.path != cd.path]:
        di = _param_index(g, lambda t: "directive::Directive" in t and t.startswith("&["))
        li = _param_index(g, lambda t: t in ("&str", "&'staticstr"))
        if g is cd:
            out[g.path] = (di if di is not None else 2, li if li is not None else 3)
        elif di is not None and li is not None and (cd.path in P.callees_of(g)[0] or g.path in P.callees_of(cd)[0]):
            out[g.path] = (di, li)
    return out


def directive_sites(P, fns):
    """[(fn, call node, {(adt, field)} of the directives argument, set of location literals, {operation kind: literal} | None,
    atoms of the directives argument)] for every call of check_directives inside `fns`"""
    cd = role_fn(P, CK + "common::check_directives")
    family = directive_checkers(P, cd)
    out = []
    for f in fns:
        if f.path in family:
            continue       # the wrapper handing its own parameters to the worker is not a position of its own
        pv = None
        for c in f.walk():
            if c.get("k") in ("Call", "MethodCall") and (call_name(c) or "") in family:
                di, li = family[call_name(c)]
                args = all_args(c)
                if max(di, li) >= len(args):
                    continue
                pv = pv or MProv(f)
                a = pv.atoms(args[di])
                src = {(x[1], x[2]) for x in a if x[0] == "field" and x[2] == "directives"}
                if not src:
                    # the list arrives through a parameter: take the union over the callers' arguments (one level)
                    pnames = {x[1] for x in a if x[0] == "param"}
                    idxs = [i for i, p in enumerate(f.params) if p.get("k") == "Binding" and pv.params.get(p.get("local")) in pnames]
                    for g, _, cc in call_sites(fns, f.path):
                        gpv = MProv(g)
                        gargs = all_args(cc)
                        for i in idxs:
                            if i < len(gargs):
                                ga = gpv.atoms(gargs[i])
                                src |= {(x[1], x[2]) for x in ga if x[0] == "field" and x[2] == "directives"}
                                a = a | ga
                loc_arg = args[li]
                lits = set(v for v in str_lits_in(loc_arg))
                if not lits:
                    # the location is named first (`let loc = "FIELD"`) or computed by a helper: literals it can evaluate to
                    lits = {x[1] for x in pv.deep_atoms(loc_arg) if x[0] == "lit" and isinstance(x[1], str)}
                table = None
                if loc_arg.get("k") == "Match":
                    table = {}
                    for vname, arm in variant_table(loc_arg).items():
                        v = arm_value(arm)
                        table[vname] = v[1] if v and v[0] == "lit" else None
                out.append((f, c, src, lits, table, a))
    return out


def _inert(node):
    """the code performs nothing observable: no call, no construction, no assignment"""
    return not any(x.get("k") in ("Call", "MethodCall", "Struct", "Assign", "AssignOp", "Ret", "Break", "Continue") and "rest" not in x
                   for x in subnodes(node))


def dispatch_reaches(P, f, adt, variant):
    """does `f`, given a value of enum `adt` of kind `variant` (every value of that type it handles), call a function that takes
    that variant's payload?"""
    fields = [v for v in adt.variants if v["name"] == variant]
    if not fields or not fields[0]["fields"]:
        return False
    payload = norm(fields[0]["fields"][0]["ty"]).split("<")[0].lstrip("&")
    try:
        E = KindEval(P, want=lambda ev: ev[0] == "call" and ev[1] in P.fns, seeds=[(adt.path, V(variant))],
                     enter=lambda g: True if ((g.sig_output or "()") == "()" and _takes(g, adt.path)) else None)
        paths = E.run(f)
    except TooComplex:
        return False
    return any(P.fns[e[1]].crate == f.crate and _takes(P.fns[e[1]], payload) for _, evs, _ in paths for e in evs)


KEYED_USE = {"insert", "entry", "contains", "contains_key", "get", "get_mut", "remove", "replace", "binary_search"}


def response_keys(P, R, scope):
    """`Field.alias` is exempt from the coverage rule because no implemented rule merges or identifies selections.  That stops being
    true as soon as some checker function uses the *name* of a selected field as the key of a set or map (de-duplicating or
    looking up selections by name): two selections are the same entry of the response iff their response keys (alias, else name)
    are equal, so such a key has to take the alias into account."""
    SF = A + "selection_set::Field"
    keyed = []
    alias_read = False
    for p in scope:
        f = P.fns[p]
        if f.derived or not f.path.startswith((CK, "<" + CK)):
            continue
        if (SF, "alias") in field_reads(f):
            alias_read = True
        pv = None
        for x in f.walk():
            if x.get("k") == "MethodCall" and x.get("method") in KEYED_USE and x.get("args"):
                pv = pv or MProv(f)
                a = pv.atoms(x["args"][0])
                if any(y[0] == "field" and y[1] == SF and y[2] == "name" for y in a) and not any(y[0] == "field" and y[1] == SF and y[2] == "alias" for y in a):
                    keyed.append((f, x["method"]))
    if not keyed:
        R.holds("R03-a", "response-key", "no checker function identifies selected fields by a key")
        return
    f, m = keyed[0]
    R.check("R03-a", "response-key", alias_read,
            "selections are keyed by name in %s, and the alias is taken into account" % short(f.path),
            "%s uses the name of a selected field as a key (`.%s(..)`) and nothing in the checker reads `Field.alias`: selections are "
            "identified by their response key (alias, else name), so `a: f  b: f` are two fields and `f: x  f: y`-style clashes are one — "
            "keyed by name alone, two aliased selections of one schema field collapse (e.g. a subscription with two root fields is accepted)"
            % (f.path, m), loc=f.loc())


def every_element_checked(P, R, disp, adt):
    """Inside the dispatcher, whether an element is handed to the function that checks its kind may depend on its *kind* only: a
    condition around (or an early exit before) that call which reads the element's own content makes the rules skip some
    elements of the kind ("every selection / definition is validated")."""
    g = inlined(P, disp)
    pv = MProv(g)
    for var in adt.variants:
        if not var["fields"]:
            continue
        payload = norm(var["fields"][0]["ty"]).split("<")[0].lstrip("&")
        sites = [i for i, (x, _) in enumerate(g.nodes()) if x.get("k") in ("Call", "MethodCall") and (call_name(x) or "") in P.fns
                 and P.fns[call_name(x)].crate == disp.crate and _takes(P.fns[call_name(x)], payload) and call_name(x) != disp.path]
        # only the hand-over itself: a call in the dispatcher's own body, or in a helper that was given the whole enum value to
        # dispatch on — not calls made further down, inside functions that received the element (or something else)
        acc_ = g.nodes()

        def below_checker(i):
            p = acc_[i][1]
            while p >= 0:
                n_ = acc_[p][0]
                if n_.get("k") in ("Call", "MethodCall") and "inl" in n_ and any(y is acc_[i][0] for y in subnodes(n_["inl"])):
                    h = P.fns.get(n_["inl"].get("fn"))
                    if h is None or not _takes(h, adt.path):
                        return True
                p = acc_[p][1]
            return False
        sites = [i for i in sites if not below_checker(i)]
        if not sites:
            continue
        bad = []
        for i in sites:
            for ge in guard_exprs(g, i):
                t = peel_ty(ge.get("t") or "").split("<")[0]
                if t == adt.path:
                    continue       # the dispatch on the kind itself
                reads = sorted({"%s.%s" % (a[1].split("::")[-1], a[2]) for a in pv.atoms(ge) if a[0] == "field" and a[1] == payload})
                if reads:
                    bad.append((short(call_name(g.nodes()[i][0])), reads))
        # ... nor may the checker be *told* where the element came from: an argument computed from the components of a source
        # position (file, line, builtin) next to the element is a condition on its origin passed down instead of tested here
        told = []
        for i in sites:
            c = g.nodes()[i][0]
            for a in all_args(c):
                t = (a.get("t") or "").strip()
                if t.startswith("&") or peel_ty(t).split("<")[0] == A + "base::Pos":
                    continue       # borrowed data / accumulators, or a position handed over as such (for the diagnostic)
                comps = sorted({x[2] for x in pv.atoms(a) if x[0] == "field" and x[1] == A + "base::Pos"})
                if comps and any(x[0] == "field" and x[1] == payload for x in pv.atoms(a)):
                    told.append((short(call_name(c)), comps))
        R.check("R03-a", "origin-blind:%s::%s" % (adt.path.split("::")[-1], var["name"]), not told,
                "the checker of a %s is not told where the %s came from" % (var["name"], var["name"]),
                "%s passes %s an argument computed from the source position of the %s (Pos.%s): rules are then applied or skipped "
                "according to the file a definition was written in (an imported fragment escapes a rule that a local one is held to)"
                % (disp.path, told[0][0] if told else "", var["name"], "/".join(told[0][1]) if told else ""), loc=disp.loc())
        R.check("R03-a", "every:%s::%s" % (adt.path.split("::")[-1], var["name"]), not bad,
                "every %s is handed to its checker, whatever it contains" % var["name"],
                "%s applies %s only under a condition that reads %s of the %s itself: the ones for which the condition fails are never "
                "validated (e.g. a fragment imported from another file)"
                % (disp.path, bad[0][0] if bad else "", bad[0][1] if bad else "", var["name"]), loc=disp.loc())


LOSSY_ADAPTORS = {"filter", "skip", "skip_while", "take", "take_while", "step_by", "nth", "last", "find", "max_by_key", "min_by_key"}


DIAG_SHORTENERS = {"retain", "retain_mut", "truncate", "dedup", "dedup_by", "dedup_by_key", "drain", "clear", "pop", "split_off"}


def documents_all_checked(P, R):
    """the callers of check_operation_document (the CLI) hand it every operation document: no selecting adaptor between the
    collection of documents and the call"""
    e = entry(P)
    sites = []
    for f in P.fns.values():
        if f.derived or f.kind == "Closure" or f.crate == e.crate or "::tests" in f.path:
            continue
        for i, (x, _) in enumerate(f.nodes()):
            if x.get("k") in ("Call", "MethodCall") and call_name(x) == e.path:
                sites.append((f, i))
    if not sites:
        R.undecided("R03-a", "every:document", "no caller of check_operation_document outside the checker crate")
        return
    for f, i in sites:
        acc = f.nodes()
        lossy = []
        child, p = i, acc[i][1]
        while p >= 0:
            n = acc[p][0]
            if n.get("k") == "MethodCall" and any(a is acc[child][0] for a in n["args"]) and acc[child][0].get("k") == "Closure":
                # the call sits in a closure handed to an adaptor: what the receiver chain did to the elements before
                r = n["recv"]
                while r.get("k") == "MethodCall":
                    if r.get("method") in LOSSY_ADAPTORS:
                        lossy.append(r["method"])
                    r = r["recv"]
            child, p = p, acc[p][1]
        # ... and what it returns reaches the caller's output whole: no selecting / shortening step on the diagnostics
        dropped = []
        cur, ci = acc[i][0], i
        while acc[ci][1] >= 0:
            pn = acc[acc[ci][1]][0]
            if pn.get("k") == "MethodCall" and pn.get("recv") is cur:
                if pn.get("method") in LOSSY_ADAPTORS | DIAG_SHORTENERS:
                    dropped.append(pn["method"])
            elif pn.get("k") == "Let" and pn.get("init") is cur and pn["pat"].get("k") == "Binding":
                lid = pn["pat"]["local"]
                for y in f.walk():
                    if y.get("k") == "MethodCall" and y.get("method") in DIAG_SHORTENERS and y["recv"].get("k") in ("Path", "AddrOf"):
                        b = y["recv"]
                        while b.get("k") == "AddrOf":
                            b = b["e"]
                        if b.get("local") == lid:
                            dropped.append(y["method"])
                break
            elif pn.get("k") not in ("DropTemps", "Use", "AddrOf", "Block", "BlockExpr"):
                break
            cur, ci = pn, acc[ci][1]
        R.check("R03-a", "every:diagnostic@%s" % short(f.path), not dropped, "the diagnostics check_operation_document returns are passed on whole",
                "%s applies `.%s(..)` to the diagnostics returned by check_operation_document: a violation that was found is dropped before "
                "it is reported (e.g. every diagnostic located in an imported fragment's file)" % (f.path, "/".join(dropped)), loc=f.loc())
        R.check("R03-a", "every:document@%s" % short(f.path), not lossy, "every operation document reaches check_operation_document",
                "%s selects among the operation documents with `.%s(..)` before check_operation_document: the documents left out are "
                "never checked (fragment definitions in a skipped file are validated nowhere)" % (f.path, "/".join(lossy)), loc=f.loc())


def r03a(P, R):
    scope = checker_scope(P)
    R.count("functions_reachable_from_check_operation_document", len(scope))
    n = field_coverage(P, R, "R03-a", scope, [A + t for t in EXEC_AST], EXEMPT, "the operation checker (reachable from check_operation_document)")
    response_keys(P, R, scope)
    R.floor("R03-a", "executable AST content fields", n, 28)
    # every variant of the executable sum types is dispatched explicitly: where the checker dispatches on the kind (a `match` used
    # as a statement), no kind may fall into an arm that does nothing
    from facts import AnchorMissing
    try:
        css_fn = role_fn(P, CK + "operation_checker::check_selection_set")
    except AnchorMissing:
        css_fn = None
    for enum in ("selection_set::Selection", "operation::ExecutableDefinition", "value::Value"):
        adt = P.adt(A + enum)
        allv = set(adt.variant_names())
        seen = set()
        sites = 0
        for p in scope:
            f = P.fns[p]
            if not f.path.startswith((CK, "<" + CK)):
                continue
            for m in matches_on(f, enum):
                if "matches" in (m.get("x") or ""):
                    continue
                v, catch = arm_variants(m)
                seen |= v
                if enum == "value::Value" or (m.get("t") or "()") != "()":
                    continue   # a classification (the match yields a value), not the dispatch
                sites += 1
                key = "variants:%s@%s" % (enum.split("::")[-1], short(f.path))
                missing = allv - v
                if not missing:
                    R.holds("R03-a", key, "all %d variants handled explicitly" % len(allv), loc=f.loc())
                    continue
                fallback = [arm for arm in m["arms"] if arm_variants({"arms": [arm]})[1]]
                if fallback and all(_inert(arm["body"]) for arm in fallback):
                    R.violated("R03-a", key, "%s dispatches over %s, but %s fall into a catch-all arm that does nothing: selections of the "
                               "missing kind are never checked" % (f.path, enum, sorted(missing)), loc=f.loc())
                else:
                    # the fallback arm does something: is each remaining kind handed to a function that takes that kind's payload?
                    handed = {v_ for v_ in missing if dispatch_reaches(P, f, adt, v_)}
                    if handed == missing:
                        R.holds("R03-a", key, "%s are passed on by the fallback arm to the functions that check them" % sorted(missing), loc=f.loc())
                    else:
                        R.undecided("R03-a", key, "%s are handled by a catch-all arm that does something; not decided what" % sorted(missing - handed), loc=f.loc())
        if enum == "value::Value":
            # `if let` / `let else` / `matches!` patterns also count as explicit handling
            for p in scope:
                f = P.fns[p]
                if f.path.startswith((CK, "<" + CK)):
                    for x in f.walk():
                        if x.get("k") == "TupleStruct" and norm(x.get("adt", "")) == adt.path:
                            seen.add(norm(x.get("ctor_of", "")).split("::")[-1])
            need = {"Variable", "NullValue", "ListValue", "ObjectValue", "EnumValue"}
            R.check("R03-a", "variants:Value", need <= seen,
                    "structural value kinds are matched explicitly", "no pattern in the checker mentions Value::%s: that kind of value is "
                    "not told apart from the others" % sorted(need - seen))
        else:
            # whatever the spelling of the dispatch: each kind is handed to a function that takes that kind's payload
            disp = css_fn if enum == "selection_set::Selection" else entry(P)
            reached = set()
            if disp is not None:
                for v_ in sorted(allv):
                    ok = dispatch_reaches(P, disp, adt, v_)
                    if ok:
                        reached.add(v_)
                    decide(R, "R03-a", "dispatch:%s::%s" % (enum.split("::")[-1], v_), True if ok else None,
                           "%s hands a %s to a function that takes it" % (short(disp.path), v_), "",
                           "no path of %s was found that hands a %s on to a function taking it" % (short(disp.path), v_), loc=disp.loc())
            R.floor("R03-a", "matches over " + enum.split("::")[-1], sites if reached != allv else max(sites, 1), 1)
            if disp is not None:
                every_element_checked(P, R, disp, adt)
    documents_all_checked(P, R)


def _is_name_stack(t):
    t = (t or "").replace(" ", "")
    return "str" in t and any(c in t for c in ("[", "Vec<", "HashSet<", "BTreeSet<", "IndexSet<", "VecDeque<")) and "HashMap<" not in t


def _stack_params(f, pv=None, P=None):
    """parameters that carry the stack of fragment names being expanded: a collection of strings, or (given P) a checker-internal
    struct with such a field -> [(index, parameter name, (struct path, field) | None)]"""
    out = []
    for i, (p, t) in enumerate(zip(f.params, _sig(f))):
        if p.get("k") != "Binding":
            continue
        name = pv.params.get(p["local"]) if pv else p.get("name")
        if _is_name_stack(t):
            out.append((i, name, None))
        elif P is not None:
            for ap, adt in P.adts.items():
                if ap.startswith(CK) and adt.kind == "Struct" and ap in t:
                    for fld, ft in adt.field_types().items():
                        if _is_name_stack(ft):
                            out.append((i, name, (ap, fld)))
    return out


def same_job(f, g):
    """`g` is a piece split off `f`: a helper (with or without a result) that takes the same distinguishing parameter types (for
    the applicability helper: two type definitions; for the value checker: a value — or the variable it is — and a type)"""
    if g.crate != f.crate or g.path == f.path:
        return False
    if _takes(f, T_TYPEDEF) >= 2:
        return _takes(g, T_TYPEDEF) >= 2
    if _takes(f, T_VALUE) and _takes(f, T_TYPE):
        is_var = any(t.rstrip(">").endswith("variable::Variable") for t in _sig(g))
        return bool(_takes(g, T_TYPE)) and (bool(_takes(g, T_VALUE)) or is_var)
    return False


def core_roles(P):
    """(core function, index of the enclosing-type parameter, index of the type-condition parameter) — which of the two type
    parameters is the fragment's condition is read off the callers: the one fed from `.type_condition`"""
    core = role_fn(P, CK + "operation_checker::check_fragment_spread_core")
    tds = [i for i, t in enumerate(_sig(core)) if T_TYPEDEF in t]
    if len(tds) != 2:
        return core, None, None
    scope = [P.fns[p] for p in checker_scope(P) if P.fns[p].kind != "Closure"]
    votes = {}
    for g, _, c in call_sites(scope, core.path):
        if g.path == core.path:
            continue
        pv = MProv(g)
        args = all_args(c)
        for i in tds:
            if i < len(args) and any(a[0] == "field" and a[2] == "type_condition" for a in pv.deep_atoms(args[i])):
                votes[i] = votes.get(i, 0) + 1
    cond = [i for i in tds if votes.get(i)]
    if len(cond) != 1:
        return core, None, None
    return core, [i for i in tds if i != cond[0]][0], cond[0]


def r03b(P, R):
    """fragment bodies are validated from the definition (not only when spread)"""
    cfd = role_fn(P, CK + "operation_checker::check_fragment_definition")
    css = role_fn(P, CK + "operation_checker::check_selection_set")
    reach = P.reachable([cfd])
    R.check("R03-b", "fragment-body-reach", css.path in reach,
            "the selection checker is reachable from the fragment-definition arm",
            "check_fragment_definition never reaches check_selection_set: the body of a fragment is only validated when an operation "
            "spreads it, so `fragment G on Query { nope }` passes check (and generate later trusts the unchecked body)", loc=cfd.loc())
    # every ExecutableDefinition arm of the entry reaches its definition checker
    e = entry(P)
    cop = role_fn(P, CK + "operation_checker::check_operation")
    ereach = P.reachable([e])
    R.check("R03-b", "operation-arm", cop.path in ereach and cfd.path in ereach,
            "both definition kinds are dispatched", "check_operation_document reaches %s: one kind of definition is never checked"
            % [short(x.path) for x in (cop, cfd) if x.path in ereach], loc=e.loc())
    # recursion guard of spreads: the report of a cyclic spread is decided by a test of the spread's name against the stack
    cfs = role_fn(P, CK + "operation_checker::check_fragment_spread")
    g = inlined(P, cfs)
    pv = MProv(g)
    stack = _stack_params(cfs, pv, P)
    sites = [i for i, (x, _) in enumerate(g.nodes()) if x.get("k") == "Struct" and "rest" not in x and norm(x.get("variant", "")).endswith("::RecursingFragmentSpread")]
    FS = A + "selection_set::FragmentSpread"
    if not anchors_present(P, R, "R03-b", "spread-cycle-guard", [(FS, "fragment_name")], loc=cfs.loc()):
        pass
    elif not sites or not stack:
        R.undecided("R03-b", "spread-cycle-guard", "no RecursingFragmentSpread report / no stack parameter found in %s" % short(cfs.path), loc=cfs.loc())
    else:
        ok = False
        for i in sites:
            for ge in guard_exprs(g, i):
                a = pv.deep_atoms(ge)
                on_stack = any(("param", nm) in a and (fld is None or ("field", fld[0], fld[1]) in a) for _, nm, fld in stack)
                if on_stack and has_field(a, FS, "fragment_name"):
                    ok = True
        R.check("R03-b", "spread-cycle-guard", ok, "a fragment already on the spread stack is reported (RecursingFragmentSpread) instead of re-entered",
                "no condition guarding RecursingFragmentSpread in check_fragment_spread derives from both the stack of open spreads and the "
                "spread's fragment name: the cycle test is gone", loc=cfs.loc())
    # descent: for every composite (enclosing type, type condition) pair, every path through the shared helper reaches the
    # selection checker (no applicability shortcut may skip the body)
    core, ri, ci = core_roles(P)
    if ri is None:
        R.undecided("R03-b", "core-descent", "the enclosing-type / type-condition parameters of %s could not be told apart" % short(core.path), loc=core.loc())
    else:
        # a call "descends" if it is the selection checker or can reach it (a wrapper around the call is as good)
        down = {p for p, g_ in P.fns.items() if p != core.path and g_.kind in ("Fn", "AssocFn") and css.path in P.reachable([g_])} | {css.path}
        try:
            # every pair with a composite enclosing type: the enclosing selection was legal, so the fragment's body must be looked
            # at whatever the kind of its type condition (a non-composite condition is reported by the selection checker when it
            # gets there).  A path that reports something itself instead of descending still rejects the document: only for
            # non-composite conditions is that accepted as an alternative
            for a_ in sorted(COMPOSITE):
                for b_ in ALL_KINDS:
                    E = KindEval(P, want=lambda ev: (ev[0] == "call" and ev[1] in down) or (ev[0] == "ctor" and ev[1].startswith(ERR + "::")),
                                 enter=lambda g_: True if same_job(core, g_) else None)
                    paths = E.run(core, {ri: V(a_), ci: V(b_)})
                    skipping = [1 for _, evs, _ in paths if not any(e[0] == "call" for e in evs)
                                and not (b_ in LEAF_OR_INPUT and any(e[0] == "ctor" for e in evs))]
                    if not paths:
                        R.undecided("R03-b", "core-descent:(%s, %s)" % (a_, b_), "no path evaluated", loc=core.loc())
                        continue
                    R.check("R03-b", "core-descent:(%s, %s)" % (a_, b_), not skipping,
                            "every path checks the fragment's selection set", "%s can return before check_selection_set when the enclosing type "
                            "is a %s and the type condition a %s (%d of %d paths): the selection set of such a fragment is never validated "
                            "(%s)" % (core.path, a_, b_, len(skipping), len(paths),
                                      "e.g. `node { ... on Node { nope } }` when both sides are the same interface" if b_ in COMPOSITE else
                                      "`... on SomeEnum { id }` is accepted: nothing reports the non-composite type condition, and generate "
                                      "later trusts the unchecked body"), loc=core.loc())
        except TooComplex as ex:
            R.undecided("R03-b", "core-descent", "abstract evaluation of %s gave up: %s" % (short(core.path), ex), loc=core.loc())
    # the spread's own name is on the stack handed down
    pvs = MProv(cfs)
    descents = []
    for c in cfs.walk():
        if c.get("k") in ("Call", "MethodCall"):
            callee = P.fns.get(call_name(c) or "")
            if callee is not None and callee.path != cfs.path and css.path in P.reachable([callee]):
                descents.append((c, callee))
    verdicts = []
    for c, callee in descents:
        sp = _stack_params(callee, None, P)
        args = all_args(c)
        if not sp or sp[0][0] >= len(args):
            verdicts.append(None)
            continue
        a = pvs.deep_atoms(args[sp[0][0]])
        verdicts.append(has_field(a, FS, "fragment_name"))
    v = None if (not verdicts or None in verdicts) else all(verdicts)
    if verdicts and False in verdicts:
        v = False
    if anchors_present(P, R, "R03-b", "spread-stack-push", [(FS, "fragment_name")], loc=cfs.loc()):
        decide(R, "R03-b", "spread-stack-push", v, "the spread's name is on the stack passed down",
               "the stack check_fragment_spread passes down does not derive from the spread's fragment name: a fragment that spreads itself "
               "recurses without bound", "no call from %s towards the selection checker carries a stack of names" % short(cfs.path), loc=cfs.loc())


def r03c(P, R):
    scope = [P.fns[p] for p in checker_scope(P) if p.startswith((CK, "<" + CK)) and P.fns[p].kind != "Closure"]
    cd = role_fn(P, CK + "common::check_directives")
    sites = directive_sites(P, scope)
    R.floor("R03-c", "check_directives call sites (operations)", len(sites), 5)
    vi = _param_index(cd, lambda t: "variable::VariablesDefinition" in t, 1)
    li = _param_index(cd, lambda t: t in ("&str", "&'staticstr"), 3)
    covered, seen_pos, wrong, unresolved = set(), set(), set(), 0
    for f, c, src, lits, table, atoms in sites:
        srcs = {(a.replace(A, ""), fld) for a, fld in src if a.startswith(A)}
        known = [s for s in srcs if s in EXEC_LOCATIONS]
        key = "dirloc:%s" % short(f.path)
        if not known:
            unresolved += 1
            R.undecided("R03-c", key, "directives argument has provenance %s" % sorted(srcs), loc=f.loc())
            continue
        for kn in sorted(known):
            want = EXEC_LOCATIONS[kn]
            seen_pos.add(kn)
            k2 = "dirloc:%s.%s%s" % (kn[0].split("::")[-1], kn[1], "" if len(known) == 1 else "@" + short(f.path))
            if not lits:
                R.undecided("R03-c", k2, "the location passed by %s is not a literal the rule can read" % short(f.path), loc=f.loc())
                continue
            direct = set(str_lits_in(all_args(c)[li])) if li < len(all_args(c)) else set()
            if lits == want:
                covered.add(kn)
            elif not direct and want < lits:
                # literals gathered through locals / helpers over-approximate what is passed: a superset decides nothing
                R.undecided("R03-c", k2, "the location passed by %s may be any of %s" % (short(f.path), sorted(lits)), loc=f.loc())
                continue
            else:
                wrong.add(kn)
            decide(R, "R03-c", k2, lits == want,
                   "location %s" % sorted(lits),
                   "%s checks `%s.directives` against location %s; the GraphQL spec location for that position is %s"
                   % (f.path, kn[0].split("::")[-1], sorted(lits), sorted(want)), loc=f.loc(), dev="both")
        known = sorted(known)
        if ("operation::OperationDefinition", "directives") in known:
            # which literal for which kind of operation: evaluate the location expression per kind
            args = all_args(c)
            for k, want in sorted(OP_LOCATION.items()):
                try:
                    E = KindEval(P, want=lambda ev: False, seeds=[(A + "operation::OperationType", V(k))])
                    vals = {v for v, _, _ in E.run_expr(f, args[li])}
                except TooComplex:
                    vals = {None}
                got = sorted(v[1] for v in vals if v is not None and v[0] == "s")
                decide(R, "R03-c", "dirloc:operation:%s" % k, True if got == [want] and None not in vals else (False if (vals and None not in vals and want not in got) else None),
                       "%s -> %s" % (k, want), "directives of a %s operation are checked against location %s" % (k, got),
                       "the location chosen for a %s operation could not be evaluated" % k, loc=f.loc())
        # variables in scope are passed for positions inside an operation
        inside = [kn for kn in known if kn[0] in ("selection_set::Field", "selection_set::FragmentSpread", "selection_set::InlineFragment",
                                                 "operation::OperationDefinition")]
        if inside and anchors_present(P, R, "R03-c", "dirvars:%s" % inside[0][0].split("::")[-1],
                                      [(A + "operation::OperationDefinition", "variables_definition")], loc=f.loc()):
            args = all_args(c)
            v = origin(P, scope, f, args[vi], lambda a: a[0] == "field" and a[1] == A + "operation::OperationDefinition" and a[2] == "variables_definition",
                       roots=(entry(P).path,)) if vi < len(args) else None
            decide(R, "R03-c", "dirvars:%s" % inside[0][0].split("::")[-1], v, "directive arguments are checked with the operation's variables in scope",
                   "%s checks directive arguments with a variables argument that never derives from the enclosing operation's "
                   "`variables_definition`: `@include(if: $v)` reports an unknown variable" % f.path,
                   "the variables argument of %s could not be traced to its origin" % short(f.path), loc=f.loc(), dev="strict")
    for pos, want in sorted(EXEC_LOCATIONS.items()):
        key = "dircover:%s.%s" % (pos[0].split("::")[-1], pos[1])
        if pos in covered:
            R.holds("R03-c", key, "directives at this position are validated")
        elif pos in wrong:
            decide(R, "R03-c", key, False, "", "directives written on a %s are not validated against their own location %s" % (pos[0].split("::")[-1], sorted(want)),
                   dev="both")
        elif pos in seen_pos or unresolved:
            R.undecided("R03-c", key, "a check_directives call may cover this position, but its arguments were not resolved")
        else:
            decide(R, "R03-c", key, False, "", "directives written on a %s are never passed to check_directives: unknown, misplaced or repeated "
                   "directives there are accepted" % pos[0].split("::")[-1], dev="lenient")
    # check_directives itself: existence, location, repetition, arguments
    g = inlined(P, cd)
    made = {v for v in ("UnknownDirective", "DirectiveLocationNotAllowed", "RepeatedDirective") if makes(P, cd.body, v)}
    for v in ("UnknownDirective", "DirectiveLocationNotAllowed", "RepeatedDirective"):
        decide(R, "R03-c", "directive-rule:" + v, v in made, "rule enforced", "check_directives never reports %s" % v, loc=cd.loc(), dev="lenient")
    ca = role_fn(P, CK + "common::check_arguments")
    decide(R, "R03-c", "directive-rule:arguments", ca.path in P.reachable([cd]), "directive arguments are checked",
           "check_directives does not check the directive's arguments", loc=cd.loc(), dev="lenient")
    pv = MProv(g)
    posnames = {pv.params.get(p["local"]) for p, t in zip(cd.params, _sig(cd)) if p.get("k") == "Binding" and t in ("&str", "&'staticstr")}

    def guarded_by(variant, pred):
        """True: some condition deciding the report satisfies pred; False: conditions exist, none does; None: no site / no condition"""
        sites_ = [i for i, (x, _) in enumerate(g.nodes()) if x.get("k") == "Struct" and "rest" not in x and norm(x.get("variant", "")).endswith("::" + variant)]
        conds = [ge for i in sites_ for ge in guard_exprs(g, i)]
        if not sites_:
            return None
        if any(pred(pv.deep_atoms(ge)) for ge in conds):
            return True
        return False
    DD = "graphql_type_system::definitions::DirectiveDefinition"
    if anchors_present(P, R, "R03-c", "directive-rule:location-uses-position", [(DD, "locations")], loc=cd.loc()):
        decide(R, "R03-c", "directive-rule:location-uses-position",
               guarded_by("DirectiveLocationNotAllowed",
                          lambda a: any(("param", nm) in a for nm in posnames) and any(x[0] == "field" and x[2] == "locations" for x in a)),
               "location rule compares the definition's locations against the position passed in",
               "no condition deciding DirectiveLocationNotAllowed derives from both the position passed in and the definition's `locations`",
               "DirectiveLocationNotAllowed is not built inside check_directives (or its helpers)", loc=cd.loc())
    if anchors_present(P, R, "R03-c", "directive-rule:repeatable", [(DD, "repeatable")], loc=cd.loc()):
        decide(R, "R03-c", "directive-rule:repeatable",
               guarded_by("RepeatedDirective", lambda a: any(x[0] == "field" and x[2] == "repeatable" for x in a)),
               "repetition allowed only for repeatable directives",
               "RepeatedDirective is not conditional on the definition's `repeatable`",
               "RepeatedDirective is not built inside check_directives (or its helpers)", loc=cd.loc(), dev="strict")


def r03d(P, R):
    """None from inout_kind_of_type must lead to a diagnostic (operation half)"""
    f = role_fn(P, CK + "operation_checker::check_variables_definition")
    n = none_handling(P, R, "R03-d", f)
    if not n:
        # the lookup moved into a helper of the variable-definition check
        for h in scope_fns(P, f, 2)[1:]:
            if h.path.startswith(CK + "operation_checker"):
                n += none_handling(P, R, "R03-d", h)
    R.floor("R03-d", "inout_kind_of_type lookups for variable types", n, 1)


NONE_KEEPING = ("map", "as_ref", "as_deref", "copied", "cloned", "filter", "and_then", "inspect")
NONE_COLLAPSING = ("is_some_and", "is_none_or", "unwrap_or", "unwrap_or_default", "map_or", "map_or_else", "unwrap_or_else", "is_some", "is_none",
                   "unwrap", "expect")


def none_handling(P, R, rule, f):
    acc = f.nodes()
    n = 0
    ik = P.fn(CK + "types::inout_kind_of_type", required=False)
    ikp = ik.path if ik is not None else CK + "types::inout_kind_of_type"
    for i, (c, _) in enumerate(acc):
        if c.get("k") == "Call" and (call_name(c) or "") == ikp:
            n += 1
            # walk up through None-preserving combinators to the consumer
            cur, ci = c, i
            verdict = None
            detail = ""
            while True:
                pi = acc[ci][1]
                if pi < 0:
                    break
                p = acc[pi][0]
                k = p.get("k")
                if k == "MethodCall" and p.get("recv") is cur:
                    m = p["method"]
                    if m in NONE_KEEPING:
                        cur, ci = p, pi
                        continue
                    if m in NONE_COLLAPSING:
                        verdict, detail = False, "`.%s(..)` collapses the unknown-type case" % m
                    else:
                        verdict, detail = None, "consumer `%s`" % m
                    break
                if k == "Let" and p.get("init") is cur and "els" in p:
                    # `let Some(kind) = .. else { report }`
                    if makes(P, p["els"], "UnknownType"):
                        verdict, detail = True, "let-else reports UnknownType"
                    elif _inert_diag(P, p["els"]):
                        verdict, detail = False, "the `else` of the let-else reports nothing"
                    break
                if k == "Let" and p.get("init") is cur and p["pat"].get("k") == "Binding":
                    lid = p["pat"]["local"]
                    ms = [m for m in f.walk() if m.get("k") == "Match" and m["scrut"].get("k") == "Path" and m["scrut"].get("local") == lid]
                    if ms:
                        cur = ms[0]
                        verdict, detail = match_handles_none(ms[0], P)
                    break
                if k == "Match" and p.get("scrut") is cur:
                    verdict, detail = match_handles_none(p, P)
                    break
                if k in ("DropTemps", "Use", "AddrOf"):
                    cur, ci = p, pi
                    continue
                break
            key = "none:%s#%d" % (short(f.path), n)
            if verdict is None:
                R.undecided(rule, key, "unrecognised consumer of inout_kind_of_type (%s)" % detail, loc=f.loc())
            else:
                R.check(rule, key, verdict, "an undefined type name is reported (UnknownType)",
                        "%s: %s, so a reference to an undefined type is silently accepted" % (f.path, detail), loc=f.loc())
    return n


def _inert_diag(P, node):
    """the code below `node` pushes no diagnostic at all (itself or through a checker helper)"""
    for x in subnodes(node):
        if x.get("k") == "Struct" and "rest" not in x and norm(x.get("adt", "")) == ERR:
            return False
        if x.get("k") in ("Call", "MethodCall"):
            g = P.fns.get(call_name(x) or "") if P is not None else None
            if g is not None and g.crate == "nitrogql_checker":
                return False
    return True


def match_handles_none(m, P=None):
    fallback = None
    for arm in m["arms"]:
        v, catch = arm_variants({"arms": [arm]})
        if "None" in v:
            if (makes(P, arm["body"], "UnknownType") if P is not None else
                    "UnknownType" in {norm(x.get("variant", "")).split("::")[-1] for x in subnodes(arm["body"]) if x.get("k") == "Struct" and "rest" not in x}):
                return True, "None arm reports UnknownType"
            if P is not None and not _inert_diag(P, arm["body"]):
                return None, "the `None` arm reports something else, or through a helper the rule does not follow"
            return False, "the `None` arm reports nothing"
        if catch and fallback is None:
            fallback = arm
    if fallback is not None and P is not None:
        if makes(P, fallback["body"], "UnknownType"):
            return True, "the fallback arm reports UnknownType"
        if not _inert_diag(P, fallback["body"]):
            return None, "`None` falls into an arm that reports something else"
        return False, "`None` falls into an arm that reports nothing"
    return False, "the match has no `None` arm"


FINDERS = {"find", "find_map", "rfind", "get", "position", "rposition", "get_key_value", "binary_search", "binary_search_by", "binary_search_by_key"}


def r03e(P, R):
    """unknown-key guards: a counter compared with the number of provided keys may only count provided keys"""
    targets = []
    for p in checker_scope(P):
        f = P.fns[p]
        if f.kind == "Closure":
            continue
        for i, (x, _) in enumerate(f.nodes()):
            if x.get("k") == "Struct" and "rest" not in x and norm(x.get("variant", "")).split("::")[-1] in ("UnknownArgument", "UnknownField"):
                targets.append((f, i, x))
    R.floor("R03-e", "unknown-key diagnostics", len(targets), 2)
    for f, i, x in targets:
        vname = norm(x["variant"]).split("::")[-1]
        mutated = {n["l"]["local"] for n in f.walk() if n.get("k") == "AssignOp" and n["l"].get("k") == "Path" and "local" in n["l"]}
        counters = []
        for c in enclosing_contexts(f, i):
            if c[0] == "if-then" and c[1]["cond"].get("k") == "Binary" and c[1]["cond"].get("op") in ("<", "!=", ">", "<=", ">=", "=="):
                for side in (c[1]["cond"]["l"], c[1]["cond"]["r"]):
                    if side.get("k") == "Path" and side.get("local") in mutated:
                        counters.append(side)
        if not counters:
            R.holds("R03-e", "guard:" + vname, "%s is reported without a counting shortcut" % vname, loc=f.loc())
            continue
        lid = counters[0]["local"]
        # the key lookups the increments depend on: a find/get/position whose result takes part in a condition around an increment
        pvf = MProv(f)
        around = []
        for j, (n, _) in enumerate(f.nodes()):
            if n.get("k") == "AssignOp" and n["l"].get("k") == "Path" and n["l"].get("local") == lid:
                for ge in guard_exprs(f, j):
                    around.extend(source_nodes(P, pvf, ge, depth=0))
        lookups = [n for n in f.walk() if n.get("k") == "MethodCall" and n.get("method") in FINDERS and any(n is y for y in around)]
        verdict, detail = None, "no key lookup (find/get/position) decides the increments of `%s` in %s" % (counters[0].get("name"), short(f.path))
        if lookups:
            try:
                inc = {}
                for tag in ("None", "Some"):
                    E = KindEval(P, want=lambda ev: ev[0] == "assignop" and ev[1] == lid, force={id(n): V(tag) for n in lookups})
                    inc[tag] = any(evs for _, evs, _ in E.run(f))
                if inc["None"]:
                    verdict = False
                elif inc["Some"]:
                    verdict = True
                else:
                    detail = "the counter is not incremented on the path where a key was found"
            except TooComplex as ex:
                detail = "abstract evaluation gave up: %s" % ex
        decide(R, "R03-e", "guard:" + vname, verdict,
               "the counter `%s` only counts keys that were actually provided" % counters[0].get("name"),
               "%s: the counter `%s` that guards the %s report is also incremented on a path where the key lookup found nothing: with "
               "optional keys omitted, an unknown key is not detected" % (f.path, counters[0].get("name"), vname), detail, loc=f.loc())


# operation-rule diagnostics and the number of application sites confirmed on the pinned tree (reference for later change)
OP_RULE_SITES = {
    "UnNamedOperationMustBeSingle": 1, "DuplicateOperationName": 1, "DuplicateFragmentName": 1, "NoRootType": 1,
    "SubscriptionMustHaveExactlyOneRootField": 1, "SelectionOnInvalidType": 1, "MustSpecifySelectionSet": 1, "FieldNotFound": 1,
    "DuplicatedVariableName": 1, "InvalidFragmentTarget": 1, "UnknownFragment": 1, "FragmentConditionNeverMatches": 1,   # how many (scope, condition) cases report it: R04-d, per pair
    "RecursingFragmentSpread": 1, "UnknownDirective": 1, "DirectiveLocationNotAllowed": 1, "RepeatedDirective": 1,
    "ArgumentsNotNeeded": 1, "RequiredArgumentNotSpecified": 1, "TypeMismatch": 1, "UnknownVariable": 1, "UnknownEnumMember": 1,
    "UnknownArgument": 1, "RequiredFieldNotSpecified": 1, "UnknownField": 1, "NoOutputType": 1, "UnknownType": 4,
}


def r03f(P, R):
    scope_paths = checker_scope(P)
    scope = [P.fns[p] for p in scope_paths if P.fns[p].kind != "Closure"]
    declared = set(P.adt(ERR).variant_names())
    counts, eff = {}, {}
    for f in scope:
        w = None
        for i, (x, _) in enumerate(f.nodes()):
            v = None
            if x.get("k") == "Struct" and "rest" not in x and norm(x.get("adt", "")) == ERR:
                v = norm(x["variant"]).split("::")[-1]
            elif x.get("k") == "Path" and norm(x.get("adt", "")) == ERR and x.get("dk", "").startswith("Ctor"):
                v = norm(x["def"]).split("::")[-1]
            if v is not None:
                if w is None:
                    w = site_weight(P, scope, f)
                # a site inside a local builder closure stands for one application per call of the closure
                ci = enclosing_local_closure(f, i)
                k = len(local_closure_calls(f, ci)) if ci is not None else 1
                counts[v] = counts.get(v, 0) + 1
                eff[v] = eff.get(v, 0) + w * k
    for v, need in sorted(OP_RULE_SITES.items()):
        got, e = counts.get(v, 0), eff.get(v, 0)
        if v not in declared:
            R.undecided("R03-f", "live:" + v, "CheckErrorMessage has no variant %s any more (renamed or merged): not decided which variant reports the rule" % v)
        elif got == 0 or e == 0:
            R.violated("R03-f", "live:" + v, "diagnostic %s is built by no function reachable from check_operation_document: the validation rule "
                       "it reports is never applied" % v)
        elif e < need:
            R.undecided("R03-f", "live:" + v, "%s is reported from %d place(s); %d were confirmed on the pinned tree (cases may have been merged, "
                        "or one was removed: not decided here)" % (v, e, need))
        else:
            R.holds("R03-f", "live:" + v, "%d construction site(s), %d application(s) reachable from check_operation_document" % (got, e))
    # every diagnostic is pushed to the result vector (constructed and dropped = rule disabled)
    n_push = 0
    for f in scope:
        if not f.path.startswith(CK):
            continue
        ordinal = {}
        for i, (x, _) in enumerate(f.nodes()):
            if x.get("k") == "MethodCall" and x["method"] == "with_pos" and (call_name(x) or "").startswith(ERR):
                names = sorted({norm(y.get("variant") or y.get("ctor_of") or "").split("::")[-1] for y in subnodes(x["recv"])
                                if norm(y.get("variant") or y.get("ctor_of") or "").startswith(ERR + "::")}) or ["?"]
                ordinal[names[0]] = ordinal.get(names[0], 0) + 1
                n_push += 1
                r = diag_flow(P, scope, f, i)
                key = "pushed:%s:%s#%d" % (short(f.path), names[0], ordinal[names[0]])
                if r[0] == "dropped":
                    R.violated("R03-f", key, "%s builds a %s diagnostic that is not pushed to the result: %s" % (f.path, names[0], r[1]), loc=f.loc())
                elif r[0] is None:
                    R.undecided("R03-f", key, "where the %s diagnostic built in %s ends up is not recognised (%s)" % (names[0], short(f.path), r[1]), loc=f.loc())
    R.holds("R03-f", "pushed:all", "%d positioned diagnostics followed to where they end up" % n_push)
    R.floor("R03-f", "positioned diagnostics", n_push, 25)


def r03g(P, R):
    from c18 import gate
    before = len(R.results)
    gate(P, R, rule="R03-g")
    # "generate runs check first" is about the checks being *executed* on the way to the printers (the gate instances above decide
    # that their verdict is honoured), not about which CLI function does it or whether the run is recorded for the output: the
    # operation and schema checkers must be reachable from run_generate
    mine = [r for r in R.results[before:] if r["key"] == "R03-g:generate-runs-check"]
    if mine:
        R.results[:] = R.results[:before] + [r for r in R.results[before:] if r["key"] != "R03-g:generate-runs-check"]
        rg = P.fn("nitrogql_cli::generate::run_generate")
        reach = P.reachable([rg])
        R.check("R03-g", "generate-runs-check", entry(P).path in reach,
                "run_generate executes the operation checker before generating (when the context is unresolved)",
                "check_operation_document is not reachable from run_generate: generate no longer checks the project before printing", loc=rg.loc())


def recursion_args(P, R, rule, fns):
    """for directly recursive functions with several parameters of one type: every recursive call passes, in position i, something
    derived from parameter i and from no other same-typed parameter (catches swapped arguments).  Parameters are identified by
    position (Prov's names), so renaming them changes nothing."""
    n = 0
    for f in fns:
        if f.kind not in ("Fn", "AssocFn"):
            continue
        groups = {}
        for i, t in enumerate(f.sig_inputs):
            groups.setdefault(t, []).append(i)
        same = [g for g in groups.values() if len(g) >= 2]
        if not same:
            continue
        calls = [c for c in f.walk() if c.get("k") in ("Call", "MethodCall") and call_name(c) == f.path]
        if not calls:
            continue
        pv = Prov(f)
        names = [pv.params.get(p["local"]) if p.get("k") == "Binding" else None for p in f.params]
        for ci, c in enumerate(calls):
            args = all_args(c)
            if len(args) != len(f.sig_inputs):
                continue
            for g in same:
                for i in g:
                    if names[i] is None:
                        continue
                    a = {x[1] for x in pv.atoms(args[i]) if x[0] == "param"}
                    others = {names[j] for j in g if j != i and names[j]}
                    n += 1
                    verdict = True if (names[i] in a and not (a & others)) else (False if (names[i] not in a and (a & others)) else None)
                    decide(R, rule, "recursion:%s#%d:arg%d" % (short(f.path), ci, i), verdict,
                           "recursive call passes a component of `%s` in position %d" % (names[i], i),
                           "%s: recursive call #%d passes in position %d (parameter `%s`) a value derived from %s: the arguments "
                           "of the structural recursion are swapped" % (f.path, ci, i, names[i], sorted(a)),
                           "position %d of recursive call #%d derives from %s" % (i, ci, sorted(a) or "no parameter"), loc=f.loc())
    return n


def location_flags(P, R, fns):
    """A function that recurses over the structure of a type (`&Type`) and takes a boolean that its outside callers compute from
    the *same definition* whose `.type` they pass (a property of the location: "has a default", "is deprecated") must not hand that
    boolean unchanged to the recursive call that descends into the items of a list: an item is another position, the attribute
    of the enclosing argument / field does not describe it."""
    scope = [f for f in fns if f.kind in ("Fn", "AssocFn")]
    for f in scope:
        tys = _sig(f)
        ti = [i for i, t in enumerate(tys) if T_TYPE in t]
        bi = [i for i, t in enumerate(tys) if t == "bool"]
        rec = [c for c in f.walk() if c.get("k") in ("Call", "MethodCall") and call_name(c) == f.path]
        if len(ti) != 1 or not bi or not rec:
            continue
        outside = [(g, c) for g, _, c in call_sites(scope, f.path) if g.path != f.path]
        pv = MProv(f)
        for b in bi:
            # is parameter b an attribute of the location whose type is passed?
            owner = None
            for g, c in outside:
                gpv = MProv(g)
                args = all_args(c)
                if max(b, ti[0]) >= len(args):
                    continue
                t_owner = {a[1] for a in gpv.atoms(args[ti[0]]) if a[0] == "field" and a[2] in ("type", "r#type")}
                b_fields = {(a[1], a[2]) for a in gpv.atoms(args[b]) if a[0] == "field" and a[1] in t_owner and a[2] not in ("type", "r#type")}
                if b_fields:
                    owner = sorted(b_fields)[0]
            if owner is None or f.params[b].get("k") != "Binding":
                continue
            bname = pv.params.get(f.params[b]["local"])
            for ci, c in enumerate(rec):
                args = all_args(c)
                if max(b, ti[0]) >= len(args):
                    continue
                into_list = any(a[0] == "variant" and str(a[1]).endswith("::List") for a in pv.atoms(args[ti[0]]))
                e = args[b]
                while e.get("k") in ("DropTemps", "Use"):
                    e = e["e"]
                unchanged = e.get("k") == "Path" and e.get("local") == f.params[b]["local"]
                if not into_list:
                    continue
                R.check("R03-h", "location-flag:%s#%d:%s" % (short(f.path), ci, bname), not unchanged,
                        "the recursive call for list items does not inherit `%s`" % bname,
                        "%s: callers compute `%s` from %s.%s of the argument / field whose type they pass, and the recursive call that descends "
                        "into the items of a list passes it on unchanged: every item inherits an attribute of the enclosing location (a nullable "
                        "variable is then accepted as an item of a list of non-null items)" % (f.path, bname, owner[0].split("::")[-1], owner[1]), loc=f.loc())


def r03h(P, R):
    """recursion argument discipline in the typing helpers"""
    fns = [P.fns[p] for p in checker_scope(P)]      # typing helpers only used by the schema checker belong to C05
    seen = set()
    uniq = []
    for f in fns:
        if f.path not in seen:
            seen.add(f.path)
            uniq.append(f)
    n = recursion_args(P, R, "R03-h", uniq)
    R.floor("R03-h", "checked recursive argument positions", n, 4)
    location_flags(P, R, uniq)


ALL_KINDS = sorted(COMPOSITE | LEAF_OR_INPUT)


def verdict_of(v):
    """the verdict in what the literal typing returns: the first component of `(bool, ..)`, the bool itself, or the one boolean
    field of a result struct"""
    if v is not None and v[0] == "t" and v[1]:
        return v[1][0]
    if v is not None and v[0] == "b":
        return v
    if v is not None and v[0] == "r":
        bools = [x for _, x in v[1] if x is not None and x[0] == "b"]
        return bools[0] if len(bools) == 1 else None
    return None


def kind_table(P, f, variant, params=None):
    """{type kind: True if some path of `f` builds diagnostic `variant` when every value of type TypeDefinition it handles has that
    kind}; None if the evaluation gave up"""
    tab = {}
    try:
        for k in ALL_KINDS:
            E = KindEval(P, want=lambda ev: ev[0] == "ctor" and ev[1] == ERR + "::" + variant, seeds=[(T_TYPEDEF[:-1], V(k))])
            paths = E.run(f, {i: V(k) for i in (params or [])})
            tab[k] = any(evs for _, evs, _ in paths)
    except TooComplex:
        return None
    return tab


def leaf_parent_routes(P, css):
    """(leaf kinds for which the selection checker has a path that reports nothing, callers that can hand it such a type without
    having reported anything | None if the evaluation gave up).  A parameter of a caller that only ever receives the selection
    checker's own (already vetted) parent type is not a fresh type: it is taken to be composite."""
    ti = [i for i, t in enumerate(_sig(css)) if T_TYPEDEF in t]
    if len(ti) != 1:
        return set(), None
    ti = ti[0]

    def is_err(ev):
        return ev[0] == "ctor" and ev[1].startswith(ERR + "::")
    silent = set()
    try:
        for k in sorted(LEAF_OR_INPUT):
            E = KindEval(P, want=is_err, seeds=[(T_TYPEDEF[:-1], V(k))])
            if any(not evs for _, evs, _ in E.run(css, {ti: V(k)})):
                silent.add(k)
    except TooComplex:
        return set(), None
    if not silent:
        return silent, []
    scope = [P.fns[p] for p in checker_scope(P) if P.fns[p].kind in ("Fn", "AssocFn")]

    def bare_param(g, arg):
        e = arg
        while e.get("k") in ("AddrOf", "DropTemps", "Use") or (e.get("k") == "Unary" and e.get("op") == "Deref"):
            e = e["e"]
        if e.get("k") == "Path" and "local" in e:
            for j, p in enumerate(g.params):
                if p.get("k") == "Binding" and p["local"] == e["local"]:
                    return j
        return None
    # parameters that only ever receive the checker's own parent type (greatest fixpoint)
    vetted = {(g.path, i) for g in scope if g.path != css.path for i, t in enumerate(_sig(g)) if T_TYPEDEF in t}
    changed = True
    while changed:
        changed = False
        for (gp, i) in sorted(vetted):
            sites = [(h, c) for h, _, c in call_sites(scope, gp) if h.path != gp]
            ok = bool(sites)
            for h, c in sites:
                args = all_args(c)
                j = bare_param(h, args[i]) if i < len(args) else None
                if j is None or not ((h.path == css.path and j == ti) or (h.path, j) in vetted):
                    ok = False
            if not ok:
                vetted.discard((gp, i))
                changed = True
    routes = set()
    try:
        for g in scope:
            if g.path == css.path or not any(call_name(c) == css.path for c in g.walk() if c.get("k") in ("Call", "MethodCall")):
                continue
            fixed = {i: V("Object") for (gp, i) in vetted if gp == g.path}
            for k in sorted(silent):
                E = KindEval(P, want=lambda ev: is_err(ev) or (ev[0] == "call" and ev[1] == css.path), seeds=[(T_TYPEDEF[:-1], V(k))])
                for _, evs, _ in E.run(g, fixed):
                    calls = [e for e in evs if e[0] == "call" and e[3] is not None and ti < len(e[3]) and e[3][ti] == V(k)]
                    if calls and not any(is_err(e) for e in evs):
                        routes.add(short(g.path))
    except TooComplex:
        return silent, None
    return silent, routes


def r03i(P, R):
    """kind tables: which type kinds are composite (need/allow a selection set), and the two selection-set rules agree"""
    d = role_fn(P, "nitrogql_semantics::direct_fields_of_output_type::direct_fields_of_output_type")
    gtm = role_fn(P, "nitrogql_semantics::direct_fields_of_output_type::get_typename_meta_field")
    pvd = MProv(d)
    some, none, unknown, srcs = set(), set(), set(), {}
    try:
        for k in ALL_KINDS:
            res = KindEval(P, want=lambda ev: False).run(d, {0: V(k)})
            vals = {(v[:2] if (v is not None and v[0] == "v") else v) for v, _, _ in res}
            if vals == {V("Some")}:
                some.add(k)
                srcs[k] = [s for _, _, s in res]
            elif vals == {V("None")}:
                none.add(k)
            else:
                unknown.add(k)
    except TooComplex:
        unknown = set(ALL_KINDS)
    decide(R, "R03-i", "composite-kinds", None if unknown else (some == COMPOSITE and none == LEAF_OR_INPUT),
           "fields can be selected on exactly Object, Interface and Union",
           "direct_fields_of_output_type yields fields for %s and none for %s; the composite kinds are %s" % (sorted(some), sorted(none), sorted(COMPOSITE)),
           "the result of direct_fields_of_output_type for kinds %s could not be evaluated" % sorted(unknown), loc=d.loc())
    # __typename meta field on all three
    for k in sorted(COMPOSITE & some):
        # the meta field may be added by a helper that builds the list step by step: look through what computes the value
        ok = all(has_call(pvd.deep_atoms(s), gtm.path)
                 or any(y.get("k") in ("Call", "MethodCall") and call_name(y) == gtm.path for y in source_nodes(P, pvd, s, depth=3))
                 for s in srcs[k])
        R.check("R03-i", "typename:" + k, ok, "__typename is selectable on %s" % k,
                "the field list returned for %s types does not derive from get_typename_meta_field: `__typename` is rejected there" % k, loc=d.loc())
    # the two selection-set rules use the same notion of "composite" as direct_fields_of_output_type
    css = role_fn(P, CK + "operation_checker::check_selection_set")
    csf = role_fn(P, CK + "operation_checker::check_selection_field")
    for f, variant, want_on in ((css, "SelectionOnInvalidType", LEAF_OR_INPUT), (csf, "MustSpecifySelectionSet", COMPOSITE)):
        tab = kind_table(P, f, variant, [i for i, t in enumerate(_sig(f)) if T_TYPEDEF in t])
        key = "selection-predicate:" + variant
        if f is css:
            # who reports a selection set on a non-composite type: the selection checker itself, or every route into it
            silent, routes = leaf_parent_routes(P, css)
            if silent:
                decide(R, "R03-i", key, None if routes is None else not routes,
                       "the selection checker accepts %s parents silently, and every route into it reports them first" % sorted(silent),
                       "check_selection_set returns silently for a parent type of kind %s, and %s hand%s it such a type without reporting anything: "
                       "a selection set on a non-composite type (e.g. an inline fragment `... on SomeEnum { .. }`) is accepted and its body "
                       "never checked" % (sorted(silent), ", ".join(sorted(routes or [])), "s" if len(routes or []) == 1 else ""),
                       "the routes into check_selection_set could not be evaluated", loc=css.loc())
                continue
        if not makes(P, f.body, variant):
            R.undecided("R03-i", key, "%s is not built in %s" % (variant, short(f.path)), loc=f.loc())
            continue
        if tab is None or len(set(tab.values())) < 2:
            # the evaluation does not see the kind test: fall back on what the guard is computed from
            g = inlined(P, f)
            pv = MProv(g)
            sites = [i for i, (x, _) in enumerate(g.nodes()) if x.get("k") == "Struct" and "rest" not in x and norm(x.get("variant", "")).endswith("::" + variant)]
            shared = any(has_call(pv.deep_atoms(ge), d.path) for i in sites for ge in guard_exprs(g, i))
            decide(R, "R03-i", key, True if shared else None,
                   "%s is decided by direct_fields_of_output_type (the shared composite-kind predicate)" % variant, "",
                   "which type kinds raise %s could not be evaluated, and its guard does not call direct_fields_of_output_type" % variant, loc=f.loc())
            continue
        got_on = {k for k, v in tab.items() if v}
        R.check("R03-i", key, got_on == set(want_on),
                "%s is raised for exactly the kinds %s — the same split as direct_fields_of_output_type" % (variant, sorted(want_on)),
                "%s is raised for type kinds %s; fields can be selected on %s, so it must be raised for exactly %s: the two selection-set "
                "rules disagree about which kinds are composite (e.g. union-typed fields)" % (variant, sorted(got_on), sorted(COMPOSITE), sorted(want_on)), loc=f.loc())
    # fragment targets must be composite
    cfd = role_fn(P, CK + "operation_checker::check_fragment_definition")
    tab = kind_table(P, cfd, "InvalidFragmentTarget")
    if not makes(P, cfd.body, "InvalidFragmentTarget"):
        R.violated("R03-i", "fragment-target-kinds:present", "check_fragment_definition never reports InvalidFragmentTarget: any type kind is "
                   "accepted as a fragment target", loc=cfd.loc())
    else:
        R.holds("R03-i", "fragment-target-kinds:present", "kind test present", loc=cfd.loc())
        if tab is None or len(set(tab.values())) < 2:
            R.undecided("R03-i", "fragment-target-kinds", "which type kinds raise InvalidFragmentTarget could not be evaluated", loc=cfd.loc())
        else:
            accepted = {k for k, v in tab.items() if not v}
            R.check("R03-i", "fragment-target-kinds", accepted == COMPOSITE, "fragment targets: Object, Interface, Union",
                    "check_fragment_definition accepts fragment targets of kinds %s" % sorted(accepted), loc=cfd.loc())
    # is_value_compatible_type_def: output kinds are never inputs, input kinds can be
    iv = role_fn(P, CK + "common::is_value_compatible_type_def")
    ti = [i for i, t in enumerate(_sig(iv)) if T_TYPEDEF in t]
    for k in ALL_KINDS:
        try:
            res = KindEval(P, want=lambda ev: False).run(iv, {ti[0]: V(k)}) if ti else []
        except TooComplex:
            res = []
        firsts = set()
        for v, _, _ in res:
            firsts.add(verdict_of(v))
        if k in COMPOSITE:
            verdict = None if (not firsts or None in firsts) else firsts == {B_FALSE}
            if B_TRUE in firsts:
                verdict = False
            decide(R, "R03-i", "output-kind-rejects-literal:" + k, verdict, "%s never accepts an input literal" % k,
                   "a literal is accepted for output kind %s" % k, "the verdict of literal typing for kind %s could not be evaluated" % k, loc=iv.loc())
        else:
            verdict = None if not firsts else (False if firsts == {B_FALSE} else True)
            decide(R, "R03-i", "input-kind-accepts-literal:" + k, verdict, "literals can be typed against %s types" % k,
                   "literal typing rejects every literal for input kind %s" % k, "the verdict of literal typing for kind %s could not be evaluated" % k, loc=iv.loc())


def lit_of(n):
    while n.get("k") in ("DropTemps", "Use", "Cast", "AddrOf"):
        n = n["e"]
    return n.get("v") if n.get("k") == "Lit" else None


def counter_of_operations(P, e, conds):
    """Is one of the integer comparisons `conds` (in the inlined entry `e`) made on a *counter* — a local, or a field of one of the
    checker's own structs, that is stepped with `+=`?  -> (comparison, kinds of definition whose arm/`if let` the steps sit in,
    OperationDefinition fields read by other conditions around the steps, all steps are `+= 1`) | None"""
    OD = A + "operation::OperationDefinition"
    for c in conds:
        for side in (c["l"], c["r"]):
            x = side
            while x.get("k") in ("DropTemps", "Use", "Cast", "AddrOf") or (x.get("k") == "Unary" and x.get("op") == "Deref"):
                x = x["e"]
            steps = []     # (fn, node index)
            if x.get("k") == "Field" and norm(x.get("adt") or "").startswith(CK):
                key = (norm(x["adt"]), x["field"])
                for g in P.fns.values():
                    if g.crate == "nitrogql_checker" and not g.derived and g.kind != "Closure":
                        for j, (y, _) in enumerate(g.nodes()):
                            l = y.get("l") if y.get("k") == "AssignOp" else None
                            if l is not None and l.get("k") == "Field" and (norm(l.get("adt") or ""), l.get("field")) == key:
                                steps.append((g, j))
            elif x.get("k") == "Path" and "local" in x:
                steps = [(e, j) for j, (y, _) in enumerate(e.nodes()) if y.get("k") == "AssignOp" and y["l"].get("k") == "Path" and y["l"].get("local") == x["local"]]
            if not steps:
                continue
            pats, op_fields, unit = set(), set(), True
            for g, j in steps:
                gpv = MProv(g)
                unit = unit and str(lit_of(g.nodes()[j][0]["r"])) == "1" and g.nodes()[j][0].get("op") in ("+", "+=", "Add", None)
                for ctx in enclosing_contexts(g, j):
                    pat = None
                    if ctx[0] == "arm" and ctx[1] is not None and ctx[1].get("src") == "Normal":
                        pat = ctx[2]["pat"]
                    elif ctx[0] == "if-then" and ctx[1]["cond"].get("k") == "LetExpr":
                        pat = ctx[1]["cond"]["pat"]
                    if pat is not None:
                        pats |= {norm(q.get("ctor_of") or q.get("def") or "").split("::")[-1] for q in subnodes(pat)
                                 if (A + "operation::ExecutableDefinition::") in norm(q.get("ctor_of") or q.get("def") or "")}
                for ge in guard_exprs(g, j):
                    op_fields |= {a[2] for a in gpv.atoms(ge) if a[0] == "field" and a[1] == OD}
            return c, pats, sorted(op_fields), unit
    return None


def _int_lit(n):
    while n.get("k") in ("DropTemps", "Use", "Cast", "AddrOf"):
        n = n["e"]
    return n.get("k") == "Lit" and n.get("lk") == "int"


def r03j(P, R):
    """document-scoped rules: the lone-anonymous count ranges over all operations; no validation step is skipped on the strength
    of mutable state whose key omits an input of the skipped work"""
    e0 = entry(P)
    e = inlined(P, e0)
    pv = MProv(e)
    sites = [i for i, (x, _) in enumerate(e.nodes()) if x.get("k") == "Path" and norm(x.get("ctor_of", "")) == ERR + "::UnNamedOperationMustBeSingle"]
    R.floor("R03-j", "UnNamedOperationMustBeSingle sites", len(sites), 1)
    OD = A + "operation::OperationDefinition"
    for i in sites:
        if not anchors_present(P, R, "R03-j", "lone-anonymous", [(OD, "name"), (A + "operation::OperationDocument", "definitions")], loc=e0.loc()):
            continue
        ctx = enclosing_contexts(e, i)
        # (a) raised for the anonymous operation only
        verdict = None
        reads_name = False
        for c in ctx:
            if c[0] == "arm" and c[1] is not None and has_field(pv.atoms(c[1]["scrut"]), OD, "name"):
                reads_name = True
                v, _ = arm_variants({"arms": [c[2]]})
                verdict = True if v == {"None"} else (False if v == {"Some"} else verdict)
            elif c[0] in ("if-then", "if-else") and has_field(pv.atoms(c[1]["cond"]), OD, "name"):
                reads_name = True
                cond = c[1]["cond"]
                pol = None
                if cond.get("k") == "LetExpr":
                    v, _ = arm_variants({"arms": [{"pat": cond["pat"]}]})
                    pol = True if v == {"None"} else (False if v == {"Some"} else None)
                elif cond.get("k") == "MethodCall" and cond.get("method") in ("is_none", "is_some"):
                    pol = cond["method"] == "is_none"
                elif cond.get("k") == "Unary" and cond.get("op") == "Not" and cond["e"].get("k") == "MethodCall" and cond["e"].get("method") in ("is_none", "is_some"):
                    pol = cond["e"]["method"] == "is_some"
                if pol is not None:
                    verdict = pol if c[0] == "if-then" else (not pol)
            elif c[0] == "let-else" and c[1].get("init") is not None and has_field(pv.atoms(c[1]["init"]), OD, "name"):
                # inside the `else` of `let Some(name) = op.name else { .. }`: the name did not match the pattern
                reads_name = True
                v, _ = arm_variants({"arms": [{"pat": c[1]["pat"]}]})
                verdict = True if v == {"Some"} else (False if v == {"None"} else verdict)
        if not reads_name and not any(has_field(pv.atoms(ge), OD, "name") for ge in guard_exprs(e, i)):
            verdict = False
        decide(R, "R03-j", "lone-anonymous:branch", verdict, "reported for the operation without a name",
               "UnNamedOperationMustBeSingle is not raised on the anonymous-operation branch (%s)"
               % ("no condition around it reads OperationDefinition.name" if not reads_name else "it sits on the branch where the name is present"),
               "the test on OperationDefinition.name around the report has an unrecognised form", loc=e0.loc())
        # (b) unless it is the only operation: the condition compares the number of *all* operations with one
        conds = []
        todo = [c[1]["cond"] for c in ctx if c[0] in ("if-then", "if-else")]
        while todo:
            c = todo.pop(0)
            while c.get("k") in ("DropTemps", "Use"):
                c = c["e"]
            if c.get("k") == "Binary" and c.get("op") == "&&":
                todo[:0] = [c["l"], c["r"]]
            elif c.get("k") == "Binary" and c.get("op") in ("!=", "==", ">", "<", ">=", "<=") and (_int_lit(c["l"]) or _int_lit(c["r"])):
                conds.append(c)     # a comparison of some number with an integer literal
        counted = counter_of_operations(P, e, conds)
        if counted is not None:
            cond, pats, op_fields, unit_steps = counted
            verdict = False if op_fields else (True if (pats == {"OperationDefinition"} and unit_steps and cond.get("op") in ("!=", ">")
                                                        and "1" in {str(lit_of(cond["l"])), str(lit_of(cond["r"]))}) else None)
            decide(R, "R03-j", "lone-anonymous:count", verdict,
                   "anonymous operation is reported unless the counter incremented once per OperationDefinition of the document is 1",
                   "the guard of UnNamedOperationMustBeSingle compares a counter that is incremented under a condition reading OperationDefinition "
                   "fields %s: it is not the number of all operations in the document, so an anonymous operation next to other operations can pass"
                   % op_fields, "the way the operations are counted (a counter stepped on %s) is not a form this rule reads" % sorted(pats), loc=e0.loc())
            continue
        conds = [c for c in conds if any(a[0] == "field" and a[1] == A + "operation::OperationDocument" and a[2] == "definitions" for a in pv.atoms(c))]
        if not conds:
            R.undecided("R03-j", "lone-anonymous:count", "no condition around the report counts document.definitions", loc=e0.loc())
            continue
        cond = conds[0]
        a = pv.atoms(cond)
        # transitive source expressions of the condition (locals followed to their initialisers)
        nodes, todo, seen = [], [cond], set()
        while todo:
            n = todo.pop()
            for y in subnodes(n):
                nodes.append(y)
                if y.get("k") == "Path" and "local" in y and y["local"] not in seen:
                    seen.add(y["local"])
                    todo.extend(src for src, _ in pv.src.get(y["local"], []) if src is not None)
        pats = {norm(y.get("ctor_of") or y.get("def") or "").split("::")[-1] for y in nodes if y.get("k") in ("TupleStruct", "Struct", "Path", "PatExpr") and (A + "operation::ExecutableDefinition") in norm(y.get("ctor_of") or y.get("def") or "")}
        op_fields = sorted(x[2] for x in a if x[0] == "field" and x[1] == OD)
        lits = {str(x[1]) for x in a if x[0] == "lit"}
        recognised = (cond.get("k") == "Binary" and cond.get("op") in ("!=", ">") and "1" in lits and has_call(a, "count")
                      and pats == {"OperationDefinition"})
        if op_fields:
            verdict = False      # the number compared depends on a property of the operations counted: it is not "all operations"
        elif "FragmentDefinition" in pats and "OperationDefinition" not in pats:
            verdict = False
        else:
            verdict = True if recognised else None
        decide(R, "R03-j", "lone-anonymous:count", verdict,
               "anonymous operation is reported unless the count of *all* OperationDefinition entries of document.definitions is 1",
               "the guard of UnNamedOperationMustBeSingle is `%s` over a count that matches %s and reads OperationDefinition fields %s: "
               "it is not the number of all operations in the document, so an anonymous operation next to other operations can pass"
               % (cond.get("op"), sorted(pats), op_fields),
               "the way the operations are counted (%s over %s) is not a form this rule reads" % (cond.get("op") or cond.get("k"), sorted(pats)), loc=e0.loc())
    # memoisation / state-dependent skipping is decided by the cross-cutting state rule R03-s (rules/xstate.py, templates.memo_rule)


def _shared(name):
    # tables shared with C04 (rules/c04.py): a row that accepts too much is a C03 violation, one that rejects too much a C04 violation
    def run(P, R):
        import c04
        return getattr(c04, name)(P, R)
    return run


RULES = [(rid, directed(fn, "lenient")) for rid, fn in [
    ("R03-a", r03a), ("R03-b", r03b), ("R03-c", r03c), ("R03-d", r03d), ("R03-e", r03e), ("R03-f", r03f), ("R03-j", r03j),
    ("R03-g", r03g), ("R03-h", r03h), ("R03-i", r03i), ("R04-a", _shared("r04a")), ("R04-b", _shared("r04b")), ("R04-c", _shared("r04c")),
    ("R04-d", _shared("r04d")), ("R04-e", _shared("r04e")), ("R04-f", _shared("r04f"))]]
EXPLANATION = (
    "`check` applies every implemented rule at every position it governs, decided for all documents: (R03-a) non-interference — "
    "every content field of the executable AST is read by a function reachable from check_operation_document and the sum types are "
    "dispatched exhaustively, whether an element is handed to its checker depends on its kind only (never on its content or the file "
    "it came from), and the CLI hands every operation document to the checker; (R03-b) fragment bodies reach the selection checker from the definition arm, spreads carry a cycle stack, "
    "and every composite (enclosing type, type condition) pair descends into the fragment body on every path; "
    "(R03-c) every AST position that can carry directives is passed to check_directives with exactly its spec location and with the "
    "operation's variables in scope, and check_directives enforces existence/location/repetition/arguments; (R03-d) an undefined "
    "variable type is reported; (R03-e) unknown-key counters count only provided keys; (R03-f) every operation-rule diagnostic keeps "
    "a construction site reachable and every positioned diagnostic ends up in the result; (R03-g) generate runs printers only on a "
    "context built from a successful check; (R03-h) recursive typing helpers pass each parameter's component in its own position, and an attribute of the location "
    "(computed by the callers from the definition whose type they pass) is not inherited by the items of a list; "
    "(R03-i) composite-kind tables, evaluated per type kind, and the agreement of the two selection-set rules. Tables are read by "
    "abstract evaluation over kinds (any spelling of the control flow); anchors fall back from name to role. Memoisation / state-dependent skipping is decided by the "
    "cross-cutting rule R03-s. Not decided: exactness of each rule's predicate on values.")
ASSUMPTIONS = ["GraphQL spec (October 2021) directive locations and type kinds, transcribed by hand",
               "graphql_type_system::Schema lookups (get_type/get_directive) are exact"]


def main(tier):
    return harness.run_property("C03", RULES, "other", EXPLANATION, ASSUMPTIONS, tier)
