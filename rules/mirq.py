"""MIR control-flow queries: dominators, post-dominators, must-pass-through, def-use on locals."""
from facts import norm


def func_path(t):
    """resolved callee path of a call terminator (impl method if the driver resolved it)"""
    f = t.get("func", {})
    return norm(f.get("rd") or f.get("fn") or f.get("closure"))


class MirQ:
    def __init__(self, mir, unwind=False):
        self.m = mir
        self.n = len(mir.bbs)
        self.unwind = unwind
        self.succ = [list(dict.fromkeys(mir.succs(i, unwind))) for i in range(self.n)]
        self.pred = [[] for _ in range(self.n)]
        for i, ss in enumerate(self.succ):
            for s in ss:
                self.pred[s].append(i)
        self._dom = None
        self._pdom = None
        self.reach = self._reachable_from(0)

    def _reachable_from(self, start, succ=None):
        succ = succ or self.succ
        seen = {start}
        st = [start]
        while st:
            x = st.pop()
            for s in succ[x]:
                if s not in seen:
                    seen.add(s)
                    st.append(s)
        return seen

    # ------------------------------------------------------------ dominators
    def _compute_dom(self, entry_set, succ, pred, nodes):
        dom = {x: set(nodes) for x in nodes}
        for e in entry_set:
            dom[e] = {e}
        changed = True
        order = sorted(nodes)
        while changed:
            changed = False
            for x in order:
                if x in entry_set:
                    continue
                ps = [p for p in pred[x] if p in dom]
                if not ps:
                    new = {x}
                else:
                    new = set.intersection(*(dom[p] for p in ps)) | {x}
                if new != dom[x]:
                    dom[x] = new
                    changed = True
        return dom

    def dom(self):
        if self._dom is None:
            self._dom = self._compute_dom({0}, self.succ, self.pred, self.reach)
        return self._dom

    def dominates(self, a, b):
        """block a dominates block b (every path from entry to b passes a)"""
        d = self.dom()
        return b in d and a in d[b]

    def returns(self):
        return [i for i in self.reach if self.m.bbs[i]["t"].get("k") == "return"]

    def pdom(self):
        """post-dominators w.r.t. normal returns (panic/unwind/diverging exits are ignored)"""
        if self._pdom is None:
            rets = set(self.returns())
            # nodes that can reach a return
            can = set()
            st = list(rets)
            while st:
                x = st.pop()
                if x in can:
                    continue
                can.add(x)
                st.extend(self.pred[x])
            nodes = can & self.reach
            succ = {x: [s for s in self.succ[x] if s in nodes] for x in nodes}
            # reverse graph
            self._pdom = self._compute_dom(rets, {x: [p for p in self.pred[x] if p in nodes] for x in nodes},
                                           {x: succ[x] for x in nodes}, nodes)
        return self._pdom

    def postdominates(self, a, b):
        """every path from b to a normal return passes through a"""
        d = self.pdom()
        return b in d and a in d[b]

    def reachable_between(self, a, b, avoid=()):
        """is b reachable from a (following successors) without entering blocks in `avoid`"""
        avoid = set(avoid)
        seen = set()
        st = [s for s in self.succ[a]]
        while st:
            x = st.pop()
            if x in seen or x in avoid:
                continue
            if x == b:
                return True
            seen.add(x)
            st.extend(self.succ[x])
        return False

    def path_avoiding(self, start, goals, avoid):
        """is some block in `goals` reachable from `start` (inclusive) avoiding blocks in `avoid`"""
        avoid = set(avoid)
        goals = set(goals)
        seen = set()
        st = [start]
        while st:
            x = st.pop()
            if x in seen or x in avoid:
                continue
            seen.add(x)
            if x in goals:
                return True
            st.extend(self.succ[x])
        return False

    # --------------------------------------------------------------- queries
    def calls(self):
        """[(bb, path, terminator)] for every call terminator in reachable blocks"""
        out = []
        for i in sorted(self.reach):
            t = self.m.bbs[i]["t"]
            if t.get("k") in ("call", "tailcall"):
                out.append((i, func_path(t), t))
        return out

    def calls_to(self, pred):
        return [i for i, p, t in self.calls() if p and pred(p)]

    def local_name(self, l):
        for nm in self.m.names:
            p = nm["p"]
            if p["l"] == l and not p.get("p"):
                return nm["n"]
        return None

    def locals_named(self, name):
        return [nm["p"]["l"] for nm in self.m.names if nm["n"] == name and not nm["p"].get("p")]

    def assigns(self):
        """[(bb, stmt_index, lhs place, rvalue)]"""
        out = []
        for i in sorted(self.reach):
            for si, st in enumerate(self.m.bbs[i]["st"]):
                if "rv" in st:
                    out.append((i, si, st["lhs"], st["rv"]))
        return out


def place_fields(place):
    """[(adt, field)] projections in a MIR place"""
    out = []
    for p in place.get("p", []) or []:
        if isinstance(p, dict) and "f" in p:
            out.append((norm(p["adt"]), p["f"]))
    return out


def operand_places(x):
    """all place dicts (with key 'l') inside an rvalue/operand structure"""
    out = []
    st = [x]
    while st:
        n = st.pop()
        if isinstance(n, dict):
            if "l" in n:
                out.append(n)
            else:
                st.extend(n.values())
        elif isinstance(n, list):
            st.extend(n)
    return out
