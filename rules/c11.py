"""C11 — Schema extensions merge into their definitions without loss or invention.

Anchors are located by *role*, not by name, so that renaming the registry API, moving the merge functions to another module,
turning them into trait impls or splitting the resolver into helpers leaves every rule evaluable:
  entry        fn(TypeSystemOrExtensionDocument) -> Result<TypeSystemDocument, _>
  merge fn     a function of the crate whose result is a type-system definition struct D and whose inputs mention
               exactly D and one other type-system struct E (the extension type), E's components being components of D
  registry     the struct with one `Option<P1>` and one `Vec<P2>` field over bare type parameters (the per-name entry), the struct
               that stores such entries (the list), and the list's methods by signature: the one taking a P1 (registers an
               original), the one taking a P2 (registers an extension), the one consuming `self` (yields the groups)
A role that cannot be located is UNDECIDED (AnchorMissing), never an alarm."""
import re
import harness
from facts import (norm, call_name, call_args, short, subnodes, matches_on, arm_variants, field_reads, peel_ty, AnchorMissing)
from prov import Prov, has_field, _pat_bindings
from templates import LOSSY_OR_REORDERING, enclosing_contexts, method_chain, variant_table, inlined, scope_fns, _contains

CRATE = "nitrogql_semantics"
MOD = CRATE + "::schema_extension_resolver"
TS = "nitrogql_ast::type_system::"
NOT_MERGED = ("position", "name")  # identity of the extension, not content
_TS_NAME = re.compile(r"nitrogql_ast::type_system::(\w+)")
_IDENT = re.compile(r"^\w+$")


# ------------------------------------------------------------------------------------------------------------ type strings
def _split_top(s):
    """split a comma separated list of types at nesting depth 0"""
    out, depth, cur = [], 0, ""
    for ch in s:
        if ch in "<([":
            depth += 1
        elif ch in ">)]":
            depth -= 1
        if ch == "," and depth == 0:
            out.append(cur.strip())
            cur = ""
        else:
            cur += ch
    if cur.strip():
        out.append(cur.strip())
    return out


def _head_args(t):
    """`a::B<X, Y<Z>>` -> ("a::B", ["X", "Y<Z>"])"""
    t = peel_ty(t)
    i = t.find("<")
    if i < 0 or not t.endswith(">"):
        return t, []
    return t[:i], _split_top(t[i + 1:-1])


_CONTAINERS = {"alloc::vec::Vec", "alloc::vec::into_iter::IntoIter", "core::slice::iter::Iter", "core::slice::iter::IterMut",
               "alloc::vec::drain::Drain", "alloc::collections::vec_deque::VecDeque", "alloc::collections::vec_deque::iter::Iter",
               "alloc::collections::vec_deque::into_iter::IntoIter", "alloc::boxed::Box"}
_ITEM_PRESERVING = {"rev::Rev", "skip::Skip", "take::Take", "peekable::Peekable", "filter::Filter", "skip_while::SkipWhile",
                    "take_while::TakeWhile", "step_by::StepBy", "fuse::Fuse", "cloned::Cloned", "copied::Copied", "chain::Chain",
                    "inspect::Inspect", "cycle::Cycle"}


def elem_type(t):
    """element type of a sequence / of an iterator over a sequence (through item-preserving adaptors); None for anything else"""
    t = peel_ty(t)
    if t.startswith("[") and t.endswith("]"):
        return peel_ty(t[1:-1].split(";")[0].strip())
    head, args = _head_args(t)
    if not args:
        return None
    if head in _CONTAINERS:
        inner = peel_ty(args[0])
        return elem_type(inner) if head == "alloc::boxed::Box" else inner
    if head.startswith("core::iter::adapters::") and head[len("core::iter::adapters::"):] in _ITEM_PRESERVING:
        return elem_type(args[0])
    return None


# ------------------------------------------------------------------------------------------------------------------ roles
def _entry(P):
    hits = [f for f in P.fns.values() if f.crate == CRATE and f.kind in ("Fn", "AssocFn") and not f.derived and "::tests" not in f.path
            and [peel_ty(x) for x in f.sig_inputs] == [TS + "TypeSystemOrExtensionDocument"]
            and (f.sig_output or "").startswith("core::result::Result<" + TS + "TypeSystemDocument")]
    if len(hits) == 1:
        return hits[0]
    return P.fn(MOD + "::resolve_schema_extensions")


def _scope(P):
    """functions of the crate reachable from the entry (fn values and trait impls included), tests and derives excluded"""
    e = _entry(P)
    out = []
    for p in sorted(P.reachable([e])):
        f = P.fns[p]
        if f.crate == CRATE and not f.derived and "::tests" not in f.path:
            out.append(f)
    return out


def _param_types(f):
    out = []
    for i, p in enumerate(f.params):
        t = norm(p.get("t")) if p.get("t") else (f.sig_inputs[i] if i < len(f.sig_inputs) else "")
        out.append(t or "")
    return out or list(f.sig_inputs)


def merge_fns(P):
    """[(fn, definition ADT path, extension ADT path)] — by signature role (free function over a pair, method, trait impl)"""
    out = []
    for f in P.fns.values():
        # crate-wide, not only what the entry still reaches: a merge function that fell out of use is exactly what R11-a reports
        if f.crate != CRATE or f.derived or "::tests" in f.path or f.kind not in ("Fn", "AssocFn"):
            continue
        orig = f.sig_output or ""
        ptys = _param_types(f)
        if orig == "()":
            # in-place form: fn(&mut D, E-or-collection-of-E)
            muts = [peel_ty(t) for t in ptys if t.startswith("&mut ") and peel_ty(t).startswith(TS)]
            orig = muts[0] if len(muts) == 1 else ""
        a = P.adts.get(orig)
        if not orig.startswith(TS) or a is None or a.kind != "Struct":
            continue
        mentioned = set()
        for t in ptys:
            mentioned |= {TS + m for m in _TS_NAME.findall(t)}
        others = mentioned - {orig}
        if orig not in mentioned or len(others) != 1:
            continue
        ext = others.pop()
        e = P.adts.get(ext)
        if e is None or e.kind != "Struct":
            continue
        content = [x for x in e.fields() if x not in NOT_MERGED]
        if not content or not set(content) <= set(a.fields()):
            continue
        out.append((f, orig, ext))
    out.sort(key=lambda x: x[0].path)
    return out


def _tag(f, fns):
    """key prefix of a merge function: its name when that identifies it, `Type::method` otherwise"""
    return f.name if sum(1 for g in fns if g.name == f.name) == 1 else short(f.path)


class Registry(object):
    pass


_REG = {}


def registry(P):
    """role anchors of the per-kind registry (see module docstring)"""
    if id(P) in _REG:
        return _REG[id(P)]
    entries = []
    for a in P.adts.values():
        if a.crate != CRATE or a.kind != "Struct":
            continue
        ft = a.field_types()
        if len(ft) != 2:
            continue
        opt = [(n, t) for n, t in ft.items() if t.startswith("core::option::Option<")]
        vec = [(n, t) for n, t in ft.items() if t.startswith("alloc::vec::Vec<")]
        if len(opt) == 1 and len(vec) == 1:
            p1, p2 = _head_args(opt[0][1])[1][0], _head_args(vec[0][1])[1][0]
            if _IDENT.match(p1) and _IDENT.match(p2) and p1 != p2:
                entries.append((a, opt[0][0], vec[0][0], p1, p2))
    r = Registry()
    if len(entries) == 1:
        r.entry_adt, r.orig_field, r.ext_field, r.orig_param, r.ext_param = entries[0]
        r.entry = r.entry_adt.path
        lists = [(a, n) for a in P.adts.values() if a.crate == CRATE and a.kind == "Struct" for n, t in a.field_types().items() if r.entry + "<" in t]
        if len(lists) != 1:
            raise AnchorMissing("registry list type (struct storing %s) not identified: %s" % (r.entry, [x[0].path for x in lists]))
        r.list_adt, r.map_field = lists[0]
    else:
        # the per-name entry is not a struct of (Option<P>, Vec<Q>) (e.g. an enum of states): the list is still recognisable by its
        # interface — a type with a method taking a bare P and returning Result<(), _>, one taking a bare Q, one consuming self into
        # Result<Vec<..>> — but the clauses about the entry's components (R11-d) have nothing to stand on
        r.entry_adt = r.entry = r.orig_field = r.ext_field = r.map_field = None
        found = []
        for a in P.adts.values():
            if a.crate != CRATE or a.kind != "Struct":
                continue
            ms_ = [f for f in P.fns.values() if f.self_adt == a.path and not f.derived and not f.impl_trait and f.kind == "AssocFn"]
            sets = [(f, peel_ty(_param_types(f)[1])) for f in ms_ if len(_param_types(f)) == 2 and _param_types(f)[0].startswith("&mut ")
                    and _IDENT.match(peel_ty(_param_types(f)[1])) and (f.sig_output or "").startswith("core::result::Result<()")]
            adds = [(f, peel_ty(_param_types(f)[1])) for f in ms_ if len(_param_types(f)) == 2 and _param_types(f)[0].startswith("&mut ")
                    and _IDENT.match(peel_ty(_param_types(f)[1])) and (f.sig_output or "") == "()"]
            if len(sets) == 1 and len(adds) == 1 and sets[0][1] != adds[0][1]:
                found.append((a, sets[0][1], adds[0][1]))
        if len(found) != 1:
            raise AnchorMissing("registry not identified (neither an entry struct of one Option<P> and one Vec<Q>, nor a list type by its "
                                "interface): %s" % [e[0].path for e in entries])
        r.list_adt, r.orig_param, r.ext_param = found[0]
    r.list = r.list_adt.path
    methods = [f for f in P.fns.values() if f.self_adt == r.list and not f.derived and not f.impl_trait and f.kind == "AssocFn"]

    def one(what, cands):
        if len(cands) != 1:
            raise AnchorMissing("registry method that %s not identified: %s" % (what, [c.path for c in cands]))
        return cands[0]

    def takes(f, param):
        return [i for i, t in enumerate(_param_types(f)) if peel_ty(t) == param]
    r.set = one("registers an original (takes a %s)" % r.orig_param, [f for f in methods if len(takes(f, r.orig_param)) == 1 and not takes(f, r.ext_param)])
    r.add = one("registers an extension (takes a %s)" % r.ext_param, [f for f in methods if len(takes(f, r.ext_param)) == 1 and not takes(f, r.orig_param)])
    r.into = one("consumes the list", [f for f in methods if f.sig_inputs and f.sig_inputs[0].split("<")[0].endswith(r.list.split("::")[-1])
                                       and not f.sig_inputs[0].startswith("&") and "alloc::vec::Vec<" in (f.sig_output or "")])
    r.set_arg, r.add_arg = takes(r.set, r.orig_param)[0], takes(r.add, r.ext_param)[0]
    h, args = _head_args(r.set.sig_output or "")
    r.err = args[1] if h == "core::result::Result" and len(args) == 2 and args[1] in P.adts else None
    _REG.clear()
    _REG[id(P)] = r
    return r


def _guarded(R, rule, key, fn, *a):
    """run one sub-check; an anchor it cannot resolve leaves only that sub-check undecided"""
    try:
        fn(*a)
    except AnchorMissing as e:
        R.undecided(rule, key, "kind=anchor-missing: %s (this clause cannot be evaluated on this shape of the code)" % e)


def _deep_field_reads(P, f, expr, adt_path):
    """fields of `adt_path` read by `expr` or by any workspace function it (transitively) calls, closures included"""
    out = set()
    todo, seen = [expr], set()
    while todo:
        e = todo.pop()
        for y in subnodes(e):
            if y.get("k") == "Field" and norm(y.get("adt", "")) == adt_path:
                out.add(y["field"])
            cn = call_name(y) if y.get("k") in ("Call", "MethodCall") else None
            if cn and cn in P.fns and cn not in seen:
                seen.add(cn)
                todo.append(P.fns[cn].body)
    return out


def _strip(e):
    while e is not None and e.get("k") in ("DropTemps", "Paren", "Use", "AddrOf", "Type") and "e" in e:
        e = e["e"]
    return e


# ------------------------------------------------------------------------------------------------------------------ R11-a
def r11a(P, R):
    _guarded(R, "R11-a", "anchor:routing", _r11a_route, P, R)
    _guarded(R, "R11-a", "anchor:lists", _r11a_lists, P, R)
    _guarded(R, "R11-a", "anchor:output", _r11a_output, P, R)


def _route_matches(P, enum):
    """matches over `enum` in the resolver that *route*: an arm hands its payload to the registry (a match that only inspects
    the value — a log line, a label — is not a routing decision); all matches if none is recognisably routing"""
    out = []
    for g in _scope(P):
        for m in matches_on(g, enum):
            out.append((g, m))
    try:
        rg = registry(P)
        roles = {rg.set.path, rg.add.path}
        routing = [(g, m) for g, m in out if any(call_name(x) in roles for x in subnodes(m) if x.get("k") in ("MethodCall", "Call"))]
    except AnchorMissing:
        routing = []
    return routing or out


def _r11a_route(P, R):
    outer = []
    for enum in ("type_system::TypeSystemDefinitionOrExtension", "type_system::TypeDefinition", "type_system::TypeExtension"):
        adt = P.adt("nitrogql_ast::" + enum)
        ms = _route_matches(P, enum)
        if not ms and outer:
            nested = set()
            for _g, m in outer:
                for arm in m["arms"]:
                    nested |= {norm(x.get("ctor_of") or x.get("def") or "").split("::")[-1] for x in subnodes(arm["pat"])
                               if x.get("k") in ("TupleStruct", "Struct", "PatExpr") and norm(x.get("adt") or x.get("pat_adt") or "") == adt.path}
            if nested:
                R.holds("R11-a", "floor:matches over " + enum.split("::")[-1], "routed by nested patterns of the outer match")
                R.check("R11-a", "route:" + enum.split("::")[-1], nested == set(adt.variant_names()), "all %d variants routed explicitly" % len(nested),
                        "the resolver does not route every %s variant explicitly: %s" % (enum, sorted(set(adt.variant_names()) - nested)), loc=outer[0][0].loc())
                continue
        outer = outer or ms
        R.floor("R11-a", "matches over " + enum.split("::")[-1], len(ms), 1)
        for g, m in ms:
            v, catch = arm_variants(m)
            R.check("R11-a", "route:" + enum.split("::")[-1], v == set(adt.variant_names()) and not catch,
                    "all %d variants routed explicitly" % len(v),
                    "%s does not route every %s variant explicitly: %s, catch-all=%s"
                    % (g.path, enum, sorted(set(adt.variant_names()) - v), catch), loc=g.loc())
    # every item is routed whatever it contains: an arm with a guard that hands the item to nothing drops the items the guard selects
    try:
        rg = registry(P)
        sinks = {rg.set.path, rg.add.path}
    except AnchorMissing:
        sinks = set()
    reach_ = {}

    def registers(node):
        for x in subnodes(node):
            cn = call_name(x) if x.get("k") in ("Call", "MethodCall") else None
            if cn in sinks:
                return True
            if cn in P.fns and P.fns[cn].crate == CRATE:
                if cn not in reach_:
                    reach_[cn] = bool(sinks & P.reachable([P.fns[cn]]))
                if reach_[cn]:
                    return True
            if x.get("k") == "MethodCall" and x.get("method") in ("push", "push_back", "extend"):
                return True
        return False
    if sinks:
        for enum in ("type_system::TypeSystemDefinitionOrExtension", "type_system::TypeDefinition", "type_system::TypeExtension"):
            for g, m in _route_matches(P, enum):
                for arm in m["arms"]:
                    if "guard" in arm and not registers(arm["body"]):
                        v, _c = arm_variants({"arms": [arm]})
                        what = sorted({y["method"] if y.get("k") == "MethodCall" else short(call_name(y) or "?") for y in subnodes(arm["guard"]) if y.get("k") in ("Call", "MethodCall")})
                        R.violated("R11-a", "route-unconditional:" + "/".join(sorted(v) or ["_"]),
                                   "%s drops %s items for which %s holds instead of registering them: what they carry is not merged, and an "
                                   "item of that kind without a definition is no longer reported" % (g.path, "/".join(sorted(v)) or "some", what or "a guard"), loc=g.loc())
    # directive definitions are pushed unchanged and unconditionally in their arm
    ms = _route_matches(P, "type_system::TypeSystemDefinitionOrExtension")
    for g, m in ms:
        arm = variant_table(m).get("DirectiveDefinition")
        if arm is None:
            continue  # reported by route: above
        bound = {b["local"] for b in _pat_bindings(arm["pat"])}
        body = subnodes(arm["body"])
        pushes = [n for n in body if n.get("k") == "MethodCall" and n["method"] in ("push", "push_back", "extend", "insert") and n["args"]]
        if not pushes:
            R.undecided("R11-c", "directive-push", "the DirectiveDefinition arm of %s does not push the definition in a recognised way" % g.path, loc=g.loc())
            continue
        def unwrapped(e):
            # `Variant(def)` / `Wrapper(def)`: a constructor around the value does not change it
            e = _strip(e)
            while e is not None and e.get("k") == "Call" and str(e.get("callee_dk", "")).startswith("Ctor") and len(e["args"]) == 1:
                e = _strip(e["args"][0])
            return e or {}
        asis = [n for n in pushes if unwrapped(n["args"][-1]).get("k") == "Path" and unwrapped(n["args"][-1]).get("local") in bound]
        cond = [n for n in pushes if any(x.get("k") in ("If", "Match") and x is not n and _contains(x, n) for x in body)]
        R.check("R11-c", "directive-push", len(asis) == len(pushes) and not cond, "directive definitions pushed as-is",
                "%s transforms directive definitions before pushing them, or pushes them only under a condition" % g.path, loc=g.loc())


def _consumed_always(P, R, rg, sc, consumers):
    """a function that consumes a registry does so on every path: consuming is what merges the extensions *and* what reports the
    ones without an original.  An early non-error return placed before the consumption and guarded by a query of the registry is
    decided by what that query looks at: if it never reads the entry's extensions, registries that hold only extensions take the
    shortcut and their extensions vanish without a diagnostic."""
    if rg.entry is None:
        return
    for g in sc:
        acc = g.nodes()
        cons = [i for i, (x, _p) in enumerate(acc) if x.get("k") in ("Call", "MethodCall") and call_name(x) in consumers]
        if not cons:
            continue
        for i, (x, _p) in enumerate(acc):
            if x.get("k") != "Ret" or str(x.get("x", "")).startswith("desugar") or i > min(cons):
                continue
            if any((call_name(y) or "").endswith("result::Result::Err") for y in subnodes(x) if y.get("k") == "Call"):
                continue
            guards = [c for c in enclosing_contexts(g, i) if c[0] in ("if-then", "if-else", "let-else", "arm") and not _is_try(c)]
            queries = []
            for c in guards:
                gx = c[1].get("cond") if c[0].startswith("if") else (c[1].get("init") if c[0] == "let-else" else c[1]["scrut"])
                for y in subnodes(gx or {}):
                    q = P.fns.get(call_name(y)) if y.get("k") in ("Call", "MethodCall") and call_name(y) else None
                    if q is not None and q.self_adt == rg.list and q.path not in consumers:
                        queries.append(q)
            for q in queries:
                reads = _deep_field_reads(P, q, q.body, rg.entry)
                key = "consumed-always:%s" % g.name
                if reads and rg.ext_field not in reads:
                    R.violated("R11-a", key, "%s returns without consuming the registry when %s says so, and %s looks only at `%s` of the entries, "
                               "never at `%s`: a registry that holds extensions but no definition takes the shortcut, so those extensions are "
                               "neither merged nor reported as extensions without an original" % (g.path, short(q.path), short(q.path),
                                                                                                "`, `".join(sorted(reads)), rg.ext_field), loc=g.loc())
                else:
                    R.holds("R11-a", key, "the shortcut before the consumption is taken only for a registry without entries or after "
                            "looking at the extensions as well", loc=g.loc())


def _r11a_lists(P, R):
    """every kind's registry is filled with originals, filled with extensions, and consumed (kinds = the merge functions' types;
    a registry is identified by its type instantiation, whatever holds it: a local, a struct field, ...)"""
    rg = registry(P)
    roles = {rg.set.path: "registers originals", rg.add.path: "registers extensions", rg.into.path: "is consumed"}
    # who reports extensions without an original?  On the reference tree the consumer does; if it does not fail any more, the list's
    # other methods that construct the registry's error (besides the one registering originals) carry that duty, and every kind's
    # registry must be asked
    if rg.entry is not None and not _err_sites(inlined(P, rg.into), rg):
        for m_ in P.fns.values():
            if m_.self_adt == rg.list and not m_.derived and not m_.impl_trait and m_.kind == "AssocFn" \
                    and m_.path not in (rg.set.path, rg.add.path, rg.into.path) and _err_sites(m_, rg):
                roles[m_.path] = "has its orphan extensions reported"
        if len(roles) == 3:
            R.undecided("R11-a", "orphans", "%s cannot fail and no other method of the registry reports extensions without an original; "
                        "where orphans are reported is not decided" % rg.into.path, loc=rg.into.loc())
    origs = {orig for _, orig, _ in merge_fns(P)}
    seen = {}
    sc = _scope(P)
    for _round in range(4):
        lifted = {}
        for g in sc:
            for n in g.walk():
                if n.get("k") not in ("MethodCall", "Call"):
                    continue
                cn = call_name(n)
                if cn not in roles or not call_args(n):
                    continue
                targs = []
                for recv in call_args(n):
                    for k_ in ("t", "ta"):
                        targs += _head_args(recv.get(k_) or "")[1]
                kinds = [t for t in targs if t in origs]
                if kinds:
                    seen.setdefault(kinds[0], set()).add(roles[cn])
                elif g.path not in roles and g.path != _entry(P).path and any(_IDENT.match(t) or t.startswith("<") for t in targs):
                    # the registry is handled generically here (a `Wrapper<T>` method, or a generic helper taking the registry of
                    # any kind): this function takes over the role at its own call sites
                    lifted[g.path] = roles[cn]
        if not lifted:
            break
        roles.update(lifted)
    _consumed_always(P, R, rg, sc, {p_ for p_, r_ in roles.items() if r_ == "is consumed"})
    mf = merge_fns(P)
    R.floor("R11-a", "merge functions (by signature)", len(mf), 7)
    for g, orig, ext in mf:
        got = seen.get(orig, set())
        key = "list:" + orig.split("::")[-1]
        if not got:
            R.undecided("R11-a", key, "no registry of (%s, %s) is used by the resolver in a recognised way" % (orig.split("::")[-1], ext.split("::")[-1]), loc=g.loc())
            continue
        missing = sorted(set(roles.values()) - got)
        R.check("R11-a", key, not missing, "filled with originals and extensions, consumed",
                "the registry of %s %s but never %s: %s"
                % (orig.split("::")[-1], " and ".join(sorted(got)), " / ".join(missing),
                   "an `extend` item of that kind without a definition is dropped silently instead of being an error"
                   if missing == ["has its orphan extensions reported"] else "those items never reach the merged document"), loc=_entry(P).loc())


def _grown_atoms(h, pv, expr):
    """atoms that reach `expr` through collections it is made of being *filled* after their creation: `v.push(x)` / `v.extend(xs)`
    on a local the expression depends on, and calls that receive such a local by `&mut` (provenance follows bindings, not
    mutation, so an accumulator built by pushes would otherwise look empty)"""
    deps, todo = set(), [expr]
    while todo:
        e = todo.pop()
        for y in subnodes(e):
            if y.get("k") == "Path" and "local" in y and y["local"] not in deps:
                deps.add(y["local"])
                todo.extend(src for src, _x in pv.src.get(y["local"], []) if src is not None)
    out = set()

    def base_local(e):
        e = _strip_deref(e)
        return e.get("local") if e.get("k") == "Path" else None
    for n in h.walk():
        if n.get("k") == "MethodCall" and n["args"] and n["method"] in ("push", "push_back", "extend", "append", "insert", "extend_from_slice") \
                and base_local(n["recv"]) in deps:
            for a_ in n["args"]:
                out |= pv.atoms(a_)
        elif n.get("k") in ("Call", "MethodCall"):
            args = call_args(n)
            lent = [a_ for a_ in args if a_.get("k") == "AddrOf" and a_.get("mut") and base_local(a_) in deps]
            if lent and call_name(n):
                out.add(("call", call_name(n)))
                for a_ in args:
                    if a_ not in lent:
                        out |= pv.atoms(a_)
    return out


def _r11a_output(P, R):
    e = _entry(P)
    docs = [(h, n) for h in _scope(P) for n in h.walk()
            if n.get("k") == "Struct" and "rest" not in n and norm(n.get("adt")) == TS + "TypeSystemDocument"]
    R.floor("R11-a", "result document literal", len(docs), 1)
    mf = merge_fns(P)
    names = [g for g, _, _ in mf]
    reach = {}

    def reaches(h, target):
        # a merge function may be reached through a helper or a generic dispatcher the document is computed from
        if h not in reach:
            f = P.fns.get(h)
            reach[h] = P.reachable([f]) if f is not None and f.crate == CRATE and h != e.path else set()
        return target in reach[h]
    for h, d in docs:
        pvh = Prov(h)
        a = pvh.atoms(d) | _grown_atoms(h, pvh, d)
        refs = {x[1] for x in a if x[0] in ("def", "call")}
        for g, orig, ext in mf:
            ok = g.path in refs or any(reaches(r_, g.path) for r_ in refs)
            R.check("R11-a", "output:" + _tag(g, names), ok,
                    "merged %s reach the output document" % orig.split("::")[-1],
                    "the output document built in %s does not include the result of %s" % (h.path, g.path), loc=h.loc())
        R.check("R11-c", "directive-passthrough", TS + "TypeSystemDefinition::DirectiveDefinition" in refs,
                "directive definitions are passed through", "directive definitions do not reach the output", loc=h.loc())
    # per kind: whatever puts a definition of that kind into the output enum takes it from its merge function (directly, or through
    # a dispatcher that reaches it) — not from the registry's raw (original, extensions) groups
    wraps = {}
    for en in ("TypeSystemDefinition", "TypeDefinition"):
        for v in P.adt(TS + en).variants:
            if len(v["fields"]) == 1:
                wraps[norm(v["path"])] = norm(v["fields"][0]["ty"])
    for h in _scope(P):
        pv, acc = None, h.nodes()
        for i, (n, par) in enumerate(acc):
            d = norm(n.get("def", "")) if n.get("k") == "Path" else None
            if d not in wraps or not n.get("dk", "").startswith("Ctor"):
                continue
            target = [g for g, orig, ext in mf if orig == wraps[d]]
            parent = acc[par][0] if par >= 0 else None
            if not target or parent is None:
                continue
            if parent.get("k") == "Call" and parent.get("f") is n and parent["args"]:
                up = parent["args"][0]          # Variant(x)
            elif parent.get("k") == "MethodCall" and any(a is n for a in parent["args"]):
                up = parent["recv"]             # iterator.map(Variant)
            elif parent.get("k") == "Call" and any(a is n for a in parent["args"]):
                up = [a for a in parent["args"] if a is not n]   # helper(list, Variant)
            else:
                continue
            pv = pv or Prov(h)
            a = pv.atoms(up)
            refs = {x[1] for x in a if x[0] in ("def", "call")}
            # the wrap (or the closure it sits in) is handed to a workspace function as a callback: what it wraps comes from there
            q, inner = par, n
            while q >= 0:
                y = acc[q][0]
                if y.get("k") in ("Call", "MethodCall") and call_name(y) in P.fns and any(_contains(a_, inner) for a_ in call_args(y)) \
                        and (acc[q][0] is not parent or parent.get("f") is not n):
                    cb = [a_ for a_ in call_args(y) if _contains(a_, inner)]
                    if cb and (cb[0].get("k") == "Closure" or cb[0] is n):
                        refs.add(call_name(y))
                        break
                q = acc[q][1]
            pnames = {x[1] for x in a if x[0] == "param"}
            if pnames and h.path != e.path:
                # the value arrives through a parameter (e.g. a per-kind `into_definition(self)`): look at what the callers pass
                idxs = [j for j, p_ in enumerate(h.params) if p_.get("k") == "Binding" and pv.params.get(p_.get("local")) in pnames]
                callee_names = {h.path} | ({h.impl_trait + "::" + h.name} if h.impl_trait else set())
                seen_callers = []
                for c_ in _scope(P):
                    cpv = None
                    for y in c_.walk():
                        if y.get("k") in ("Call", "MethodCall") and (call_name(y) in callee_names or norm(y.get("callee", "")) in callee_names):
                            cpv = cpv or Prov(c_)
                            ca = call_args(y)
                            for j in idxs:
                                if j < len(ca):
                                    at = cpv.atoms(ca[j])
                                    refs |= {x[1] for x in at if x[0] in ("def", "call")}
                                    seen_callers.append(not any(x[0] == "param" for x in at) or c_.path == e.path)
                if seen_callers and all(seen_callers):
                    a = frozenset(x for x in a if x[0] != "param")
            g = target[0]
            key = "output-merged:" + _tag(g, names)
            if g.path in refs or any(reaches(r_, g.path) for r_ in refs):
                R.holds("R11-a", key, "%s values enter the output through %s" % (wraps[d].split("::")[-1], short(g.path)), loc=h.loc())
            elif h.path != e.path and any(x[0] == "param" for x in a):
                R.undecided("R11-a", key, "%s wraps %s values that arrive through a parameter; their origin is not decided here" % (h.path, wraps[d].split("::")[-1]), loc=h.loc())
            else:
                R.violated("R11-a", key, "%s puts %s values into the output document that do not come from %s: the extensions of that kind "
                           "are dropped" % (h.path, wraps[d].split("::")[-1], g.path), loc=h.loc())
    # the output type has no extension variant (type-level "no extend item survives")
    out_enum = P.adt(TS + "TypeSystemDefinition")
    R.check("R11-c", "no-extension-variant", not any("Extension" in v for v in out_enum.variant_names()),
            "TypeSystemDefinition has no extension variant", "output type can carry extensions: %s" % out_enum.variant_names())


# ------------------------------------------------------------------------------------------------------------------ R11-b
_SETLIKE = re.compile(r"(^|::)(IndexSet|HashSet|BTreeSet|IndexMap|HashMap|BTreeMap)$")


def _set_passages(nodes):
    """operations among `nodes` that build a set / map (by result type): a sequence that passes through one keeps one element per
    key — a lossy step on the way of a merged component, whatever the key's notion of equality"""
    out = []
    for n in nodes:
        if n.get("k") in ("MethodCall", "Call"):
            h = _head_args(n.get("t") or "")[0]
            if _SETLIKE.search(h) and (n.get("k") == "MethodCall" and n.get("method") in ("collect", "into", "unique", "extend")
                                       or (call_name(n) or "").endswith(("from_iter", "::from", "::new", "::with_capacity", "::default"))):
                out.append("%s into %s" % (n.get("method") or short(call_name(n)), h.split("::")[-1]))
    return out


def _strip_deref(e):
    e = _strip(e)
    while e is not None and e.get("k") == "Unary" and e.get("op") in ("Deref", "*"):
        e = _strip(e["e"])
    return e or {}


def _inplace_merge(P, R, f, tag, orig, ext, e_fields, grows, pv):
    """the in-place idiom: nothing of the original can be lost unless a component is overwritten or shrunk; each mergeable
    component must be extended, unconditionally and once per extension in iteration order, with the extensions' same component"""
    dropped = []
    for n in f.walk():
        if n.get("k") in ("Assign", "AssignOp"):
            l = _strip_deref(n["l"])
            if l.get("k") == "Field" and norm(l.get("adt", "")) == orig:
                dropped.append("assignment to `%s`" % l["field"])
        elif n.get("k") == "MethodCall" and n["method"] in LOSSY_OR_REORDERING:
            r_ = _strip_deref(n["recv"])
            if r_.get("k") == "Field" and norm(r_.get("adt", "")) == orig:
                dropped.append("`%s` on `%s`" % (n["method"], r_["field"]))
    R.check("R11-b", tag + ":exhaustive-pattern", not dropped, "the original is kept whole and extended in place",
            "%s merges in place but also changes components of the original (%s): their content is lost" % (f.path, dropped), loc=f.loc())
    R.check("R11-b", tag + ":result-literal", not dropped, "result is the original, extended in place",
            "%s merges in place but also changes components of the original (%s)" % (f.path, dropped), loc=f.loc())
    # the function absorbs *one* extension (its parameter is an E, not a collection of E): then the loop over the extensions is
    # at its call sites, which must apply it to every extension, unconditionally
    single = any(peel_ty(t) == ext for t in _param_types(f))
    if single:
        names_ = {f.path} | ({f.impl_trait + "::" + f.name} if f.impl_trait else set())
        sites = []
        for c_ in _scope(P):
            for i, (y, _p) in enumerate(c_.nodes()):
                if y.get("k") in ("Call", "MethodCall") and (call_name(y) in names_ or norm(y.get("callee", "")) in names_):
                    sites.append((c_, i))
        if not sites:
            R.undecided("R11-b", tag + ":every-extension", "%s absorbs one extension at a time, but no call site of it was found" % f.path, loc=f.loc())
        else:
            bad = []
            for c_, i in sites:
                ctx = enclosing_contexts(c_, i)
                if not any(c[0] == "loop" for c in ctx):
                    bad.append("%s calls it outside a loop" % short(c_.path))
                elif any(c[0] in ("if-then", "if-else", "let-else") or (c[0] == "arm" and c[1] is not None and not str(c[1].get("src", "")).startswith("ForLoop")) for c in ctx):
                    bad.append("%s calls it under a condition" % short(c_.path))
                loops = [c[1] for c in ctx if c[0] == "loop"]
                if loops and any(y.get("k") == "Break" and not str(y.get("x", "")).startswith("desugar") for y in subnodes(loops[0])):
                    bad.append("the loop in %s can stop early" % short(c_.path))
            R.check("R11-b", tag + ":every-extension", not bad, "applied to every extension, in iteration order",
                    "%s is not applied to every extension (%s): the skipped extensions are lost" % (f.path, "; ".join(bad)), loc=f.loc())
    for name in e_fields:
        key = "%s:concat:%s" % (tag, name)
        mine = [(i, n) for i, n in grows if _strip_deref(n["recv"])["field"] == name]
        if not mine:
            touched = any(n.get("k") == "Field" and n.get("field") == name and norm(n.get("adt", "")) == orig for n in f.walk())
            lent = any(n.get("k") == "AddrOf" and n.get("mut") and norm(peel_ty(n.get("t"))) == orig for n in f.walk())
            if not touched and not lent:
                R.violated("R11-b", key, "%s merges in place but never touches `%s` of the original: the result's `%s` is the original's alone, "
                           "the extensions' `%s` is lost" % (f.path, name, name, name), loc=f.loc())
            else:
                R.undecided("R11-b", key, "%s extends components in place, but no append to `%s` was recognised" % (f.path, name), loc=f.loc())
            continue
        why = []
        for i, n in mine:
            aa = pv.atoms(n["args"][-1])
            if not has_field(aa, ext, name) or any(has_field(aa, ext, o) for o in e_fields if o != name):
                why.append("the appended value is not the extensions' `%s`" % name)
            if any(x.get("k") == "MethodCall" and x["method"] in LOSSY_OR_REORDERING for x in subnodes(n["args"][-1])):
                why.append("elements are dropped or reordered before appending")
            ctx = enclosing_contexts(f, i)
            if any(c[0] in ("if-then", "if-else", "let-else") or (c[0] == "arm" and c[1] is not None and not str(c[1].get("src", "")).startswith("ForLoop")) for c in ctx):
                why.append("the append is conditional")
            if not any(c[0] == "loop" for c in ctx) and not single:
                why.append("the append is not inside the loop over the extensions")
        if len(mine) > 1:
            why.append("`%s` is appended to %d times" % (name, len(mine)))
        R.check("R11-b", key, not why, "`%s` extended in place with every extension's `%s`, in order" % (name, name),
                "%s: merged `%s` is not original.%s followed by every extension's `%s` (%s)" % (f.path, name, name, name, "; ".join(sorted(set(why)))), loc=f.loc())


def r11b(P, R):
    mf = merge_fns(P)
    names = [g for g, _, _ in mf]
    R.floor("R11-b", "merge functions (by signature)", len(mf), 7)
    helpers = {}
    for f, orig, ext in mf:
        o_adt, e_adt = P.adt(orig), P.adt(ext)
        tag = _tag(f, names)
        pv = Prov(f)
        sc = scope_fns(P, f)
        for h in sc[1:]:
            if h.path not in [g.path for g in names]:
                helpers[h.path] = h
        pats = [n for n in f.walk() if n.get("k") == "Struct" and "rest" in n and norm(n.get("pat_adt")) == orig]
        lits = [n for n in f.walk() if n.get("k") == "Struct" and "rest" not in n and norm(n.get("adt")) == orig]
        based = [n for n in lits if "base" in n or n.get("default_tail")]
        e_fields = [x for x in e_adt.fields() if x not in NOT_MERGED]
        # second idiom: the original is kept whole and each component is extended in place (`merged.f.extend(ext.f)` per extension)
        grows = [(i, n) for i, (n, _) in enumerate(f.nodes()) if n.get("k") == "MethodCall" and n["args"]
                 and _strip_deref(n["recv"]).get("k") == "Field" and norm(_strip_deref(n["recv"]).get("adt", "")) == orig
                 and n["method"] in ("extend", "append", "extend_from_slice", "push")]
        inplace = not pats and not lits and bool(grows)
        if inplace:
            _inplace_merge(P, R, f, tag, orig, ext, e_fields, grows, pv)
        # 1. original destructured exhaustively (no `..`), so a new field cannot be forgotten silently
        elif not pats:
            R.undecided("R11-b", tag + ":exhaustive-pattern", "%s does not take the original apart with a struct pattern; not decided for this shape" % f.path, loc=f.loc())
        else:
            ok = all(not p["rest"] and {x["name"] for x in p["fields"]} == set(o_adt.fields()) for p in pats)
            R.check("R11-b", tag + ":exhaustive-pattern", ok, "original destructured without `..`",
                    "%s does not destructure the original exhaustively (a `..` or missing field lets a component be dropped)" % f.path, loc=f.loc())
        # 2. result literal without ..base, one literal
        if inplace:
            pass
        elif based:
            R.violated("R11-b", tag + ":result-literal", "%s builds its result with `..base`: components not listed are copied without merging" % f.path, loc=f.loc())
        elif len(lits) == 1:
            R.holds("R11-b", tag + ":result-literal", "result built field by field", loc=f.loc())
        else:
            R.undecided("R11-b", tag + ":result-literal", "%s builds its result with %d struct literals; not decided for this shape" % (f.path, len(lits)), loc=f.loc())
        # 2b. no shortcut exit: every path builds the merged literal, unless the shortcut's guard inspects every content component
        e_content = [x for x in e_adt.fields() if x not in NOT_MERGED]
        for i, (n, _) in enumerate(f.nodes()):
            if n.get("k") != "Ret":
                continue
            guards = [c for c in enclosing_contexts(f, i) if c[0] in ("if-then", "if-else", "arm", "let-else")]
            read = set()
            for c in guards:
                g = c[1]["cond"] if c[0].startswith("if") else (c[1].get("init") if c[0] == "let-else" else c[1]["scrut"])
                read |= _deep_field_reads(P, f, g, ext)
            # "there is no extension at all" implies there is nothing to merge: returning the original then is what the merge
            # computes anyway
            def no_extensions(cond, want=True):
                c_ = _strip(cond)
                while c_ is not None and c_.get("k") == "Unary" and c_.get("op") in ("Not", "!"):
                    c_, want = _strip(c_["e"]), not want
                if c_ is None:
                    return False
                def is_exts(e_):
                    return any(elem_type(e_.get(k_) or "") == ext for k_ in ("t", "ta"))
                if c_.get("k") == "MethodCall" and c_.get("method") == "is_empty" and is_exts(c_["recv"]):
                    return want
                if c_.get("k") == "Binary" and c_.get("op") in ("==", "Eq") and want:
                    sides = [_strip(c_["l"]), _strip(c_["r"])]
                    lens = [x for x in sides if x.get("k") == "MethodCall" and x.get("method") == "len" and is_exts(x["recv"])]
                    zeros = [x for x in sides if x.get("k") == "Lit" and x.get("v") in (0, "0")]
                    return bool(lens and zeros)
                return False
            inner = guards[0] if guards else None
            if inner is not None and inner[0] in ("if-then", "if-else") and no_extensions(inner[1]["cond"], inner[0] == "if-then") \
                    and not any(y.get("k") == "Struct" and "rest" not in y for y in subnodes(n)):
                R.holds("R11-b", tag + ":shortcut", "the original is returned as it is only when the list of extensions is empty", loc=f.loc())
                continue
            missing = [x for x in e_content if x not in read]
            if missing:
                R.violated("R11-b", tag + ":shortcut", "%s returns early without merging under a condition that does not look at the "
                           "extensions' %s: those components are dropped whenever the shortcut is taken" % (f.path, missing), loc=f.loc())
            else:
                R.undecided("R11-b", tag + ":shortcut", "%s has an early return whose guard reads every content component; its exactness is not decided" % f.path, loc=f.loc())
        # 3. every content field of the extension is read (by the function or a helper it calls)
        reads = set()
        for h in sc:
            reads |= field_reads(h)
        for ef in e_fields:
            R.check("R11-b", "%s:ext-read:%s" % (tag, ef), (ext, ef) in reads,
                    "extension component `%s` is read" % ef,
                    "%s never reads `%s.%s`: that component of every extension is lost" % (f.path, ext.split("::")[-1], ef),
                    loc=f.loc())
        # 4. mergeable field types unique within the struct (what makes cross-wiring a type error)
        tys = [o_adt.field_types()[x] for x in e_fields if x in o_adt.field_types()]
        R.check("R11-b", tag + ":distinct-types", len(tys) == len(set(tys)), "mergeable components have pairwise distinct types",
                "two mergeable components of %s share a type (%s): a cross-wired merge would type-check" % (orig, tys), loc=f.loc())
        if len(lits) != 1 or based:
            continue
        lit = lits[0]
        # 5. per result field
        for fld in lit["fields"]:
            name = fld["name"]
            a = pv.atoms(fld["e"])
            if name in e_fields:
                base, chain = method_chain(fld["e"])
                names_ = [c["method"] for c in chain]
                chains = [c for c in chain if c["method"] == "chain"]
                ok_shape = len(chains) == 1 and names_[-1] == "collect"
                bad = [m for m in names_ if m in LOSSY_OR_REORDERING] + _set_passages(subnodes(fld["e"]))
                if bad:
                    R.violated("R11-b", "%s:concat:%s" % (tag, name),
                               "%s applies `%s` to the merged `%s`: the result is not original ++ extensions" % (f.path, bad, name), loc=f.loc())
                    continue
                if not ok_shape:
                    R.undecided("R11-b", "%s:concat:%s" % (tag, name), "merge expression is not a recognised chain/collect idiom: %s" % names_, loc=f.loc())
                    continue
                c = chains[0]
                ra = pv.atoms(c["recv"])
                aa = pv.atoms(c["args"][0])
                inner_bad = [n["method"] for n in subnodes(c["args"][0]) + subnodes(c["recv"])
                             if n.get("k") == "MethodCall" and n["method"] in LOSSY_OR_REORDERING]
                ok = has_field(ra, orig, name) and not has_field(ra, ext, name) and has_field(aa, ext, name) \
                    and not has_field(aa, orig, name) and not inner_bad
                R.check("R11-b", "%s:concat:%s" % (tag, name), ok, "`%s` = original.%s ++ extensions.%s (original first)" % (name, name, name),
                        "%s: merged `%s` is not `original.%s` chained with the extensions' `%s` in that order (%s)"
                        % (f.path, name, name, name, inner_bad or "receiver/argument provenance"), loc=f.loc())
            else:
                only = {x for x in a if x[0] == "field" and x[1] == orig}
                if not only and not pats:
                    R.undecided("R11-b", "%s:passthrough:%s" % (tag, name), "origin of result field `%s` is not visible as a component of the original" % name, loc=f.loc())
                    continue
                R.check("R11-b", "%s:passthrough:%s" % (tag, name), only == {("field", orig, name)},
                        "`%s` passes through from the original" % name,
                        "%s: result field `%s` is not the original's `%s` (computed from %s)" % (f.path, name, name, sorted(only)), loc=f.loc())
    # helpers the merge functions hand the extensions to (unzipN): every component pushed, in iteration order, exactly once
    for hp in sorted(helpers):
        h = helpers[hp]
        if h.kind not in ("Fn", "AssocFn"):
            continue
        pushes = [n for n in h.walk() if n.get("k") == "MethodCall" and n["method"] == "push"]
        bad = [n["method"] for n in h.walk() if n.get("k") == "MethodCall" and n["method"] in LOSSY_OR_REORDERING] + _set_passages(h.walk())
        # every element that enters comes out: no early exit from the per-element loop, no push under a condition on the element
        for i, (x, _p) in enumerate(h.nodes()):
            ctx = None
            if x.get("k") in ("Continue", "Break", "Ret") and not str(x.get("x", "")).startswith("desugar"):
                ctx = enclosing_contexts(h, i)
                if any(c[0] == "loop" and c[1].get("src") == "ForLoop" for c in ctx):
                    bad.append("`%s` inside the per-element loop" % x["k"].lower())
            elif x.get("k") == "MethodCall" and x["method"] in ("push", "push_back", "extend"):
                ctx = enclosing_contexts(h, i)
                li = next((j for j, c in enumerate(ctx) if c[0] == "loop"), None)
                if li is not None and any(c[0] in ("if-then", "if-else", "let-else") or (c[0] == "arm" and c[1] is not None
                                          and not str(c[1].get("src", "")).startswith(("ForLoop", "TryDesugar"))) for c in ctx[:li]):
                    bad.append("conditional `%s`" % x["method"])
        out = h.sig_output or ""
        k = len(_split_top(out[1:-1])) if out.startswith("(") and out.endswith(")") else None
        key = h.name + ":pushes"
        if bad:
            R.violated("R11-b", key, "%s, which the merge functions feed the components through, reorders or drops elements (%s): the merged component is no longer "
                       "original ++ extensions" % (h.path, bad), loc=h.loc())
        elif k and pushes:
            R.check("R11-b", key, len(pushes) == k, "%d components pushed per element" % k,
                    "%s pushes %d components per element but returns %d collections" % (h.path, len(pushes), k), loc=h.loc())
        elif k:
            R.undecided("R11-b", key, "%s returns %d collections but does not fill them by pushing per element; not decided for this shape" % (h.path, k), loc=h.loc())
        else:
            R.holds("R11-b", key, "no element-dropping or reordering operation", loc=h.loc())


# ------------------------------------------------------------------------------------------------------------------ R11-d
def _is_option_field(e, pv, adt, field, depth=0):
    """is expression `e` the Option-valued field itself (through references, `as_ref`-like views and single-assignment aliases)?"""
    e = _strip(e)
    while e is not None and e.get("k") == "MethodCall" and e.get("method") in ("as_ref", "as_mut", "as_deref", "as_deref_mut", "take", "clone", "iter"):
        e = _strip(e["recv"])
    while e is not None and e.get("k") == "Unary" and e.get("op") in ("Deref", "*"):
        e = _strip(e["e"])
    if e is None:
        return False
    if e.get("k") == "Field":
        return e.get("field") == field and norm(e.get("adt", "")) == adt
    if e.get("k") == "Path" and "local" in e and depth < 3:
        srcs = pv.src.get(e["local"], [])
        me = ("field", adt, field)
        if srcs and peel_ty(e.get("t") or "").startswith("core::option::Option<") \
                and all(me in x_ and not any(y_[0] == "field" and y_[1] == adt and y_ != me for y_ in x_) for _s, x_ in srcs):
            return True  # bound by a struct pattern `Entry { field, .. }`
        if len(srcs) == 1 and srcs[0][0] is not None and not srcs[0][1]:
            return _is_option_field(srcs[0][0], pv, adt, field, depth + 1)
    return False


_FLIP = {"present": "absent", "absent": "present"}


def _option_test(cond, pv, adt, field):
    """what a boolean condition being *true* says about the Option field: ("present"|"absent"|None, exact?)"""
    cond = _strip(cond)
    if cond is None:
        return None, False
    k = cond.get("k")
    if k == "LetExpr" and _is_option_field(cond["init"], pv, adt, field):
        v, _c = arm_variants({"arms": [{"pat": cond["pat"]}]})
        if v == {"Some"}:
            return "present", True
        if v == {"None"}:
            return "absent", True
        return None, False
    if k == "MethodCall" and cond.get("method") in ("is_some", "is_none") and _is_option_field(cond["recv"], pv, adt, field):
        return ("present" if cond["method"] == "is_some" else "absent"), True
    if k == "Unary" and cond.get("op") in ("Not", "!"):
        s, ex = _option_test(cond["e"], pv, adt, field)
        return (_FLIP[s], ex) if s and ex else (None, False)
    if k == "Binary" and cond.get("op") in ("&&", "And"):
        for side in (cond["l"], cond["r"]):
            s, _ex = _option_test(side, pv, adt, field)
            if s:
                return s, False  # implied by the conjunction, but the conjunction is narrower
    return None, False


def _presence(ctx, pv, adt, field):
    """what control context `ctx` (templates.enclosing_contexts) establishes about the Option field: (state, exact?)"""
    kind = ctx[0]
    if kind == "arm":
        m, arm = ctx[1], ctx[2]
        if m is None or not _is_option_field(m["scrut"], pv, adt, field):
            return None, False
        v, catch = arm_variants({"arms": [arm]})
        guarded = "guard" in arm
        if v == {"Some"}:
            return "present", not guarded
        if v == {"None"}:
            return "absent", not guarded
        if catch and not v:
            ov, og = set(), False
            for a in m["arms"]:
                if a is not arm:
                    vv, _c = arm_variants({"arms": [a]})
                    ov |= vv
                    og = og or "guard" in a
            if ov == {"Some"} and not og:
                return "absent", True
            if ov == {"None"} and not og:
                return "present", True
        return None, False
    if kind in ("if-then", "if-else"):
        s, ex = _option_test(ctx[1]["cond"], pv, adt, field)
        if s is None:
            return None, False
        if kind == "if-else":
            return (_FLIP[s], True) if ex else (None, False)
        return s, ex
    if kind == "let-else":
        let = ctx[1]
        if let.get("init") is None or not _is_option_field(let["init"], pv, adt, field):
            return None, False
        v, _c = arm_variants({"arms": [{"pat": let["pat"]}]})
        if v == {"Some"}:
            return "absent", True
        if v == {"None"}:
            return "present", True
    return None, False


def _prior_states(fn, idx, pv, adt, field):
    """states of the Option field established by *earlier* statements of the enclosing blocks that leave the function when their
    test succeeds: after `if let Some(x) = e.f { return .. }` the field is absent, after `let Some(x) = e.f else { return .. }`
    it is present"""
    acc = fn.nodes()
    out = set()
    child, p = idx, acc[idx][1]
    while p >= 0:
        n = acc[p][0]
        if n.get("k") == "Block":
            before = []
            for st in n.get("stmts", []):
                if _contains(st, acc[child][0]):
                    break
                before.append(st)
            for st in before:
                e = st.get("e") if st.get("k") == "Stmt" else st
                if e is None:
                    continue
                if e.get("k") == "If" and "else" not in e and str((e.get("then") or {}).get("t")) == "!":
                    s_, ex = _option_test(e["cond"], pv, adt, field)
                    if s_ and ex:
                        out.add(_FLIP[s_])
                elif e.get("k") == "Let" and "els" in e and e.get("init") is not None and _is_option_field(e["init"], pv, adt, field):
                    v, _c = arm_variants({"arms": [{"pat": e["pat"]}]})
                    if v == {"Some"}:
                        out.add("present")
                    elif v == {"None"}:
                        out.add("absent")
        elif n.get("k") == "Closure":
            break
        child, p = p, acc[p][1]
    return out


def _branch_of(ctx):
    kind = ctx[0]
    if kind == "arm":
        return ctx[2]["body"]
    if kind == "if-then":
        return ctx[1]["then"]
    if kind == "if-else":
        return ctx[1]["else"]
    if kind == "let-else":
        return ctx[1]["els"]
    return None


def _is_try(ctx):
    return ctx[0] == "arm" and ctx[1] is not None and str(ctx[1].get("src", "")).startswith("TryDesugar")


def _err_sites(fn, rg):
    """where the function fails: `Err(..)` constructions (however the payload is built: struct literal, `.into()`, helper); if the
    function has none, literals of the error struct"""
    acc = fn.nodes()
    errs = [(i, n) for i, (n, _) in enumerate(acc) if n.get("k") == "Call" and (call_name(n) or "").endswith("result::Result::Err")
            and not str(n.get("x", "")).startswith("desugar")]
    if errs:
        return errs
    return [(i, n) for i, (n, _) in enumerate(acc) if n.get("k") == "Struct" and "rest" not in n
            and (norm(n.get("adt", "")) == rg.err if rg.err else norm(n.get("adt", "")).endswith("Error"))]


def _pname(pv, f, i):
    p = f.params[i] if i < len(f.params) else None
    return pv.params.get(p.get("local")) if p is not None and p.get("k") == "Binding" else None


def r11d(P, R):
    """error shape of the registry (shared with C05: duplicate same-kind definitions are detected here).  Keys name the *role*
    (set_original = registers an original, add_extension = registers an extension, into = consumes the list)."""
    rg = registry(P)
    if rg.entry is None:
        raise AnchorMissing("the registry's per-name entry is not a struct of (Option<original>, Vec<extensions>); its error-shape clauses "
                            "are stated over those two components")
    _guarded(R, "R11-d", "anchor:set_original", _r11d_set, P, R, rg)
    _guarded(R, "R11-d", "anchor:add_extension", _r11d_add, P, R, rg)
    _guarded(R, "R11-d", "anchor:into", _r11d_into, P, R, rg)


def _r11d_set(P, R, rg):
    so = inlined(P, rg.set)
    pv = Prov(so)
    own = _pname(pv, so, rg.set_arg)
    errs = _err_sites(so, rg)
    R.floor("R11-d", "error constructions in set_original", len(errs), 1)
    for i, n in errs:
        conds = [c for c in enclosing_contexts(so, i) if c[0] in ("arm", "if-then", "if-else", "let-else") and not _is_try(c)]
        states = [(c, _presence(c, pv, rg.entry, rg.orig_field)) for c in conds]
        present = [(j, c, ex) for j, (c, (s, ex)) in enumerate(states) if s == "present"]
        absent = [c for c, (s, ex) in states if s == "absent"]
        # DuplicateOriginal only when an original is already registered
        if present:
            R.holds("R11-d", "set_original:dup-only", "DuplicateOriginal only when an original is already present", loc=so.loc())
        elif absent or not conds:
            R.violated("R11-d", "set_original:dup-only", "%s fails on a path where no original is registered yet (%s)"
                       % (so.path, "the error sits in the branch for an absent original" if absent else "the error is unconditional"), loc=so.loc())
        else:
            # presence tested through the wrong component: the guards of the failure read the entry, but never the component whose
            # presence *is* the failure condition
            read = set()
            for c in conds:
                gx = c[1].get("cond") if c[0].startswith("if") else (c[1].get("init") if c[0] == "let-else" else c[1]["scrut"])
                read |= {x[2] for x in pv.atoms(gx) if x[0] == "field" and x[1] == rg.entry}
            wrong = bool(read) and rg.orig_field not in read
            if wrong:
                msg = ("%s decides whether a definition is already registered by looking at `%s` of the entry, never at `%s`: an entry "
                       "that holds a definition is not recognised as such (a second definition overwrites the first without "
                       "DuplicateOriginal), or one that holds none is rejected" % (so.path, "`, `".join(sorted(read)), rg.orig_field))
                R.violated("R11-d", "set_original:dup-only", msg, loc=so.loc())
                R.violated("R11-d", "set_original:dup-always", msg, loc=so.loc())
                continue
            R.undecided("R11-d", "set_original:dup-only", "the condition under which %s fails is not a recognised presence test of `%s`" % (so.path, rg.orig_field), loc=so.loc())
        # ... and always then
        if not present:
            R.undecided("R11-d", "set_original:dup-always", "the duplicate guard of %s is not a recognised presence test" % so.path, loc=so.loc())
            continue
        j, g, exact = present[0]
        inner = conds[:j]
        branch = _branch_of(g)
        inside = subnodes(branch) if branch is not None else []
        oks = [y for y in inside if (call_name(y) or "").endswith("Result::Ok")]
        rets = [y for y in inside if y.get("k") == "Ret" and not _contains(y, n)]
        stores = [y for y in inside if y.get("k") == "Assign" and _is_option_field(y["l"], pv, rg.entry, rg.orig_field)]
        why = []
        if not exact:
            why.append("the guard tests more than `an original is present`")
        if inner:
            why.append("inside the guarded branch the error is under a further condition")
        if oks or rets:
            why.append("the guarded branch has an exit that does not report the duplicate")
        if stores:
            why.append("the guarded branch overwrites the stored original")
        R.check("R11-d", "set_original:dup-always", not why, "every second original is rejected (the guard is exactly `original is present`)",
                "%s rejects a second definition only under an extra condition (%s): otherwise the first definition is silently "
                "replaced or the second one dropped, without DuplicateOriginal" % (so.path, "; ".join(why)), loc=so.loc())
    # the store `entry.original = Some(original)`
    stores = [n for n in so.walk() if n.get("k") == "Assign" and _is_option_field(n["l"], pv, rg.entry, rg.orig_field)]
    sets = [n for n in so.walk() if n.get("k") == "MethodCall" and n.get("method") in ("insert", "replace", "get_or_insert", "get_or_insert_with")
            and n["args"] and _is_option_field(n["recv"], pv, rg.entry, rg.orig_field)]
    vals = [n["r"] for n in stores] + [n["args"][0] for n in sets]
    if not vals:
        R.undecided("R11-d", "set_original:stores", "%s does not store into `%s` in a recognised way" % (so.path, rg.orig_field), loc=so.loc())
    else:
        R.check("R11-d", "set_original:stores", all(("param", own) in pv.atoms(v) for v in vals), "the original is stored",
                "%s stores something else than its argument as the original" % so.path, loc=so.loc())
    _key_check(P, R, rg, so, pv, own, "set_original")


def _key_check(P, R, rg, g, pv, own, role):
    """the registry is keyed by the element's own name (whichever map-typed field of the list does the look-up)"""
    maps = {n_ for n_, t_ in rg.list_adt.field_types().items() if "Map<" in t_}
    keyed = [n for n in g.walk() if n.get("k") == "MethodCall" and n["args"]
             and n.get("method") in ("entry", "get", "get_mut", "insert", "contains_key", "get_or_insert_with", "get_index_of", "get_full", "get_full_mut")
             and any(a[0] == "field" and a[1] == rg.list and a[2] in maps for a in pv.atoms(n["recv"]))
             and "Map<" in peel_ty(n["recv"].get("t") or "") and not any(a[0] == "field" and a[1] == rg.entry for a in pv.atoms(n["recv"]))]
    if not keyed:
        R.undecided("R11-d", role + ":key", "%s does not look its entry up in a recognised way" % g.path, loc=g.loc())
        return
    ok = all(("param", own) in pv.atoms(n["args"][0]) and any(x[0] == "call" and x[1].endswith("HasPos::name") for x in pv.atoms(n["args"][0])) for n in keyed)
    R.check("R11-d", role + ":key", ok, "registry keyed by the element's name", "%s does not key the registry by the element's own name" % g.path, loc=g.loc())


def _r11d_add(P, R, rg):
    ae = inlined(P, rg.add)
    out = ae.sig_output or ""
    R.check("R11-d", "add_extension-total", not out.startswith(("core::result::Result<", "core::option::Option<")), "add_extension cannot fail",
            "%s returns %s: registering an extension has an error path" % (ae.path, out), loc=ae.loc())
    pv = Prov(ae)
    own = _pname(pv, ae, rg.add_arg)
    appends = [n for n in ae.walk() if n.get("k") == "MethodCall" and n["args"] and has_field(pv.atoms(n["recv"]), rg.entry, rg.ext_field)
               and elem_type(n["recv"].get("ta") or n["recv"].get("t") or "") is not None
               and n.get("method") in ("push", "push_back", "extend", "extend_from_slice", "append", "insert", "push_front")]
    if not appends:
        R.undecided("R11-d", "add_extension:push", "%s does not append to `%s` in a recognised way" % (ae.path, rg.ext_field), loc=ae.loc())
    else:
        ok = all(n["method"] in ("push", "push_back", "extend", "extend_from_slice", "append") and ("param", own) in pv.atoms(n["args"][-1]) for n in appends)
        R.check("R11-d", "add_extension:push", ok, "extension appended (document order)",
                "%s does not append its argument at the end of `%s`" % (ae.path, rg.ext_field), loc=ae.loc())
    _key_check(P, R, rg, ae, pv, own, "add_extension")


def _r11d_into(P, R, rg):
    io = inlined(P, rg.into)
    pv = Prov(io)
    errs = _err_sites(io, rg)
    R.floor("R11-d", "error constructions in into_original_and_extensions", len(errs), 1)
    for i, n in errs:
        ctxs = [c for c in enclosing_contexts(io, i) if c[0] in ("arm", "if-then", "if-else", "let-else") and not _is_try(c)]
        ostate = ({_presence(c, pv, rg.entry, rg.orig_field)[0] for c in ctxs} | _prior_states(io, i, pv, rg.entry, rg.orig_field)) - {None}
        # is there an extension on this path?  enclosing arm over `extensions…next()`-like Option, or the error's payload is taken
        # from an element of `extensions`
        estate = set()
        for c in ctxs:
            if c[0] == "arm" and c[1] is not None and peel_ty(c[1]["scrut"].get("t")).startswith("core::option::Option<"):
                sa = pv.atoms(c[1]["scrut"])
                if has_field(sa, rg.entry, rg.ext_field) and not has_field(sa, rg.entry, rg.orig_field):
                    v, catch = arm_variants({"arms": [c[2]]})
                    estate.add("some" if v == {"Some"} else ("none" if (v == {"None"} or catch) else "?"))
        if "some" not in estate and "none" not in estate and has_field(pv.atoms(n), rg.entry, rg.ext_field):
            estate.add("some")  # the payload (position of the first extension) exists only if an extension does
        key = "into:orphan-only"
        if "present" in ostate:
            R.violated("R11-d", key, "%s fails for an entry whose original is present" % io.path, loc=io.loc())
        elif "none" in estate:
            R.violated("R11-d", key, "%s fails for an entry that has no extension" % io.path, loc=io.loc())
        elif "absent" in ostate and "some" in estate:
            R.holds("R11-d", key, "NoOriginal only for an extension without original", loc=io.loc())
        else:
            R.undecided("R11-d", key, "the condition under which %s fails is not a recognised (original absent, extension present) test" % io.path, loc=io.loc())
    # Some(orig) => (orig, entry.extensions): each original is grouped with the entry's own extensions
    groups, proper, bad = 0, 0, 0
    for n in io.walk():
        if n.get("k") == "Tup" and len(n.get("es", [])) >= 2:
            comps = n["es"]
        elif n.get("k") == "Struct" and "rest" not in n and len(n.get("fields", [])) >= 2 and norm(n.get("adt", "")) != rg.err and not n.get("variant"):
            comps = [f["e"] for f in n["fields"]]
        elif n.get("k") == "Call" and str(n.get("callee_dk", "")).startswith("Ctor") and len(n["args"]) >= 2:
            comps = n["args"]       # Variant(original, extensions): an intermediate value carrying the group
        else:
            continue
        at = [pv.atoms(c) for c in comps]
        ho = [has_field(a, rg.entry, rg.orig_field) for a in at]
        he = [has_field(a, rg.entry, rg.ext_field) for a in at]
        if not any(ho):
            continue  # not a group around an original
        groups += 1
        if any(ho[a_] and he[b_] and not ho[b_] for a_ in range(len(comps)) for b_ in range(len(comps)) if a_ != b_):
            proper += 1
        elif not any(he):
            bad += 1    # an original grouped with nothing that comes from the entry's extensions
        # otherwise the components are not separable here (both derive from one intermediate value): no evidence either way
    if not groups:
        R.undecided("R11-d", "into:pairs", "%s does not build (original, extensions) groups in a recognised way" % io.path, loc=io.loc())
    else:
        if not proper and not bad:
            R.undecided("R11-d", "into:pairs", "%s groups originals with values whose origin is not separable here" % io.path, loc=io.loc())
            return
        R.check("R11-d", "into:pairs", proper >= 1, "each original is paired with its own extensions",
                "%s pairs originals with something else than the entry's `%s`" % (io.path, rg.ext_field), loc=io.loc())


# ------------------------------------------------------------------------------------------------------------------ R11-e
def r11e(P, R):
    """document order of extensions is preserved: nothing in the resolver reorders or drops elements of a collection whose
    *elements are extensions* (Vec<XExtension>, Vec<ExtensionType>, iterators over them)"""
    rg = registry(P)
    ext_types = {ext for _, _, ext in merge_fns(P)} | {rg.ext_param}
    group_marks = {rg.orig_param} | {orig for _, orig, _ in merge_fns(P)}
    n = 0
    generic = {}
    sc = _scope(P)
    for f in sc:
        for c in f.walk():
            if c.get("k") != "MethodCall":
                continue
            cands = [elem_type(c["recv"].get(k_) or "") for k_ in ("ta", "t")]
            el = next((e for e in cands if e in ext_types), None)
            m = c["method"]
            if el is None:
                e0 = next((e for e in cands if e), None)
                if e0 and _IDENT.match(e0) and e0 not in ext_types and e0 != rg.orig_param and m in LOSSY_OR_REORDERING and f.kind == "Fn":
                    # the element type is a type parameter of a free helper: what it does to extensions is decided where it is called
                    generic[f.path] = (f, m)
                    continue
                # a sort of the (original, extensions) groups is the one legitimate sort: stable, keyed by the original
                if m.startswith("sort"):
                    key = "sort:%s:%s" % (f.name, m)
                    if e0 and any(re.search(r"(?<![\w:])%s(?![\w:])" % re.escape(g), e0) for g in group_marks):
                        stable = m in ("sort", "sort_by", "sort_by_key", "sort_by_cached_key")
                        R.check("R11-e", key, stable, "stable sort of (original, extensions) groups",
                                "`%s` on %s in %s is not a stable sort" % (m, e0, f.path), loc=f.loc())
                    else:
                        R.undecided("R11-e", key, "`%s` on %s in %s: not a collection this rule knows" % (m, e0, f.path), loc=f.loc())
                continue
            n += 1
            key = "%s:%s" % (f.name, m)
            if m in LOSSY_OR_REORDERING:
                R.violated("R11-e", key, "`%s` is applied to a collection of extensions (%s) in %s: extensions are no longer "
                           "merged in document order / some are dropped" % (m, el, f.path), loc=f.loc())
            else:
                R.holds("R11-e", key, "order-preserving use `%s` on a collection of %s" % (m, el.split("::")[-1]), loc=f.loc())
    for hp, (hf, m) in sorted(generic.items()):
        used = False
        for f in sc:
            for c in f.walk():
                if c.get("k") != "Call" or call_name(c) != hp:
                    continue
                used = True
                els = [elem_type(a.get("t") or "") for a in c["args"]]
                hit = next((e for e in els if e in ext_types), None)
                key = "%s:%s(%s)" % (f.name, hf.name, m)
                if hit:
                    n += 1
                    R.violated("R11-e", key, "%s passes a collection of extensions (%s) to %s, which applies `%s` to it: extensions are no "
                               "longer merged in document order / some are dropped" % (f.path, hit, hp, m), loc=f.loc())
                elif any(e and any(re.search(r"(?<![\w:])%s(?![\w:])" % re.escape(g), e) for g in group_marks) for e in els) and m.startswith("sort"):
                    stable = m in ("sort", "sort_by", "sort_by_key", "sort_by_cached_key")
                    R.check("R11-e", "sort:%s:%s" % (f.name, m), stable, "stable sort of (original, extensions) groups (through %s)" % hf.name,
                            "`%s` in %s is not a stable sort" % (m, hp), loc=f.loc())
                else:
                    R.undecided("R11-e", key, "%s applies `%s` through the generic helper %s to a collection this rule does not know" % (f.path, m, hp), loc=f.loc())
        if not used:
            R.undecided("R11-e", "%s:%s" % (hf.name, m), "%s applies `%s` to a collection of a type parameter and no call of it was found" % (hp, m), loc=hf.loc())
    R.floor("R11-e", "operations on extension collections", n, 3)
    _guarded(R, "R11-e", "anchor:input-order", _r11e_input, P, R)


def _r11e_input(P, R):
    """the resolver's input lists definitions and extensions in file / document order, which is the order extensions are merged in:
    the methods of the input document type that combine documents (merge, Extend) keep the order of what they are given"""
    DOC, ITEM = TS + "TypeSystemOrExtensionDocument", TS + "TypeSystemDefinitionOrExtension"
    # ... i.e. the methods that return a document or change one in place; a read-only query over a document (a name set, a count)
    # produces nothing the resolver sees
    fns = [f for f in P.fns.values() if f.self_adt == DOC and not f.derived and "::tests" not in f.path and f.kind in ("Fn", "AssocFn")
           and (peel_ty(f.sig_output or "") == DOC or (f.sig_output or "").startswith("core::result::Result<" + DOC)
                or any(t.startswith("&mut ") and peel_ty(t) == DOC for t in f.sig_inputs))]
    n = 0
    for f in sorted(fns, key=lambda x: x.path):
        for c in f.walk():
            if c.get("k") == "MethodCall":
                el = next((e for e in (elem_type(c["recv"].get(k_) or "") for k_ in ("ta", "t")) if e in (DOC, ITEM)), None)
                if el is None:
                    continue
                n += 1
                key = "input-order:%s:%s" % (f.name, c["method"])
                if c["method"] in LOSSY_OR_REORDERING:
                    R.violated("R11-e", key, "%s applies `%s` to the %s it combines: the resolver no longer sees definitions and extensions "
                               "in document order" % (f.path, c["method"], el.split("::")[-1]), loc=f.loc())
                else:
                    R.holds("R11-e", key, "order-preserving `%s`" % c["method"], loc=f.loc())
            elif c.get("k") == "Call" and (call_name(c) or "") in ("core::mem::swap", "core::mem::replace"):
                tys = [peel_ty(a.get("t") or "") for a in c["args"]]
                if not any(t == DOC or elem_type(t) in (DOC, ITEM) for t in tys):
                    continue
                n += 1
                key = "input-order:%s:%s" % (f.name, call_name(c).split("::")[-1])
                if call_name(c).endswith("swap"):
                    R.violated("R11-e", key, "%s exchanges the document it accumulates with another one (`mem::swap`): what was accumulated "
                               "from earlier files ends up after a later file, so extensions are merged out of file order" % f.path, loc=f.loc())
                else:
                    R.undecided("R11-e", key, "%s replaces a document buffer with `mem::replace`; the resulting order is not decided" % f.path, loc=f.loc())
    R.floor("R11-e", "operations that combine input documents", n, 1)
    _builtins_appended(P, R, DOC, ITEM)


def builtins_appended(P, R):
    """shared with C05: a built-in that does not reach the document changes the verdict of `check` as well"""
    _builtins_appended(P, R, TS + "TypeSystemOrExtensionDocument", TS + "TypeSystemDefinitionOrExtension")


def _builtins_appended(P, R, DOC, ITEM):
    """built-in definitions (parameterless producers of Vec<definition-or-extension>) are appended to the resolver's input as they
    are.  A selecting adaptor between producer and `extend` is decided by what it selects on: if the names that suppress a built-in
    *definition* can come from the target of an `extend` item, a valid extension of a built-in loses its original (VIOLATED);
    any other filter is UNDECIDED."""
    producers = {f.path for f in P.fns.values() if not f.sig_inputs and f.kind == "Fn" and not f.derived and "::tests" not in f.path
                 and (f.sig_output or "") == "alloc::vec::Vec<%s>" % ITEM}
    sink = "<%s as core::iter::traits::collect::Extend>::extend" % DOC
    ext_adts = {norm(v["fields"][0]["ty"]) for v in P.adt(TS + "TypeExtension").variants if len(v["fields"]) == 1} | {TS + "SchemaExtension"}
    n = 0
    for h in sorted(P.fns.values(), key=lambda x: x.path):
        if h.derived or "::tests" in h.path or h.kind not in ("Fn", "AssocFn"):
            continue
        sinks = [c for c in h.walk() if c.get("k") == "MethodCall" and call_name(c) == sink and c["args"]]
        if not sinks:
            continue
        pv = Prov(h)
        for c in sinks:
            da = pv.deep_atoms(c["args"][0])
            prods = sorted(x[1] for x in da if x[0] == "call" and x[1] in producers)
            if not prods:
                continue
            n += 1
            key = "builtins-appended:%s:%s" % (h.name, "+".join(short(p_).split("::")[-1] for p_ in prods))
            # the expressions the appended value is made of: the argument, the locals it depends on, same-crate helpers it goes through
            exprs, todo, seen_l = [(h, c["args"][0])], [c["args"][0]], set()
            while todo:
                e = todo.pop()
                for y in subnodes(e):
                    if y.get("k") == "Path" and "local" in y and y["local"] not in seen_l:
                        seen_l.add(y["local"])
                        for src, _x in pv.src.get(y["local"], []):
                            if src is not None:
                                exprs.append((h, src))
                                todo.append(src)
            helpers = set()
            for _g, e in list(exprs):
                for y in subnodes(e):
                    cn = call_name(y) if y.get("k") in ("Call", "MethodCall") else None
                    g2 = P.fns.get(cn) if cn else None
                    if g2 is not None and g2.crate == h.crate and cn not in producers and not g2.derived:
                        helpers.add(cn)
            for cn in sorted(helpers):
                exprs.append((P.fns[cn], P.fns[cn].body))
            filters = [(g, y) for g, e in exprs for y in subnodes(e)
                       if y.get("k") == "MethodCall" and y["method"] in (LOSSY_OR_REORDERING - {"insert", "remove", "pop", "clear"}) | {"filter", "filter_map", "retain"}
                       and re.search(r"\b%s\b" % ITEM.split("::")[-1], norm(y["recv"].get("t") or "") or "")]
            if not filters:
                R.holds("R11-e", key, "appended as produced", loc=h.loc())
                continue
            leaked = set()
            for g, y in filters:
                gpv = Prov(g)
                consulted = set()
                for z in subnodes(y):
                    if z.get("k") == "MethodCall" and z["method"] in ("contains", "contains_key", "get") and _strip_deref(z["recv"]).get("k") == "Path":
                        consulted.add(_strip_deref(z["recv"]).get("local"))
                import prov as _prov
                for lid in consulted:
                    for src, _x in gpv.src.get(lid, []):
                        if src is None:
                            continue
                        da = set(gpv.deep_atoms(src))
                        for x in list(da):
                            if x[0] == "def" and x[1] in P.fns:
                                da |= set(_prov.return_summary(x[1]))
                        leaked |= {x[1].split("::")[-1] for x in da if x[0] == "field" and x[1] in ext_adts and x[2] == "name"}
                for z in g.walk():
                    if z.get("k") == "MethodCall" and z["args"] and z["method"] in ("insert", "extend", "push") \
                            and _strip_deref(z["recv"]).get("k") == "Path" and _strip_deref(z["recv"]).get("local") in consulted:
                        for a_ in z["args"]:
                            leaked |= {x[1].split("::")[-1] for x in gpv.deep_atoms(a_) if x[0] == "field" and x[1] in ext_adts and x[2] == "name"}
            mixed = []
            types_ = {norm(v["fields"][0]["ty"]) for v in P.adt(TS + "TypeDefinition").variants if len(v["fields"]) == 1}
            for g, y in filters:
                gpv = Prov(g)
                if any(z.get("k") == "Match" and not str(z.get("src", "")).startswith(("ForLoop", "TryDesugar")) for z in subnodes(y)):
                    continue   # the predicate distinguishes kinds itself
                tests = [z for z in subnodes(y) if z.get("k") == "MethodCall" and z["method"] in ("contains", "contains_key") and _strip_deref(z["recv"]).get("k") == "Path"]
                for z in tests:
                    lid = _strip_deref(z["recv"]).get("local")
                    srcs = gpv.src.get(lid, [])
                    grown = any(w.get("k") == "MethodCall" and w["method"] in ("insert", "extend", "push") and _strip_deref(w["recv"]).get("local") == lid for w in g.walk())
                    if len(srcs) != 1 or srcs[0][0] is None or grown or srcs[0][0].get("k") not in ("Call", "MethodCall"):
                        continue
                    da = gpv.deep_atoms(srcs[0][0])
                    has_dir = any(x[0] == "field" and x[1] == TS + "DirectiveDefinition" and x[2] == "name" for x in da)
                    has_ty = any(x[0] == "field" and x[1] in types_ and x[2] == "name" for x in da)
                    if has_dir and has_ty and len(tests) == 1:
                        mixed.append(short(call_name(srcs[0][0]) or "?"))
            if mixed and not leaked:
                R.violated("R11-e", key, "%s appends a built-in definition only if its name is not in the one set returned by %s, which holds "
                           "the names of type definitions *and* of directive definitions: types and directives live in different namespaces, so "
                           "a user directive suppresses the built-in type of the same name (and vice versa), and what extends or uses it is "
                           "left without its definition" % (h.path, "/".join(sorted(set(mixed)))), loc=h.loc())
                continue
            if leaked:
                R.violated("R11-e", key, "%s appends the built-in definitions only if their name is not in a set that is also filled from the "
                           "*targets of `extend` items* (%s.name): an extension of a built-in type suppresses the built-in it extends and is then "
                           "an extension without original" % (h.path, "/".join(sorted(leaked))), loc=h.loc())
            else:
                R.undecided("R11-e", key, "%s passes the built-in definitions through %s before appending them; what it selects on is not decided"
                            % (h.path, sorted({y["method"] for _g, y in filters})), loc=h.loc())
    R.floor("R11-e", "places that append built-in definitions to the schema document", n, 1)


RULES = [("R11-a", r11a), ("R11-b", r11b), ("R11-d", r11d), ("R11-e", r11e)]
EXPLANATION = (
    "C11 decided structurally for all inputs: (R11-a) every variant of the three sum types is routed explicitly to its "
    "same-kind registry, every kind's registry receives originals and extensions and is consumed, and all seven merged lists "
    "plus the directive definitions reach the output; (R11-b) each merge "
    "function destructures the original without `..`, builds the result field by field, reads every component of the "
    "extension type, and each merged component is `original.f.into_iter().chain(<extensions' f>).collect()` with the "
    "original as receiver and no lossy/reordering adaptor, pass-through fields come from the same-named original field; "
    "(R11-c) directive definitions pass through and the output type has no extension variant; (R11-d) error shape: "
    "DuplicateOriginal exactly when an original is already present, NoOriginal only for (None, some extension), registering an "
    "extension is total and appends; (R11-e) no operation in the resolver reorders or drops elements of a collection of extensions. "
    "Anchors are resolved by role (signature / field types), not by name. "
    "Not decided: order independence across files as a behavioural statement.")
ASSUMPTIONS = ["indexmap::IndexMap preserves insertion order (third-party)",
               "rustc type checker: same-kind routing is enforced by ExtensionList<Def, Ext> and fn(Def, Vec<Ext>) -> Def"]


def main(tier):
    return harness.run_property("C11", RULES, "other", EXPLANATION, ASSUMPTIONS, tier)
