"""C11 — Schema extensions merge into their definitions without loss or invention."""
import harness
from facts import (norm, call_name, short, subnodes, matches_on, arm_variants, field_reads, peel_ty)
from prov import Prov, has_field
from templates import LOSSY_OR_REORDERING, enclosing_contexts, method_chain

MOD = "nitrogql_semantics::schema_extension_resolver"
TS = "nitrogql_ast::type_system::"
NOT_MERGED = ("position", "name")  # identity of the extension, not content


def merge_fns(P):
    """merge functions anchored by signature: fn((XDefinition, Vec<XExtension>)) -> XDefinition"""
    out = []
    for f in P.fns.values():
        if not f.path.startswith(MOD) or f.kind != "Fn" or len(f.sig_inputs) != 1:
            continue
        i = f.sig_inputs[0]
        if i.startswith("(" + TS) and "alloc::vec::Vec<" + TS in i and f.sig_output.startswith(TS):
            orig = f.sig_output
            ext = i.split("alloc::vec::Vec<")[1].rstrip(">)")
            out.append((f, orig, ext))
    return out


def _deep_field_reads(P, f, expr, adt_path):
    """fields of `adt_path` read by `expr` or by any workspace function it (transitively) calls, closures included"""
    out = set()
    todo, seen = [expr], set()
    while todo:
        e = todo.pop()
        for y in subnodes(e):
            if y.get("k") == "Field" and norm(y.get("adt", "")) == adt_path:
                out.add(y["field"])
            cn = call_name(y) if y.get("k") in ("Call", "MethodCall") else None
            if cn and cn in P.fns and cn not in seen:
                seen.add(cn)
                todo.append(P.fns[cn].body)
    return out


def r11a(P, R):
    f = P.fn(MOD + "::resolve_schema_extensions")
    for enum, n in (("type_system::TypeSystemDefinitionOrExtension", 5), ("type_system::TypeDefinition", 6),
                    ("type_system::TypeExtension", 6)):
        adt = P.adt("nitrogql_ast::" + enum)
        ms = matches_on(f, enum)
        R.floor("R11-a", "matches over " + enum.split("::")[-1], len(ms), 1)
        for m in ms:
            v, catch = arm_variants(m)
            R.check("R11-a", "route:" + enum.split("::")[-1], v == set(adt.variant_names()) and not catch,
                    "all %d variants routed explicitly" % len(v),
                    "resolve_schema_extensions does not route every %s variant explicitly: %s, catch-all=%s"
                    % (enum, sorted(set(adt.variant_names()) - v), catch), loc=f.loc())
    # every list is filled by set_original + add_extension and consumed once; the output chains all of them
    pv = Prov(f)
    lists = {}
    for n in f.walk():
        if n.get("k") == "MethodCall" and (call_name(n) or "").startswith(MOD + "::extension_list::ExtensionList::"):
            base = n["recv"]
            while base.get("k") in ("AddrOf", "Unary"):
                base = base["e"]
            if base.get("k") == "Path" and "name" in base:
                lists.setdefault(base["name"], set()).add(n["method"])
    R.floor("R11-a", "extension lists", len(lists), 7)
    for name, ms in sorted(lists.items()):
        R.check("R11-a", "list:" + name, ms == {"set_original", "add_extension", "into_original_and_extensions"},
                "filled with originals and extensions, consumed", "list `%s` is only used with %s" % (name, sorted(ms)), loc=f.loc())
    docs = [n for n in f.walk() if n.get("k") == "Struct" and "rest" not in n and norm(n.get("adt")) == TS + "TypeSystemDocument"]
    R.floor("R11-a", "result document literal", len(docs), 1)
    mf = merge_fns(P)
    R.floor("R11-a", "merge functions (by signature)", len(mf), 7)
    for d in docs:
        a = pv.atoms(d)
        for g, orig, ext in mf:
            R.check("R11-a", "output:" + g.name, ("def", g.path) in a or ("call", g.path) in a,
                    "merged %s reach the output document" % orig.split("::")[-1],
                    "the output document does not include the result of %s" % g.path, loc=f.loc())
        R.check("R11-c", "directive-passthrough", ("def", TS + "TypeSystemDefinition::DirectiveDefinition") in a
                or ("call", TS + "TypeSystemDefinition::DirectiveDefinition") in a,
                "directive definitions are passed through", "directive definitions do not reach the output", loc=f.loc())
    # the output type has no extension variant (type-level "no extend item survives")
    out_enum = P.adt(TS + "TypeSystemDefinition")
    R.check("R11-c", "no-extension-variant", not any("Extension" in v for v in out_enum.variant_names()),
            "TypeSystemDefinition has no extension variant", "output type can carry extensions: %s" % out_enum.variant_names())
    # directive definitions pushed unchanged
    pushes = [n for n in f.walk() if n.get("k") == "MethodCall" and n["method"] == "push"]
    ok = len(pushes) == 1 and pushes[0]["args"][0].get("k") == "Path" and "local" in pushes[0]["args"][0]
    R.check("R11-c", "directive-push", ok, "directive definitions pushed as-is", "directive definitions are transformed before being pushed", loc=f.loc())


def r11b(P, R):
    for f, orig, ext in merge_fns(P):
        o_adt, e_adt = P.adt(orig), P.adt(ext)
        tag = f.name
        pv = Prov(f)
        # 1. original destructured exhaustively (no `..`), so a new field cannot be forgotten silently
        pats = [n for n in f.walk() if n.get("k") == "Struct" and "rest" in n and norm(n.get("pat_adt")) == orig]
        ok = len(pats) == 1 and not pats[0]["rest"] and {x["name"] for x in pats[0]["fields"]} == set(o_adt.fields())
        R.check("R11-b", tag + ":exhaustive-pattern", ok, "original destructured without `..`",
                "%s does not destructure the original exhaustively (a `..` or missing field lets a component be dropped)" % f.path, loc=f.loc())
        # 2. result literal without ..base, one literal
        lits = [n for n in f.walk() if n.get("k") == "Struct" and "rest" not in n and norm(n.get("adt")) == orig]
        ok = len(lits) == 1 and "base" not in lits[0] and not lits[0].get("default_tail")
        R.check("R11-b", tag + ":result-literal", ok, "result built field by field",
                "%s builds its result with `..base` or several literals" % f.path, loc=f.loc())
        if not lits:
            continue
        lit = lits[0]
        # 2b. no shortcut exit: every path builds the merged literal, unless the shortcut's guard inspects every content component
        e_content = [x for x in e_adt.fields() if x not in NOT_MERGED]
        for i, (n, _) in enumerate(f.nodes()):
            if n.get("k") != "Ret":
                continue
            guards = [c for c in enclosing_contexts(f, i) if c[0] in ("if-then", "if-else", "arm", "let-else")]
            read = set()
            for c in guards:
                g = c[1]["cond"] if c[0].startswith("if") else (c[1].get("init") if c[0] == "let-else" else c[1]["scrut"])
                read |= _deep_field_reads(P, f, g, ext)
            missing = [x for x in e_content if x not in read]
            if missing:
                R.violated("R11-b", tag + ":shortcut", "%s returns early without merging under a condition that does not look at the "
                           "extensions' %s: those components are dropped whenever the shortcut is taken" % (f.path, missing), loc=f.loc())
            else:
                R.undecided("R11-b", tag + ":shortcut", "%s has an early return whose guard reads every content component; its exactness is not decided" % f.path, loc=f.loc())
        # 3. every content field of the extension is read
        reads = field_reads(f)
        e_fields = [x for x in e_adt.fields() if x not in NOT_MERGED]
        for ef in e_fields:
            R.check("R11-b", "%s:ext-read:%s" % (tag, ef), (ext, ef) in reads,
                    "extension component `%s` is read" % ef,
                    "%s never reads `%s.%s`: that component of every extension is lost" % (f.path, ext.split("::")[-1], ef),
                    loc=f.loc())
        # 4. mergeable field types unique within the struct (what makes cross-wiring a type error)
        tys = [o_adt.field_types()[x] for x in e_fields if x in o_adt.field_types()]
        R.check("R11-b", tag + ":distinct-types", len(tys) == len(set(tys)), "mergeable components have pairwise distinct types",
                "two mergeable components of %s share a type (%s): a cross-wired merge would type-check" % (orig, tys), loc=f.loc())
        # 5. per result field
        for fld in lit["fields"]:
            name = fld["name"]
            a = pv.atoms(fld["e"])
            if name in e_fields:
                base, chain = method_chain(fld["e"])
                names = [c["method"] for c in chain]
                chains = [c for c in chain if c["method"] == "chain"]
                ok_shape = len(chains) == 1 and names[-1] == "collect"
                bad = [m for m in names if m in LOSSY_OR_REORDERING]
                if bad:
                    R.violated("R11-b", "%s:concat:%s" % (tag, name),
                               "%s applies `%s` to the merged `%s`: the result is not original ++ extensions" % (f.path, bad, name), loc=f.loc())
                    continue
                if not ok_shape:
                    R.undecided("R11-b", "%s:concat:%s" % (tag, name), "merge expression is not a recognised chain/collect idiom: %s" % names, loc=f.loc())
                    continue
                c = chains[0]
                ra = pv.atoms(c["recv"])
                aa = pv.atoms(c["args"][0])
                inner_bad = [n["method"] for n in subnodes(c["args"][0]) + subnodes(c["recv"])
                             if n.get("k") == "MethodCall" and n["method"] in LOSSY_OR_REORDERING]
                ok = has_field(ra, orig, name) and not has_field(ra, ext, name) and has_field(aa, ext, name) \
                    and not has_field(aa, orig, name) and not inner_bad
                R.check("R11-b", "%s:concat:%s" % (tag, name), ok, "`%s` = original.%s ++ extensions.%s (original first)" % (name, name, name),
                        "%s: merged `%s` is not `original.%s` chained with the extensions' `%s` in that order (%s)"
                        % (f.path, name, name, name, inner_bad or "receiver/argument provenance"), loc=f.loc())
            else:
                only = {x for x in a if x[0] == "field" and x[1] == orig}
                R.check("R11-b", "%s:passthrough:%s" % (tag, name), only == {("field", orig, name)},
                        "`%s` passes through from the original" % name,
                        "%s: result field `%s` is not the original's `%s` (computed from %s)" % (f.path, name, name, sorted(only)), loc=f.loc())
    # helper unzipN: pushes every component, in iteration order, exactly once
    for hn, k in (("unzip2", 2), ("unzip3", 3)):
        h = P.fn(MOD + "::" + hn)
        pushes = [n for n in h.walk() if n.get("k") == "MethodCall" and n["method"] == "push"]
        bad = [n["method"] for n in h.walk() if n.get("k") == "MethodCall" and n["method"] in LOSSY_OR_REORDERING]
        R.check("R11-b", hn + ":pushes", len(pushes) == k and not bad, "%d components pushed per element" % k,
                "%s pushes %d components (expected %d) or reorders (%s)" % (h.path, len(pushes), k, bad), loc=h.loc())


def r11d(P, R):
    EL = MOD + "::extension_list::ExtensionList::"
    item = MOD + "::extension_list::ExtensionItem"
    so = P.fn(EL + "set_original")
    ae = P.fn(EL + "add_extension")
    io = P.fn(EL + "into_original_and_extensions")
    # add_extension has no error path
    R.check("R11-d", "add_extension-total", ae.sig_output == "()", "add_extension cannot fail", "add_extension returns %s" % ae.sig_output, loc=ae.loc())
    # set_original: Err only under `Some(..) = item.original`
    pv = Prov(so)
    errs = [(i, n) for i, (n, _) in enumerate(so.nodes()) if n.get("k") == "Struct" and "rest" not in n
            and norm(n.get("adt", "")).endswith("ExtensionError")]
    R.floor("R11-d", "error constructions in set_original", len(errs), 1)
    for i, n in errs:
        ctx = enclosing_contexts(so, i)
        ok = False
        for c in ctx:
            if c[0] == "if-then":
                cond = c[1]["cond"]
                lets = [x for x in subnodes(cond) if x.get("k") == "LetExpr"]
                for l in lets:
                    v = [p for p in subnodes(l["pat"]) if p.get("k") == "TupleStruct" and norm(p.get("ctor_of", "")).endswith("Option::Some")]
                    if v and has_field(pv.atoms(l["init"]), item, "original"):
                        ok = True
        # ... and always then: the guard is exactly that test (no further conjunct that could let a second original through
        # to the store below)
        exact = None
        for c in ctx:
            if c[0] == "if-then":
                cond = c[1]["cond"]
                while cond.get("k") in ("DropTemps", "Paren"):
                    cond = cond["e"]
                if cond.get("k") == "LetExpr":
                    exact = has_field(pv.atoms(cond["init"]), item, "original")
                elif cond.get("k") == "MethodCall" and cond.get("method") == "is_some":
                    exact = has_field(pv.atoms(cond["recv"]), item, "original")
                elif cond.get("k") == "Binary" and cond.get("op") in ("&&", "And"):
                    exact = False
                break
        if exact:
            # every exit of the guarded block is the error
            for c in ctx:
                if c[0] == "if-then":
                    rets = [y for y in subnodes(c[1]["then"]) if y.get("k") == "Ret"]
                    oks = [y for y in subnodes(c[1]["then"]) if (call_name(y) or "").endswith("Result::Ok")]
                    if oks or len(rets) != 1:
                        exact = False
                    break
        if exact is None:
            R.undecided("R11-d", "set_original:dup-always", "the duplicate guard of set_original is not a recognised exact presence test", loc=so.loc())
        else:
            R.check("R11-d", "set_original:dup-always", exact, "every second original is rejected (the guard is exactly `original is present`)",
                    "set_original rejects a second definition only under an extra condition: otherwise the store below silently replaces "
                    "the first definition (its content is lost, no DuplicateOriginal)", loc=so.loc())
        R.check("R11-d", "set_original:dup-only", ok, "DuplicateOriginal only when an original is already present",
                "set_original fails on a path not guarded by `Some(_) = item.original`", loc=so.loc())
    # the store `item.original = Some(original)`
    stores = [n for n in so.walk() if n.get("k") == "Assign" and n["l"].get("k") == "Field" and n["l"]["field"] == "original"]
    ok = len(stores) == 1 and ("param", "original") in pv.atoms(stores[0]["r"])
    R.check("R11-d", "set_original:stores", ok, "the original is stored", "set_original does not store its argument as the original", loc=so.loc())
    # add_extension pushes its argument to `extensions`
    pv = Prov(ae)
    pushes = [n for n in ae.walk() if n.get("k") == "MethodCall" and n["method"] == "push"]
    ok = len(pushes) == 1 and has_field(pv.atoms(pushes[0]["recv"]), item, "extensions") and ("param", "extension") in pv.atoms(pushes[0]["args"][0])
    R.check("R11-d", "add_extension:push", ok, "extension appended (document order)", "add_extension does not append its argument to `extensions`", loc=ae.loc())
    # key of both registries is the element's own name
    for g, pn in ((so, "original"), (ae, "extension")):
        pv = Prov(g)
        entries = [n for n in g.walk() if n.get("k") == "MethodCall" and n["method"] == "entry"]
        ok = len(entries) == 1 and ("param", pn) in pv.atoms(entries[0]["args"][0]) and \
            any(x[0] == "call" and x[1].endswith("HasPos::name") for x in pv.atoms(entries[0]["args"][0]))
        R.check("R11-d", g.name + ":key", ok, "registry keyed by the element's name", "%s does not key the registry by the element's own name" % g.path, loc=g.loc())
    # into_original_and_extensions: NoOriginal only in the None arm of item.original with a first extension
    pv = Prov(io)
    errs = [(i, n) for i, (n, _) in enumerate(io.nodes()) if n.get("k") == "Struct" and "rest" not in n
            and norm(n.get("adt", "")).endswith("ExtensionError")]
    R.floor("R11-d", "error constructions in into_original_and_extensions", len(errs), 1)
    for i, n in errs:
        ctx = [c for c in enclosing_contexts(io, i) if c[0] == "arm"]
        in_none = False
        in_some_ext = False
        for _, m, arm in ctx:
            sa = pv.atoms(m["scrut"])
            v, _c = arm_variants({"arms": [arm]})
            if has_field(sa, item, "original") and "None" in v and not has_field(sa, item, "extensions"):
                in_none = True
            if has_field(sa, item, "extensions") and "Some" in v:
                in_some_ext = True
        R.check("R11-d", "into:orphan-only", in_none and in_some_ext, "NoOriginal only for an extension without original",
                "into_original_and_extensions fails on a path other than (original = None, some extension)", loc=io.loc())
    # Some(orig) => Ok((orig, item.extensions)) : pairs carry the item's own extensions
    oks = [n for n in io.walk() if n.get("k") == "Tup" and len(n["es"]) == 2 and has_field(pv.atoms(n["es"][1]), item, "extensions")]
    R.check("R11-d", "into:pairs", len(oks) >= 1, "each original is paired with its own extensions", "originals are not paired with their extension list", loc=io.loc())


def r11e(P, R):
    """document order of extensions is preserved: nothing in the resolver reorders or drops elements of a
    collection of extensions (Vec<ExtensionType>, Vec<XExtension>, iterators over them)"""
    n = 0
    for f in P.fns.values():
        if not f.path.startswith(MOD) or "::tests" in f.path:
            continue
        for c in f.walk():
            if c.get("k") != "MethodCall":
                continue
            t = peel_ty(c["recv"].get("ta") or c["recv"].get("t"))
            if "Extension" not in t or "(" in t or "ExtensionList" in t or "ExtensionItem" in t or "ExtensionError" in t:
                continue
            n += 1
            m = c["method"]
            key = "%s:%s" % (f.name, m)
            if m in LOSSY_OR_REORDERING and not (m == "next"):
                R.violated("R11-e", key, "`%s` is applied to a collection of extensions (%s) in %s: extensions are no longer "
                           "merged in document order / some are dropped" % (m, t, f.path), loc=f.loc())
            else:
                R.holds("R11-e", key, "order-preserving use `%s` on %s" % (m, t), loc=f.loc())
    R.floor("R11-e", "operations on extension collections", n, 8)
    # the only sort in the module sorts (original, extensions) pairs by the original's position
    sorts = []
    for f in P.fns.values():
        if f.path.startswith(MOD) and "::tests" not in f.path:
            for c in f.walk():
                if c.get("k") == "MethodCall" and c["method"].startswith("sort"):
                    sorts.append((f, c))
    for f, c in sorts:
        t = peel_ty(c["recv"].get("ta") or c["recv"].get("t"))
        stable = c["method"] in ("sort", "sort_by", "sort_by_key", "sort_by_cached_key")
        R.check("R11-e", "sort:%s:%s" % (f.name, c["method"]), (t.startswith("alloc::vec::Vec<(") or t.startswith("[(")) and stable,
                "stable sort of (original, extensions) pairs", "unexpected sort `%s` on %s in %s" % (c["method"], t, f.path), loc=f.loc())


RULES = [("R11-a", r11a), ("R11-b", r11b), ("R11-d", r11d), ("R11-e", r11e)]
EXPLANATION = (
    "C11 decided structurally for all inputs: (R11-a) every variant of the three sum types is routed explicitly to its "
    "same-kind registry and all seven merged lists plus the directive definitions reach the output; (R11-b) each merge "
    "function destructures the original without `..`, builds the result field by field, reads every component of the "
    "extension type, and each merged component is `original.f.into_iter().chain(<extensions' f>).collect()` with the "
    "original as receiver and no lossy/reordering adaptor, pass-through fields come from the same-named original field; "
    "(R11-c) directive definitions pass through and the output type has no extension variant; (R11-d) error shape: "
    "DuplicateOriginal only under `Some = item.original`, NoOriginal only for (None, some extension), add_extension is "
    "total and appends; (R11-e) no operation in the resolver reorders or drops elements of a collection of extensions. "
    "Not decided: order independence across files as a behavioural statement.")
ASSUMPTIONS = ["indexmap::IndexMap preserves insertion order (third-party)",
               "rustc type checker: same-kind routing is enforced by ExtensionList<Def, Ext> and fn(Def, Vec<Ext>) -> Def"]


def main(tier):
    return harness.run_property("C11", RULES, "other", EXPLANATION, ASSUMPTIONS, tier)
