"""Panic-site inventory over the typed HIR (DESIGN.md §4 `panic`, T7)."""
from facts import norm, call_name, subnodes, lit_value, str_lits_in, peel_ty

PANIC_METHODS = {
    "core::option::Option::unwrap": "unwrap", "core::option::Option::expect": "expect",
    "core::result::Result::unwrap": "unwrap", "core::result::Result::expect": "expect",
    "core::result::Result::unwrap_err": "unwrap_err", "core::result::Result::expect_err": "expect_err",
    "core::str::<impl str>::split_at": "split_at", "<str>::split_at": "split_at", "<[T]>::split_at": "split_at",
    "alloc::vec::Vec::remove": "Vec::remove", "alloc::vec::Vec::swap_remove": "Vec::swap_remove",
    "core::cell::RefCell::borrow": "RefCell::borrow", "core::cell::RefCell::borrow_mut": "RefCell::borrow_mut",
    "alloc::string::String::remove": "String::remove", "alloc::vec::Vec::drain": "Vec::drain",
    "alloc::vec::Vec::insert": "Vec::insert", "alloc::vec::Vec::split_off": "Vec::split_off",
    "core::num::NonZero::new_unchecked": "nonzero",
}


def panic_sites(fn):
    """[(kind, what, line, node)] potential panic sites in a function (closures included)"""
    out = []
    for n in fn.walk():
        k = n.get("k")
        if k == "Call":
            c = call_name(n) or ""
            if c.startswith("core::panicking::"):
                x = n.get("x") or ""
                mac = "panic"
                for m in ("unreachable", "assert_eq", "assert_ne", "assert", "todo", "unimplemented", "panic"):
                    if m in x:
                        mac = m
                        break
                if "parts_mod" in x or x.startswith("parts") or "<parts" in x:
                    mac = "parts!"
                msg = ""
                for a in n["args"]:
                    ls = str_lits_in(a)
                    if ls:
                        msg = ls[0]
                        break
                out.append((mac, (msg or "")[:40], n["s"][0], n))
        elif k == "MethodCall":
            c = norm(n.get("rd") or n.get("callee") or "")
            if c in PANIC_METHODS:
                msg = ""
                if n["args"]:
                    v = lit_value(n["args"][0])
                    if isinstance(v, str):
                        msg = v[:40]
                # what is being unwrapped: the callee that produced it
                src = n["recv"]
                prod = ""
                if src.get("k") in ("MethodCall", "Call"):
                    prod = (call_name(src) or "").split("::")[-1]
                kind = PANIC_METHODS[c]
                if "parts" in (n.get("x") or ""):
                    kind = "parts!"
                out.append((kind, msg or prod, n["s"][0], n))
        elif k == "Index":
            t = peel_ty(n.get("base_ty", ""))
            out.append(("index", t.split("<")[0].split("::")[-1], n["s"][0], n))
        elif k == "Binary" and n.get("op") in ("/", "%") and not n.get("callee"):
            out.append(("div", n["op"], n["s"][0], n))
    return out


def site_keys(fn):
    """stable keys without line numbers: fn path | kind | what | ordinal"""
    seen = {}
    out = []
    for kind, what, line, node in panic_sites(fn):
        base = "%s|%s|%s" % (fn.path, kind, what)
        i = seen.get(base, 0)
        seen[base] = i + 1
        out.append(("%s|%d" % (base, i), kind, what, line, node))
    return out
