"""C16 — The emitted server schema string re-parses to the schema that was checked."""
import harness
from facts import (norm, lit_value, call_name, short, subnodes, matches_on_type, lit_table, str_lits_in,
                   field_reads)
from prov import Prov, has_field, has_call
from templates import field_coverage, LOSSY_OR_REORDERING, scope_fns, enclosing_contexts

TRAIT = "nitrogql_printer::graphql_printer::GraphQLPrinter"
A = "nitrogql_ast::"
AST_TYPES = [
    # executable documents
    "operation::OperationDocument", "operation::OperationDefinition", "operation::FragmentDefinition",
    "variable::VariablesDefinition", "variable::VariableDefinition", "variable::Variable",
    "selection_set::SelectionSet", "selection_set::Field", "selection_set::FragmentSpread",
    "selection_set::InlineFragment", "directive::Directive", "value::Arguments",
    "value::IntValue", "value::FloatValue", "value::StringValue", "value::EnumValue",
    "value::ListValue", "value::ObjectValue", "type::NamedType", "type::NonNullType", "type::ListType",
    "base::Ident", "operation_ext::OperationDocumentExt", "operation_ext::ImportDefinition",
    # type-system documents
    "type_system::TypeSystemDocument", "type_system::TypeSystemOrExtensionDocument",
    "type_system::SchemaDefinition", "type_system::ScalarTypeDefinition", "type_system::ObjectTypeDefinition",
    "type_system::FieldDefinition", "type_system::InterfaceTypeDefinition", "type_system::UnionTypeDefinition",
    "type_system::DirectiveDefinition", "type_system::ArgumentsDefinition", "type_system::InputValueDefinition",
    "type_system::EnumTypeDefinition", "type_system::EnumValueDefinition", "type_system::InputObjectTypeDefinition",
    "type_system::SchemaExtension", "type_system::ScalarTypeExtension", "type_system::ObjectTypeExtension",
    "type_system::InterfaceTypeExtension", "type_system::UnionTypeExtension", "type_system::EnumTypeExtension",
    "type_system::InputObjectTypeExtension",
]
# BooleanValue/NullValue are printed through their `keyword` (the source spelling), which is content here
AST_TYPES_KEYWORD = ["value::BooleanValue", "value::NullValue"]
EXEMPT = {
    ("value::BooleanValue", "value"): "printed through `keyword`, which spells the same boolean",
}


CHNAME = {'"': "dquote", "\\": "backslash", "\n": "lf", "\r": "cr", "`": "backtick", "{": "lbrace"}


def fmt_specs(bs):
    """[{width, zero, fill}] for the placeholders of a `format_args!` template as rustc 1.97 encodes it (see facts.fmt_pieces): a text
    piece is <len><bytes>; 0xC0 is a placeholder without options; 0xC3 one with options — a little-endian u32 of flags as in
    core::fmt (fill char in the low 21 bits, bit 24 sign-aware zero pad, bit 27 width present, bit 28 precision present), followed by
    a u16 width and/or u16 precision when present.  None when another encoding is met."""
    out, i, n = [], 0, len(bs)
    while i < n and bs[i] != 0:
        b = bs[i]
        if b < 0x80:
            i += 1 + b
        elif b == 0xC0:
            out.append({"width": None, "zero": False, "fill": " "})
            i += 1
        elif b == 0xC3 and i + 4 < n:
            flags = bs[i + 1] | (bs[i + 2] << 8) | (bs[i + 3] << 16) | (bs[i + 4] << 24)
            i += 5
            width = None
            if flags & (1 << 27):
                if i + 1 >= n:
                    return None
                width = bs[i] | (bs[i + 1] << 8)
                i += 2
            if flags & (1 << 28):
                i += 2
            out.append({"width": width, "zero": bool(flags & (1 << 24)), "fill": chr(flags & 0x1FFFFF)})
        else:
            return None
    return out


def printer_scope(P):
    impls = [f for f in P.trait_impls(TRAIT, "print_graphql") if (f.self_adt or "").startswith(A) or
             (f.self_ty or "").startswith(A)]
    reach = P.reachable(impls)
    return sorted(p for p in reach if "nitrogql_printer::graphql_printer::" in p), impls


def string_printer(P):
    """the GraphQL string-literal printer, by role: the one function of the GraphQL printer that dispatches on a `char`
    (falls back to its pinned name)"""
    scope, _ = printer_scope(P)
    cands = [P.fns[p] for p in scope if not P.fns[p].derived and matches_on_type(P.fns[p], "char")]
    if len(cands) == 1:
        return cands[0]
    return P.fn("graphql_printer::utils::print_string")


def buffer_field(P):
    """JsStringWriter's output buffer, by role: its only `&mut String` field (falls back to the pinned name)"""
    adt = P.adt("sourcemap_writer::js_string_writer::JsStringWriter")
    c = [f for f, t in adt.field_types().items() if t.replace(" ", "").startswith("&mut") and t.endswith("String")]
    return adt.path, (c[0] if len(c) == 1 else "buffer")


def r16a(P, R):
    ps = string_printer(P)
    ms = matches_on_type(ps, "char")
    R.floor("R16-a", "char matches in print_string", len(ms), 1)
    # oracle: GraphQL spec StringCharacter = SourceCharacter but not `"` or `\` or LineTerminator;
    # the same set the grammar's NormalStringCharacter excludes.
    need = ['"', "\\", "\n", "\r"]
    for m in ms:
        rows = lit_table(m)
        explicit = {}
        control_guard = False
        for lits, guard, catch, arm in rows:
            for l in lits:
                explicit.setdefault(l, []).append(arm)
            if guard and any((call_name(n) or "").endswith("is_control") for n in subnodes(arm["guard"])):
                control_guard = True
        for ch in need:
            covered = ch in explicit or (control_guard and ch in "\n\r")
            esc = True
            if ch in explicit:
                # every arm that can take this character (guarded or not) writes an escape
                esc = all(any(s.startswith("\\") for s in str_lits_in(a_["body"])) for a_ in explicit[ch])
            R.check("R16-a", "graphql-string:%s" % CHNAME[ch], covered and esc,
                    "character %r is escaped in single-line GraphQL strings" % ch,
                    "print_string (single-line branch) has no escaping arm for %r, which the grammar's "
                    "NormalStringCharacter forbids raw: the printed literal does not re-parse to the same string" % ch,
                    loc=ps.loc())
    # other control characters: written as a \\u escape whose digits are hexadecimal
    for m in ms:
        for lits, guard, catch, arm in lit_table(m):
            if not (guard and any((call_name(n) or "").endswith("is_control") for n in subnodes(arm["guard"]))):
                continue
            pieces = str_lits_in(arm["body"])
            fmt_calls = {(call_name(n) or "").split("::")[-1] for n in subnodes(arm["body"]) if n.get("k") == "Call" and "fmt::rt::Argument::" in (call_name(n) or "")}
            hexa = bool(fmt_calls) and fmt_calls <= {"new_lower_hex", "new_upper_hex"}
            brace = any(p_.endswith("\\u{") for p_ in pieces) and any(p_.startswith("}") for p_ in pieces)
            if not any("\\u" in p_ for p_ in pieces):
                R.violated("R16-a", "graphql-string:control-escape", "control characters are not written as a \\u escape (pieces %s)" % pieces, loc=ps.loc())
            elif not hexa:
                R.violated("R16-a", "graphql-string:control-escape", "the \\u escape of a control character formats its code point with %s, not in hexadecimal: "
                           "U+000C is printed as `\\u0012` and read back as U+0012" % sorted(fmt_calls), loc=ps.loc())
            elif brace:
                R.holds("R16-a", "graphql-string:control-escape", "control characters -> \\u{hex}")
            else:
                # fixed-width form: GraphQL's `\uXXXX` is exactly four hex digits — width 4, padded with zeros.  The width / fill / zero
                # flag of the placeholder are read from the format template rustc keeps for `format_args!`.
                specs = [sp for n in subnodes(arm["body"]) if n.get("k") == "Lit" and n.get("lk") == "bytes" and "format_args" in (n.get("x") or "")
                         for sp in (fmt_specs(n.get("v") or []) or [None])]
                if len(specs) != 1 or specs[0] is None:
                    R.undecided("R16-a", "graphql-string:control-escape", "fixed-width \\uXXXX form: width not decoded", loc=ps.loc())
                else:
                    sp = specs[0]
                    zero = sp["zero"] or sp["fill"] == "0"
                    R.check("R16-a", "graphql-string:control-escape", sp["width"] == 4 and zero, "control characters -> \\uXXXX (four zero-padded hex digits)",
                            "the \\u escape of a control character is formatted with width %s and %s: GraphQL reads exactly four hex digits after `\\u`, "
                            "so U+000C printed as `\\u%s` is not an escape sequence and the literal does not re-parse"
                            % (sp["width"], "zero padding" if zero else "padding with %r" % sp["fill"],
                               ("c".rjust(sp["width"] or 1, "0" if zero else sp["fill"]))), loc=ps.loc())
    # block string: the `\"""` escape literal is pushed
    scope_paths, _ = printer_scope(P)
    block_lits = [l for p_ in scope_paths for l in str_lits_in(P.fns[p_].body)]
    if not any(l.startswith('"""') or l.endswith('"""') for l in block_lits):
        R.holds("R16-a", "graphql-blockstring:triple-quote", "the GraphQL printer emits no block strings", loc=ps.loc())
    else:
        R.check("R16-a", "graphql-blockstring:triple-quote", '\\"""' in block_lits,
                'block strings escape `"""` as `\\"""`', 'the GraphQL printer opens block strings with `"""` but no function of it ever emits the `\\"""` escape',
                loc=ps.loc())
    # JS template literal
    jwrite = P.fn("<sourcemap_writer::js_string_writer::JsStringWriter as sourcemap_writer::writer::SourceMapWriter>::write")
    # the escaping function, by role: the JsStringWriter function that dispatches on a `char` (today `write` itself; a helper
    # shared by write and write_for after an extraction)
    esc = [f for f in P.fns.values() if f.path.startswith(("sourcemap_writer::js_string_writer::", "<sourcemap_writer::js_string_writer::"))
           and "::tests" not in f.path and not f.derived and matches_on_type(f, "char")]
    jw = esc[0] if len(esc) == 1 else jwrite
    ms = matches_on_type(jw, "char")
    if not ms:
        # no dispatch on a `char` (e.g. search-and-copy of unescaped runs): the table is read off the literals of the writer's
        # module — a special character is escaped only if its escape sequence is written somewhere and the character is looked for
        mod = [f for f in P.fns.values() if f.path.startswith(("sourcemap_writer::js_string_writer::", "<sourcemap_writer::js_string_writer::"))
               and "::tests" not in f.path and not f.derived and (f.path in P.reachable([jwrite]))]
        strs = {l for f in mod for l in str_lits_in(f.body)}
        chars = set()
        for f in mod:
            for x in f.walk():
                if x.get("lk") == "char" and isinstance(x.get("v"), str):
                    chars.add(x["v"])
                elif x.get("lk") == "byte" and isinstance(x.get("v"), int):
                    chars.add(chr(x["v"]))
        # `${` may also be neutralised as a whole (`"${"` replaced by `"$\\{"` or `"\\${"`): the escape and the `$` test are then in
        # string literals, not in characters
        def written(ch):
            return ("\\" + ch) in strs or (ch == "{" and any("\\{" in l or "\\${" in l for l in strs))

        def looked_for(ch):
            return ch in chars or any(ch in l and "\\" not in l for l in strs)
        # a pass that doubles backslashes must run before the passes that introduce them
        late = [x for f in mod for x in f.walk() if x.get("k") == "MethodCall" and x.get("method") in ("replace", "replacen") and x["args"]
                and lit_value(x["args"][0]) == "\\"
                and any(y is not x and y.get("k") == "MethodCall" and y.get("method") in ("replace", "replacen") and len(y["args"]) > 1
                        and "\\" in str(lit_value(y["args"][1]) or "") for y in subnodes(x["recv"]))]
        for ch, why in (("\\", "backslash starts an escape in template literals"),
                        ("`", "backtick terminates the template literal"),
                        ("{", "`${` starts a substitution")):
            if ch == "\\" and late:
                R.violated("R16-a", "js-template:backslash", "backslashes are doubled after another escape has already been inserted: the backslash of that "
                           "escape is doubled too and the escaped character becomes live again", loc=jw.loc())
                continue
            R.check("R16-a", "js-template:%s" % CHNAME[ch], written(ch) and looked_for(ch), "%r is looked for and its escape is written (%s)" % (ch, why),
                    "JsStringWriter::write never writes the escape of %r or never looks for it (%s)" % (ch, why), loc=jw.loc())
        R.check("R16-a", "js-template:dollar-flag", looked_for("$"), "`{` is escaped with regard to a preceding `$`",
                "nothing in JsStringWriter::write looks at `$`: `{` cannot be escaped only after `$`", loc=jw.loc())
    for m in ms:
        explicit = {}
        for lits, guard, catch, arm in lit_table(m):
            for l in lits:
                explicit.setdefault(l, []).append(arm)
        for ch, why in (("\\", "backslash starts an escape in template literals"),
                        ("`", "backtick terminates the template literal"),
                        ("{", "`${` starts a substitution")):
            # `{` needs escaping only after `$`: one of its arms (or branches) escapes; the others must escape in every arm
            quant = any if ch == "{" else all
            ok = ch in explicit and quant(any(s.startswith("\\") for s in str_lits_in(a_["body"])) for a_ in explicit[ch])
            if ch == "{" and not ok:
                # look-ahead spelling of the same test: the `$` arm peeks at a following `{` and writes the escaped pair
                ok = any(mentions_char(c_, "{") for c_ in brace_conditions(m)) and any(
                    "\\{" in s_ for a_ in explicit.get("$", []) for s_ in str_lits_in(a_["body"]))
            R.check("R16-a", "js-template:%s" % CHNAME[ch], ok, "%r is escaped (%s)" % (ch, why),
                    "JsStringWriter::write has no escaping arm for %r (%s)" % (ch, why), loc=jw.loc())
        # the `{` escape must depend on the previous character being `$` and the flag must be updated from c == '$'
        if "{" in explicit or "$" in explicit:
            R.check("R16-a", "js-template:dollar-flag", bool(brace_conditions(m)), "`{` is escaped only after `$`",
                    "the `{` arm is not conditional on the previous `$`", loc=jw.loc())
    # the `$` flag is recomputed from the current character alone (`$$` followed by `{` must still be escaped)
    flag_ids, cond_lits = set(), set()
    for m in ms:
        for c in brace_conditions(m):
            flag_ids |= {x["local"] for x in subnodes(c) if x.get("k") == "Path" and "local" in x and str(x.get("t", "")).lstrip("&") in ("bool", "char")}
            cond_lits |= {x.get("v") for x in subnodes(c) if x.get("k") == "Lit"}
    flag_assigns = [n for n in jw.walk() if n.get("k") == "Assign" and n["l"].get("k") == "Path" and n["l"].get("local") in flag_ids]
    if flag_ids:
        R.floor("R16-a", "dollar-flag updates", len(flag_assigns), 1)
    for n in flag_assigns:
        refs = [x for x in subnodes(n["r"]) if x.get("k") == "Path" and x.get("local") in flag_ids]
        lits = [x.get("v") for x in subnodes(n["r"]) if x.get("k") == "Lit"]
        if refs:
            R.violated("R16-a", "js-template:dollar-flag-update", "the `$`-seen flag is updated from its own previous value: after an even run of `$` a "
                       "following `{` is written unescaped and `${` becomes a live substitution", loc=jw.loc())
        elif lits == ["$"] or (not lits and "$" in cond_lits):
            # flag := (c == '$'), or the previous character itself is remembered and compared with '$' where `{` is written
            R.holds("R16-a", "js-template:dollar-flag-update", "what is remembered depends on the current character only", loc=jw.loc())
        elif lits in (["true"], ["false"], [True], [False]):
            R.undecided("R16-a", "js-template:dollar-flag-update", "the flag is set by constants in separate branches; not decided", loc=jw.loc())
        else:
            R.violated("R16-a", "js-template:dollar-flag-update", "the `$`-seen flag is updated from %s, not from `c == '$'`" % lits, loc=jw.loc())
    # every text path goes through `write`
    wf = P.fn("<sourcemap_writer::js_string_writer::JsStringWriter as sourcemap_writer::writer::SourceMapWriter>::write_for")
    for entry, what in ((jwrite, "write"), (wf, "write_for")):
        R.check("R16-a", "js-template:%s" % what, jw.path in P.reachable([entry]), "%s goes through the escaping character loop" % what,
                "JsStringWriter::%s does not go through the escaping write" % what, loc=entry.loc())
    writers = []
    buf = buffer_field(P)
    for f in P.fns.values():
        if buf in field_reads(f) and "::tests" not in f.path:
            writers.append(f.path)
    allowed = {jw.path, P.fn("js_string_writer::JsStringWriter::new").path,
               P.fn("<sourcemap_writer::js_string_writer::JsStringWriter as core::ops::drop::Drop>::drop").path}
    # a method that hands the buffer to the escaping function (and writes line breaks / indentation itself, as `write` always did)
    allowed |= {w_ for w_ in writers if jw.path in P.reachable([P.fns[w_]])}
    R.check("R16-a", "js-template:buffer-owners", set(writers) <= allowed,
            "only new/write/drop touch the output buffer", "other functions write the JsStringWriter buffer unescaped: %s"
            % sorted(set(writers) - allowed))
    # escaping routed past the escaper: where the escaping is a per-character dispatch, text of the chunk reaches the buffer only
    # from inside that dispatch — a branch that appends the line itself (an `escape: false` mode, a "names need no escaping"
    # shortcut) writes `\`, backtick and `${` raw into the template literal
    if ms:
        raw = []
        for f in sorted({jw.path} | set(writers)):
            f = P.fns[f]
            texts = [p_["local"] for p_ in f.params if p_.get("k") == "Binding" and peel(str(p_.get("t", ""))) == "str"]
            if not texts:
                continue
            pvf = Prov(f)
            tnames = {pvf.params[l_] for l_ in texts}
            own_ms = matches_on_type(f, "char")
            for idx, (x, _) in enumerate(f.nodes()):
                if not (x.get("k") == "MethodCall" and x.get("method") in ("push_str", "push", "extend", "write_str", "insert_str") and x["args"]):
                    continue
                if "String" not in norm(str(x["recv"].get("t", ""))):
                    continue
                if not any(("param", t_) in pvf.atoms(x["args"][0]) for t_ in tnames):
                    continue
                if any(c_[0] == "arm" and any(c_[1] is m_ for m_ in own_ms) for c_ in enclosing_contexts(f, idx)):
                    continue
                raw.append(short(f.path))
        R.check("R16-a", "js-template:raw-text", not raw, "text of a chunk reaches the buffer only through the character dispatch that escapes it",
                "%s appends (part of) the chunk to the template-literal buffer outside the character dispatch that escapes it: on that path "
                "backslashes, backticks and `${` of the text are written raw" % ", ".join(sorted(set(raw))), loc=jw.loc())
    new = P.fn("js_string_writer::JsStringWriter::new")
    drop = P.fn("<sourcemap_writer::js_string_writer::JsStringWriter as core::ops::drop::Drop>::drop")
    R.check("R16-d", "template-open", any(s.startswith("`") for g in scope_fns(P, new) for s in str_lits_in(g.body)),
            "JsStringWriter::new opens the template literal", "JsStringWriter::new does not open a backtick", loc=new.loc())
    R.check("R16-d", "template-close", any(n.get("k") == "Lit" and str(n.get("v", "")).endswith("`") for g in scope_fns(P, drop) for n in g.walk()),
            "Drop closes the template literal", "Drop for JsStringWriter does not push the closing backtick", loc=drop.loc())


def mentions_char(e, ch):
    return any(x.get("lk") == "char" and x.get("v") == ch for x in subnodes(e))


def brace_conditions(m):
    """conditions under which `${` is neutralised in a char match: guards / `if`s of the `{` arm(s) (look-behind at `$`), or of a
    `$` arm that looks ahead at `{`"""
    out = []
    for lits, guard, catch, arm in lit_table(m):
        conds = ([arm["guard"]] if guard else []) + [i_["cond"] for i_ in subnodes(arm["body"]) if i_.get("k") == "If"]
        if "{" in lits:
            out.extend(conds)
        elif "$" in lits:
            out.extend(c_ for c_ in conds if mentions_char(c_, "{"))
    return out


def r16b(P, R):
    scope, impls = printer_scope(P)
    R.count("graphql_printer_functions", len(scope))
    n = field_coverage(P, R, "R16-b", scope, [A + t for t in AST_TYPES], EXEMPT, "the GraphQL (SDL/operation) printer")
    # keyword-carrying literals
    from templates import reads_in
    reads = reads_in(P, scope)
    for t in AST_TYPES_KEYWORD:
        adt = P.adt(A + t)
        ok = (adt.path, "keyword") in reads
        R.check("R16-b", "%s.keyword" % t.split("::")[-1], ok, "printed via keyword",
                "`%s` is never printed" % adt.path)
        n += 1
    R.floor("R16-b", "AST content fields", n, 100)
    # every enum variant of the AST sum types is matched explicitly by its impl (no catch-all swallowing a kind)
    from facts import matches_on, arm_variants
    for enum, nvar in (("value::Value", 9), ("type::Type", 3), ("selection_set::Selection", 3),
                       ("operation::ExecutableDefinition", 2), ("type_system::TypeDefinition", 6),
                       ("type_system::TypeExtension", 6), ("type_system::TypeSystemDefinition", 3),
                       ("type_system::TypeSystemDefinitionOrExtension", 5),
                       ("operation_ext::ExecutableDefinitionExt", 3), ("operation_ext::ImportTarget", 2)):
        adt = P.adt(A + enum)
        found = False
        for f in impls:
            for m in matches_on(f, enum):
                found = True
                v, catch = arm_variants(m)
                allv = set(adt.variant_names())
                R.check("R16-b", "variants:" + enum.split("::")[-1] + "@" + short(f.path), v == allv and not catch,
                        "all %d variants printed" % len(allv),
                        "GraphQL printer match over %s handles %s of %s (catch-all=%s)" % (enum, sorted(v), sorted(allv), catch),
                        loc=f.loc())
        if not found:
            # ImportTarget is matched inside ImportDefinition's impl
            hit = [f for f in P.fns.values() if "graphql_printer" in f.path and matches_on(f, enum)]
            if hit:
                R.holds("R16-b", "variants:" + enum.split("::")[-1], "matched")
            else:
                R.undecided("R16-b", "variants:" + enum.split("::")[-1], "no `match` over %s in the GraphQL printer (its variants may be told apart "
                            "another way; field coverage above still applies)" % enum)


def r16e(P, R):
    """lossless printing: no filtering/reordering adaptor and no early loop exit in the AST printer"""
    from templates import LOSSY_OR_REORDERING
    scope, impls = printer_scope(P)
    n = 0
    for p in scope:
        f = P.fns[p]
        if "graphql_printer::schema::" in p:
            continue
        for c in f.walk():
            if c.get("k") == "MethodCall":
                n += 1
                if c["method"] in LOSSY_OR_REORDERING:
                    R.violated("R16-e", "lossy:%s:%s" % (short(f.path), c["method"]),
                               "%s applies `%s` while printing: a component of the document can be dropped or reordered"
                               % (f.path, c["method"]), loc=f.loc())
        if f.name == "print_graphql":
            # leaving a loop over the components early drops the remaining ones; a `return` outside any loop (a guard before
            # anything is printed, an early return replacing an else branch) is not evidence of loss
            in_loop, other = [], []
            for idx, (x, _) in enumerate(f.nodes()):
                if (x.get("k") == "Break" and "desugar" not in (x.get("x") or "")) or (x.get("k") == "Ret" and "desugar" not in (x.get("x") or "")):
                    ctx = [c_[0] for c_ in enclosing_contexts(f, idx)]
                    closure_first = "closure" in ctx and ("loop" not in ctx or ctx.index("closure") < ctx.index("loop"))
                    (in_loop if "loop" in ctx and not closure_first else other).append(x)
            if in_loop:
                R.violated("R16-e", "early-exit:" + short(f.path), "%s leaves the loop over the components it prints early: the remaining ones "
                           "are dropped" % f.path, loc=f.loc())
            elif other:
                R.undecided("R16-e", "early-exit:" + short(f.path), "%s returns early outside any loop; whether something is left unprinted is "
                            "not decided" % f.path, loc=f.loc())
    R.holds("R16-e", "lossy:none", "%d method calls inspected in the AST printer, none filters/reorders" % n)
    R.floor("R16-e", "method calls inspected", n, 300)


def r16f(P, R):
    """separator discipline: a branch that prints list elements without a separator may only be taken for < 2 elements"""
    scope, impls = printer_scope(P)
    n = 0
    for p in scope:
        f = P.fns[p]
        if "graphql_printer::schema::" in p:
            continue
        for node in f.walk():
            if node.get("k") != "If":
                continue
            c = node["cond"]
            while c.get("k") == "DropTemps":
                c = c["e"]
            if c.get("k") != "Binary" or c.get("op") not in ("<", "<=", "==", ">", ">="):
                continue
            l, r = c["l"], c["r"]
            if not (l.get("k") == "MethodCall" and l["method"] == "len" and lit_value(r) is not None):
                # also `let len = x.len(); if len < 2`
                if not (l.get("k") == "Path" and lit_value(r) is not None and "usize" == l.get("t")):
                    continue
            try:
                k = int(lit_value(r))
            except Exception:
                continue
            op = c["op"]
            if op not in ("<", "<="):
                continue
            max_compact = k - 1 if op == "<" else k
            # does the compact (then) branch write a separator inside its loop?
            then_lits = [x for x in str_lits_in(node["then"])]
            has_sep = any(s.strip(" ") in (",", "\n", ",\n") or s in (", ", "\n") for s in then_lits if s not in (": ",))
            n += 1
            R.check("R16-f", "compact-threshold:%s#%d" % (short(f.path), n), max_compact <= 1 or has_sep,
                    "separator-less form only for at most %d element(s)" % max_compact,
                    "%s prints up to %d elements in its compact form, which writes no separator between elements: the printed text "
                    "does not re-parse (e.g. `{a: 1b: 2}`)" % (f.path, max_compact), loc=f.loc())
    R.floor("R16-f", "compact/multiline thresholds", n, 1)   # several lists may share one part printer


def builtin_remover(P, rg):
    """the function that strips the nitrogql-only definitions before the server schema is printed, by role: the function of the
    CLI crate reachable from run_generate that maps one `&TypeSystemDocument` to a `TypeSystemDocument` and filters by a name
    literal (falls back to its pinned name)"""
    named = P.fn("nitrogql_cli::builtins::remove_builtins", required=False)
    if named is not None:
        return named
    doc = "nitrogql_ast::type_system::TypeSystemDocument"
    cands = [g for g in scope_fns(P, rg) if g.kind == "Fn" and len(g.sig_inputs) == 1 and peel(g.sig_inputs[0]).startswith(doc)
             and (g.sig_output or "").startswith(doc)
             and any(n.get("k") == "Binary" and n.get("op") in ("!=", "==") and isinstance(lit_value(n["l"]) or lit_value(n["r"]), str) for n in g.walk())]
    if len(cands) == 1:
        return cands[0]
    return P.fn("nitrogql_cli::builtins::remove_builtins")


def peel(t):
    t = (t or "").strip()
    while t.startswith("&"):
        t = t[1:].strip()
        if t.startswith("mut "):
            t = t[4:].strip()
    return t


def str_of(P, n, depth=0):
    """string value of a literal or of a workspace constant defined by one; None otherwise"""
    v = lit_value(n)
    if isinstance(v, str):
        return v
    while isinstance(n, dict) and n.get("k") in ("AddrOf", "DropTemps", "Use", "Cast", "Type") and isinstance(n.get("e"), dict):
        n = n["e"]
    if isinstance(n, dict) and n.get("k") == "Path" and "def" in n and depth < 2:
        c = P.fns.get(norm(n["def"]))
        if c is not None and str(c.kind).startswith(("Const", "Static")):
            return str_of(P, c.body, depth + 1)
    return None


# adaptors / in-place operations that cut a sequence short or reorder it whatever its elements are (content filters — filter,
# filter_map, retain — are the very purpose of a remover and are judged by the names they compare instead)
TRUNCATING = {"skip", "skip_while", "take", "take_while", "step_by", "rev", "dedup", "dedup_by", "dedup_by_key", "unique", "unique_by",
              "sorted", "sorted_by", "sorted_by_key", "map_while", "sort", "sort_by", "sort_by_key", "sort_unstable", "sort_unstable_by",
              "sort_unstable_by_key", "sort_by_cached_key", "reverse", "truncate", "split_off", "swap_remove", "rotate_left", "rotate_right"}
COLLECTING = {"push", "push_back", "insert", "extend", "push_str", "extend_from_slice", "append"}


def lossless_traversal(P, R, rule, fns, what):
    """A function that copies a document minus some named elements visits every element: a loop that builds the output is not left
    early (`break`/`return` where `continue` was meant drops everything after the element that triggered it) and no truncating or
    reordering adaptor is applied.  One instance per function that traverses."""
    for g in fns:
        early, cut = [], sorted({x["method"] for x in g.walk() if x.get("k") == "MethodCall" and x.get("method") in TRUNCATING})
        traverses = False
        for idx, (x, _) in enumerate(g.nodes()):
            if x.get("k") == "Loop" and any(y.get("k") == "MethodCall" and y.get("method") in COLLECTING for y in subnodes(x)):
                traverses = True
            if x.get("k") in ("Break", "Ret") and "desugar" not in (x.get("x") or ""):
                ctx = enclosing_contexts(g, idx)
                kinds = [c_[0] for c_ in ctx]
                if "loop" not in kinds or ("closure" in kinds and kinds.index("closure") < kinds.index("loop")):
                    continue
                loop = [c_ for c_ in ctx if c_[0] == "loop"][0][1]
                if any(y.get("k") == "MethodCall" and y.get("method") in COLLECTING for y in subnodes(loop)):
                    early.append(x.get("k").lower())
        traverses = traverses or any(x.get("k") == "MethodCall" and x.get("method") in ("filter", "filter_map", "retain", "map", "flat_map") for x in g.walk())
        if not traverses:
            continue
        key = "lossless:" + short(g.path)
        if early:
            R.violated(rule, key, "%s leaves the loop that copies the %s early (`%s` where the element was to be skipped): every element after the "
                       "one that triggers it is dropped from the emitted schema" % (g.path, what, "`/`".join(sorted(set(early)))), loc=g.loc())
        elif cut:
            R.violated(rule, key, "%s applies %s while copying the %s: elements are cut off or reordered whatever their name" % (g.path, cut, what), loc=g.loc())
        else:
            R.holds(rule, key, "every element is visited; only content filters decide what is dropped", loc=g.loc())


def concrete_writers(P, scope, g, expr, depth=0):
    """[(function, writer type, local of the String buffer it wraps | None)] — where the writer passed as `expr` in `g` is created,
    following it through parameters to the callers of g inside `scope`"""
    while isinstance(expr, dict) and expr.get("k") in ("AddrOf", "DropTemps", "Use", "Unary") and isinstance(expr.get("e"), dict):
        expr = expr["e"]
    if not (isinstance(expr, dict) and expr.get("k") == "Path" and "local" in expr) or depth > 2:
        return []
    lid = expr["local"]
    for idx, p_ in enumerate(g.params):
        if p_.get("k") == "Binding" and p_.get("local") == lid:
            out = []
            for h in scope:
                for x in h.walk():
                    if x.get("k") in ("Call", "MethodCall") and call_name(x) == g.path:
                        args = ([x["recv"]] if x.get("k") == "MethodCall" else []) + x["args"]
                        r = concrete_writers(P, scope, h, args[idx], depth + 1) if idx < len(args) else []
                        if not r:
                            return []
                        out += r
            return out
    for n in g.walk():
        if n.get("k") == "Let" and n["pat"].get("k") == "Binding" and n["pat"].get("local") == lid and "init" in n:
            bufs = [y["local"] for y in subnodes(n["init"]) if y.get("k") == "Path" and "local" in y and "String" in norm(str(y.get("t", "")))]
            return [(g, norm(str(n["pat"].get("t", ""))), bufs[0] if len(bufs) == 1 else None, n)]
    return []


def branch_ctx(fn, node, idx=None):
    """the match arms / if branches around a node, outermost first"""
    if idx is None:
        idx = [i for i, (x, _) in enumerate(fn.nodes()) if x is node]
        idx = idx[0] if idx else None
    if idx is None:
        return ()
    return tuple(reversed([(c_[0], id(c_[2] if c_[0] == "arm" else c_[1])) for c_ in enclosing_contexts(fn, idx) if c_[0] in ("arm", "if-then", "if-else")]))


def compatible(a, b):
    """two program points can lie on one path: neither sits in a branch that excludes the other"""
    n = min(len(a), len(b))
    return a[:n] == b[:n]


def r16c(P, R):
    nb = P.fn("nitrogql_cli::builtins::nitrogql_builtins")
    rg = P.fn("nitrogql_cli::generate::run_generate")
    rb = builtin_remover(P, rg)
    rscope = scope_fns(P, rb)
    # names defined
    defined = set()
    for n in nb.walk():
        if n.get("k") == "Struct" and (n.get("adt") or "").endswith("DirectiveDefinition") and "rest" not in n:
            for f in n["fields"]:
                if f["name"] == "name":
                    for x in subnodes(f["e"]):
                        v = str_of(P, x) if x.get("k") in ("Lit", "Path") else None
                        if v is not None:
                            defined.add(v)
    compared = []
    for g in rscope:
        negated_helper = g.path != rb.path and g.sig_output == "bool" and all(
            any(p_.get("k") == "Unary" and p_.get("op") == "Not" for p_ in h.parents_of(i)[:2])
            for h in rscope for i, (c, _) in enumerate(h.nodes()) if c.get("k") in ("Call", "MethodCall") and call_name(c) == g.path)
        for n in g.walk():
            if n.get("k") == "Binary" and n.get("op") in ("!=", "=="):
                for side in (n["l"], n["r"]):
                    v = str_of(P, side)
                    if isinstance(v, str):
                        # `==` inside a bool helper that is only used negated is the same filter as `!=` at the call site
                        plain = (n.get("op") == "!=" and g.path == rb.path) or (n.get("op") == "==" and negated_helper)
                        compared.append((n.get("op"), v, plain))
    R.floor("R16-c", "nitrogql-only directive definitions", len(defined), 1)
    R.floor("R16-c", "name filters in remove_builtins", len(compared), 2)
    for op, v, plain in compared:
        if v in defined and not plain:
            # `==` (or a comparison inside a helper predicate): kept or dropped depends on how the result is used
            R.undecided("R16-c", "filter:%s" % v, "the comparison with `%s` is not a plain `!=` filter in %s; its polarity is not decided" % (v, rb.name), loc=rb.loc())
            continue
        R.check("R16-c", "filter:%s" % v, v in defined,
                "filter keeps everything except `%s`" % v,
                "%s filters by `%s %s`, but the nitrogql-only directives defined are %s" % (rb.name, op, v, sorted(defined)),
                loc=rb.loc())
    for d in defined:
        n_cmp = sum(1 for _, v, _ in compared if v == d)
        if n_cmp >= 2:
            R.holds("R16-c", "covered:%s" % d, "definition and applications of @%s are both removed" % d, loc=rb.loc())
        elif len(compared) >= 2:
            R.violated("R16-c", "covered:%s" % d, "@%s is defined as nitrogql-only but is not removed from both definitions and applications "
                       "(names filtered: %s)" % (d, sorted(v for _, v, _ in compared)), loc=rb.loc())
        else:
            R.undecided("R16-c", "covered:%s" % d, "%s does not filter by comparing names with literals; not decided" % rb.name, loc=rb.loc())
    # what is removed is decided by *name*.  The remover is shared by the SDL route and the introspection route, and on the latter
    # every node carries the same (built-in) position: a decision that reads a field of a source position removes or keeps whole
    # kinds of definitions on one route only.
    POSN = "nitrogql_ast::base::Pos"
    for g in rscope:
        pos_reads = sorted({n["field"] for n in g.walk() if n.get("k") == "Field" and norm(n.get("adt")) == POSN}
                           | {f_["name"] for n in g.walk() if n.get("k") == "Struct" and "rest" in n and norm(n.get("pat_adt") or n.get("def") or "") == POSN
                              for f_ in n["fields"] if f_["p"].get("k") != "Wild"})
        if pos_reads:
            R.violated("R16-c", "position-independent:" + short(g.path), "%s reads `Pos.%s` while deciding what to strip from the server schema: positions say "
                       "where a node was written, not whether it is nitrogql-only — a schema loaded by introspection has the built-in position on every "
                       "node, so user definitions are removed (or nitrogql-only ones kept) on that route; the predicate has to compare names with %s"
                       % (g.path, ", Pos.".join(pos_reads), sorted(defined)), loc=g.loc())
        else:
            R.holds("R16-c", "position-independent:" + short(g.path), "no source position takes part in what is stripped", loc=g.loc())
    # everything but the named directive survives: the remover visits every definition and every directive application
    lossless_traversal(P, R, "R16-c", rscope, "definitions / directive applications")
    # the server schema is printed from remove_builtins(..) into a JsStringWriter — in run_generate or a helper it calls.  A print
    # site belongs to the server route when its writer is the template-literal writer or its document comes from the remover.
    sites = []
    for g in scope_fns(P, rg):
        pv = None
        for n in g.walk():
            if n.get("k") == "MethodCall" and n.get("method") == "print_graphql" and n["args"]:
                pv = pv or Prov(g)
                a = pv.deep_atoms(n["recv"])
                js = "JsStringWriter" in norm(n["args"][0].get("t", ""))
                if js or has_call(a, rb.path):
                    sites.append((g, n, a, js))
    R.floor("R16-c", "server-schema print sites", len(sites), 1)
    for i, (g, c, a, js) in enumerate(sites):
        # what is printed passes through the remover — directly, inside a helper that prepares the document, or before the call
        # of the helper that prints
        ok = has_call(a, rb.path)
        if not ok and g.path != rg.path and any(x[0] == "param" for x in a):
            callers = [(h, x) for h in scope_fns(P, rg) for x in h.walk() if x.get("k") in ("Call", "MethodCall") and call_name(x) == g.path]
            if callers and all(any(has_call(Prov(h).deep_atoms(arg), rb.path) for arg in x["args"]) for h, x in callers):
                ok = True
            elif not callers:
                R.undecided("R16-c", "server-route:%d" % i, "the printed document is a parameter of %s whose callers were not found" % g.name, loc=g.loc())
                continue
        R.check("R16-c", "server-route:%d" % i, ok,
                "printed schema derives from remove_builtins(..)", "server schema is printed without %s" % rb.name, loc=g.loc())
        wt = norm(c["args"][0].get("t", ""))
        if js:
            R.holds("R16-d", "server-writer:%d" % i, "printed into the escaping JsStringWriter", loc=g.loc())
            continue
        # the writer is not (statically) the template-literal writer here: find the concrete writers it stands for.  Printing the
        # stripped schema as plain SDL through another writer is a legitimate second output; what is a defect is assembling JavaScript
        # module text (an `export ...` prefix, a backtick) around a writer that does not escape for a template literal.
        roots = concrete_writers(P, scope_fns(P, rg), g, c["args"][0])
        if not roots:
            R.undecided("R16-d", "server-writer:%d" % i, "the writer `%s` the server schema is printed into could not be traced to where it is created" % wt, loc=g.loc())
            continue
        bad = []
        for h, ty, buf, let_ in roots:
            if "JsStringWriter" in ty:
                continue
            wctx = branch_ctx(h, let_)
            js_text = [l for xi, (x, _) in enumerate(h.nodes()) if x.get("k") == "MethodCall" and x.get("method") in ("push_str", "push", "write_str", "insert_str")
                       and buf is not None and any(y.get("k") == "Path" and y.get("local") == buf for y in subnodes(x["recv"]))
                       and compatible(branch_ctx(h, x, xi), wctx)
                       for l in str_lits_in(x) if "export " in l or "`" in l]
            if buf is None or js_text:
                bad.append((h, ty, js_text))
        R.check("R16-d", "server-writer:%d" % i, not bad, "printed into the escaping JsStringWriter wherever a JavaScript module is assembled around it",
                "%s" % "; ".join("%s prints the server schema into `%s` while the same buffer receives JavaScript module text %s: the schema text is not "
                                  "escaped for the template literal" % (h.path, ty, lits[:2]) for h, ty, lits in bad), loc=g.loc())


def r16g(P, R):
    """the model plugin's runtime-server transformation removes @model and nothing else: every component it rebuilds is rebuilt from
    the same component of the same node"""
    fs = [f for f in P.fns.values() if f.path.endswith("::transform_document_for_runtime_server") and "model_plugin" in f.path and not f.derived]
    R.floor("R16-g", "model plugin runtime-server transformation", len(fs), 1)
    for f in fs:
        pv = Prov(f)
        lits = [n for n in f.walk() if n.get("k") == "Struct" and "rest" not in n and n.get("base") is not None and norm(n.get("adt", "")).startswith(A)]
        R.floor("R16-g", "functional-update literals", len(lits), 2)
        for n in lits:
            adt = norm(n["adt"])
            base_locals = {y["local"] for y in subnodes(n["base"]) if y.get("k") == "Path" and "local" in y}
            for fld in n["fields"]:
                a = pv.atoms(fld["e"])
                own = has_field(a, adt, fld["name"])
                foreign = sorted((x[1].split("::")[-1], x[2]) for x in a if x[0] == "field" and x[2] == fld["name"] and x[1] != adt and x[1].startswith(A))
                R.check("R16-g", "rebuilt:%s.%s" % (adt.split("::")[-1], fld["name"]), own and not (foreign and not own),
                        "`%s` is rebuilt from the node's own `%s`" % (fld["name"], fld["name"]),
                        "%s rebuilds %s.%s from %s instead of the node's own `%s`: the printed schema no longer denotes the checked one"
                        % (f.path, adt.split("::")[-1], fld["name"], foreign or "other data", fld["name"]), loc=f.loc())
        removed = sorted({x.get("v") for g in scope_fns(P, f) for c in g.walk() if c.get("k") == "Binary" and c.get("op") in ("==", "!=")
                          for x in subnodes(c) if x.get("k") == "Lit" and x.get("lk") == "str"})
        if removed:
            R.check("R16-g", "removes-only-model", removed == ["model"], "only the `model` directive is filtered out",
                    "the transformation filters by names %s" % removed, loc=f.loc())
        else:
            R.undecided("R16-g", "removes-only-model", "the transformation does not select what it removes by comparing names with literals", loc=f.loc())
        bad = sorted({c["method"] for g in scope_fns(P, f) for c in g.walk() if c.get("k") == "MethodCall" and c["method"] in TRUNCATING})
        R.check("R16-g", "no-other-loss", not bad, "no truncating/reordering adaptor", "the transformation applies %s" % bad, loc=f.loc())
        lossless_traversal(P, R, "R16-g", scope_fns(P, f), "definitions / fields / directive applications")


RULES = [("R16-a", r16a), ("R16-b", r16b), ("R16-c", r16c), ("R16-e", r16e), ("R16-f", r16f), ("R16-g", r16g)]
EXPLANATION = (
    "Static necessary conditions for print/re-parse fidelity: (R16-a) escape tables — the single-line string printer has "
    "an escaping arm for every character the GraphQL grammar forbids raw, the block-string printer escapes the triple "
    "quote, and the JS template-literal writer escapes backslash, backtick and `${`, with all text funnelled through it; "
    "(R16-b) non-interference — every content field of every AST node type is read by some GraphQLPrinter function and "
    "every variant of every AST sum type is printed explicitly; (R16-c) the nitrogql-only directive name defined equals "
    "the name filtered from definitions and applications, and both server-schema routes print remove_builtins(..) into "
    "the escaping writer (R16-d: template opened in new, closed in Drop). Not decided: parse(eval(template)) = schema.")
ASSUMPTIONS = ["GraphQL spec §2.9.4 StringCharacter table and ECMAScript template literal lexical grammar, transcribed by hand",
               "rustc's type checker / HIR of nightly 1.97"]


def main(tier):
    return harness.run_property("C16", RULES, "other", EXPLANATION, ASSUMPTIONS, tier)
